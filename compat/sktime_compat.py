import numpy as np, pandas as pd, sklearn.base
for n,t in [("float",float),("int",int),("bool",bool),("object",object),("str",str),("complex",complex)]:
    if n not in np.__dict__:
        setattr(np,n,t)
if not hasattr(pd,"Int64Index"):
    pd.Int64Index = pd.Index
if not hasattr(sklearn.base,"_pprint"):
    def _pprint(params, offset=0, printer=repr):
        return ", ".join(f"{k}={printer(v)}" for k,v in sorted(params.items()))
    sklearn.base._pprint=_pprint
import sklearn.model_selection._search as _s
if not hasattr(_s,"_check_param_grid"):
    def _check_param_grid(param_grid):
        if hasattr(param_grid, "items"):
            param_grid = [param_grid]
        for p in param_grid:
            for name, v in p.items():
                if isinstance(v, np.ndarray) and v.ndim > 1:
                    raise ValueError("Parameter array should be one-dimensional.")
                if isinstance(v, str) or not isinstance(v, (np.ndarray, list, tuple)):
                    raise ValueError("Parameter grid for parameter (%s) needs to be a list or numpy array" % name)
                if len(v) == 0:
                    raise ValueError("Parameter values for parameter (%s) need to be a non-empty sequence." % name)
    _s._check_param_grid=_check_param_grid
import sys, types
try:
    import numba
except ImportError:
    nb = types.ModuleType("numba")
    def njit(*a, **k):
        if len(a)==1 and callable(a[0]) and not k: return a[0]
        return lambda f: f
    nb.njit = njit; nb.jit = njit; nb.prange = range
    nb.typed = types.ModuleType("numba.typed")
    nb.typed.Dict = dict; nb.typed.List=list
    nb.types = types.ModuleType("numba.types")
    nb.core = types.ModuleType("numba.core"); 
    sys.modules["numba"]=nb; sys.modules["numba.typed"]=nb.typed; sys.modules["numba.types"]=nb.types; sys.modules["numba.core"]=nb.core
import scipy.stats.morestats as _m
import sklearn.utils.metaestimators as _me
if not hasattr(_me,"if_delegate_has_method"):
    from sklearn.utils.metaestimators import available_if
    def if_delegate_has_method(delegate):
        if isinstance(delegate, str): delegate=(delegate,)
        def check(self):
            for d in delegate:
                if hasattr(self, d):
                    return True
            return False
        def deco(fn):
            def chk(self):
                for d in delegate:
                    if hasattr(self,d):
                        getattr(getattr(self,d), fn.__name__); return True
                return False
            return available_if(chk)(fn)
        return deco
    _me.if_delegate_has_method=if_delegate_has_method
if not hasattr(_m,"_boxcox_conf_interval"):
    import scipy.stats._morestats as _mm
    for n in ("_boxcox_conf_interval","_calc_uniform_order_statistic_medians","boxcox_llf","optimize","special","distributions"):
        if hasattr(_mm,n): setattr(_m,n,getattr(_mm,n))
if not hasattr(pd.Index,"is_monotonic"):
    pd.Index.is_monotonic = property(lambda self: self.is_monotonic_increasing)
if not hasattr(pd.Series,"is_monotonic"):
    pd.Series.is_monotonic = property(lambda self: self.is_monotonic_increasing)
def _patch_fh():
    import sktime.forecasting.base._fh as _fh
    if not hasattr(_fh.ForecastingHorizon, "__iter__"):
        _fh.ForecastingHorizon.__iter__ = lambda self: iter(self.to_pandas())
if not hasattr(pd.Series, "append"):
    def _append(self, other, ignore_index=False, verify_integrity=False):
        if isinstance(other,(list,tuple)): to=[self]+list(other)
        else: to=[self, other]
        return pd.concat(to, ignore_index=ignore_index, verify_integrity=verify_integrity)
    pd.Series.append=_append
if not hasattr(pd.DataFrame, "append"):
    def _dappend(self, other, ignore_index=False, verify_integrity=False, sort=False):
        if isinstance(other, dict):
            other = pd.DataFrame([other]) if not any(isinstance(v,(pd.Series,)) for v in other.values()) else pd.DataFrame({k:[v] for k,v in other.items()})
        elif isinstance(other, pd.Series):
            other = other.to_frame().T
        return pd.concat([self, other], ignore_index=ignore_index, sort=sort)
    pd.DataFrame.append=_dappend
if not hasattr(pd.DataFrame, "iteritems"):
    pd.DataFrame.iteritems = pd.DataFrame.items
    pd.Series.iteritems = pd.Series.items
# ForecastingHorizon is iterated in a few places (pandas 1.x made the wrapper iterable through
# __getitem__; pandas 2 raises a different error) -- patched right after the module is loaded.
import importlib.abc, importlib.util
_POST = {}
class _PostImport(importlib.abc.MetaPathFinder):
    def find_spec(self, name, path, target=None):
        if name not in _POST:
            return None
        sys.meta_path.remove(self)
        try:
            spec = importlib.util.find_spec(name)
        finally:
            sys.meta_path.insert(0, self)
        if spec is None or spec.loader is None:
            return None
        loader = spec.loader
        orig = loader.exec_module
        def exec_module(module, _orig=orig, _name=name):
            _orig(module)
            _POST[_name](module)
        loader.exec_module = exec_module
        return spec
def _post_fh(module):
    if not hasattr(module.ForecastingHorizon, "__iter__"):
        module.ForecastingHorizon.__iter__ = lambda self: iter(self.to_pandas())
_POST["sktime.forecasting.base._fh"] = _post_fh
sys.meta_path.insert(0, _PostImport())
import warnings as _w
_w.filterwarnings("ignore")

# sklearn.metrics._regression._check_reg_targets: 0.24 signature (y_true, y_pred, multioutput, dtype) -> 4-tuple;
# mean_squared_error(squared=...).  Only the names imported into sktime's metrics module are replaced.
import inspect as _inspect
import sklearn.metrics._regression as _reg
import sklearn.metrics as _skm
def _post_metrics(module):
    if "sample_weight" in _inspect.signature(_reg._check_reg_targets).parameters:
        def _check_reg_targets(y_true, y_pred, multioutput, dtype="numeric"):
            out = _reg._check_reg_targets(y_true, y_pred, None, multioutput, dtype=dtype)
            return out[0], np.asarray(out[1]), np.asarray(out[2]), out[-1]
        module._check_reg_targets = _check_reg_targets
    if "squared" not in _inspect.signature(_skm.mean_squared_error).parameters:
        def _mean_squared_error(y_true, y_pred, *, sample_weight=None, multioutput="uniform_average", squared=True):
            r = _skm.mean_squared_error(y_true, y_pred, sample_weight=sample_weight, multioutput=multioutput)
            return r if squared else np.sqrt(r)
        module._mean_squared_error = _mean_squared_error
_POST["sktime.performance_metrics.forecasting._functions"] = _post_metrics
