"""Runs under /venv/bin/python with the compat shim: bounded stand-in tier and replay of
counterexamples on the REAL code in /repo.

  native_driver.py bounded <prop> <tier> <out.json>
  native_driver.py replay  <prop> <record.json>      (prints one JSON line)
"""
import importlib
import json
import os
import sys
import traceback

import sktime_compat  # noqa: F401  (must come first)


def main():
    mode, prop = sys.argv[1], sys.argv[2]
    mod = importlib.import_module("contracts.native." + prop)
    if mode == "bounded":
        tier, out = sys.argv[3], sys.argv[4]
        seed = int(os.environ.get("VERIF_SEED", "0") or 0)
        res = mod.bounded(tier, seed)
        json.dump(res, open(out, "w"), default=str)
        return 0
    if mode == "replay":
        rec = json.load(open(sys.argv[3]))
        try:
            res = mod.replay(rec)
        except Exception:
            res = {"reproduced": False, "detail": "replay function crashed: " + traceback.format_exc()[-1500:]}
        print(json.dumps(res, default=str))
        return 0
    return 2


if __name__ == "__main__":
    sys.exit(main())
