"""C03 (and the horizon part of C20): forecasts are indexed by exactly the requested horizon from the true cutoff."""
from pyvc.spec import *   # noqa
from pyvc.values import SArr, SList, SObj, Opaque, SSeries, AbstractObj
from pyvc.libmodels import Event
from pyvc import ops
import z3
from contracts.C02_fh import sym_fh, vals, sym_values
from contracts.C01_split import sym_series
from contracts.C07_evaluate import trace
from contracts.C10_update import fitted_forecaster, recorder, RECV

SK = "sktime/forecasting/base/_sktime.py"
Z = ops.to_z3


def _mk(B, required, fitted, has_fh):
    if required:
        obj, y = fitted_forecaster(B, "DirectTabularRegressionForecaster", "sktime.forecasting.compose._reduce", abstract_methods=(),
                                   ctor_args=(B.abstract("regressor", isa=("RegressorMixin",)),))
    else:
        obj, y = fitted_forecaster(B, abstract_methods=())
    obj.attrs["_is_fitted"] = fitted
    if not has_fh:
        obj.attrs["_fh"] = None
    return obj


FH_ARGS = ["None", "FH", "list", "int", "dup-list", "str"]


def _fh_arg(B, kind):
    if kind == "None":
        return None
    if kind == "FH":
        return sym_fh(B, "fh_new", nonempty=True, oos=True)
    if kind == "dup-list":
        return SList([1, 1], "list")
    if kind == "list":
        a = B.arr("fh_new", kind="list")
        return a
    return sym_values(B, kind, "fh_new")


def _valid_fh(f):
    if isinstance(f, SObj):
        return True
    if isinstance(f, SArr):
        return And(pairwise_distinct(f), Z(f.len) >= 1)
    if isinstance(f, SList):
        return len(set(f.items)) == len(f.items) and len(f.items) > 0
    from pyvc.values import is_intlike
    return is_intlike(f)


def _bad_type(f):
    return isinstance(f, str)


def same_horizon(a, b):
    """new horizon (any accepted form) denotes the same steps as the stored one"""
    va = vals(a) if isinstance(a, SObj) else a
    return equiv(va, vals(b)) if isinstance(va, (SArr, SList)) else And(Eq(vals(b).len, 1), Eq(vals(b).fn(0), va))


# ---- optional horizon ---------------------------------------------------------------------------
OPT_CASES = [f"{k}|{f}|{h}" for k in FH_ARGS for f in ("fitted", "unfitted") for h in ("hasfh", "nofh")]


def _opt_inputs(B, case):
    k, f, h = case.split("|")
    return {"self": _mk(B, False, f == "fitted", h == "hasfh"), "fh": _fh_arg(B, k)}


contract(f"{SK}::_OptionalForecastingHorizonMixin._set_fh", "C03,C20", cases=OPT_CASES, inputs=_opt_inputs,
         raises=[("ValueError", lambda A: Or(A.fh is None and A.self.attrs["_is_fitted"] and A.self.attrs["_fh"] is None,
                                             (A.fh is not None and not _bad_type(A.fh) and Not(_valid_fh(A.fh))))),
                 ("TypeError", lambda A: _bad_type(A.fh))],
         ensures=[("given-horizon-is-stored-else-kept",
                   lambda A, r: (A.self.attrs["_fh"] is A.self.ghost_fh0) if A.fh is None else
                   (isinstance(A.self.attrs["_fh"], SObj) and same_horizon(A.fh, A.self.attrs["_fh"]) is not False))])


def _opt_inputs2(B, case):
    d = _opt_inputs(B, case)
    d["self"].ghost_fh0 = d["self"].attrs["_fh"]
    return d


from pyvc.spec import REGISTRY as _REG
_REG[f"{SK}::_OptionalForecastingHorizonMixin._set_fh"].inputs = _opt_inputs2


# ---- required horizon ---------------------------------------------------------------------------
REQ_CASES = ["None|fitted", "None|unfitted", "FH|unfitted", "list|unfitted", "FH-same|fitted", "FH-other|fitted", "dup-list|unfitted", "str|unfitted"]


def _req_inputs(B, case):
    k, f = case.split("|")
    obj = _mk(B, True, f == "fitted", f == "fitted")
    obj.ghost_fh0 = obj.attrs["_fh"]
    if k == "FH-same":
        fh = obj.attrs["_fh"]
        # an equal horizon given as a NEW object with the same steps
        n = vals(fh).len
        v = B.arr("fh_new", n=n, kind="Int64Index")
        B.assume(equiv(v, vals(fh)))
        B.assume(strictly_increasing(v))
        from contracts.C02_fh import fh_class
        fh2 = B.I.instantiate(fh_class(B.I), [v, True], {})
        return {"self": obj, "fh": fh2}
    if k == "FH-other":
        fh2 = sym_fh(B, "fh_new", nonempty=True, oos=True)
        B.assume(Not(equiv(vals(fh2), vals(obj.attrs["_fh"]))))
        return {"self": obj, "fh": fh2}
    return {"self": obj, "fh": _fh_arg(B, k)}


contract(f"{SK}::_RequiredForecastingHorizonMixin._set_fh", "C03,C20", cases=REQ_CASES, inputs=_req_inputs,
         raises=[("ValueError", lambda A: Or(A.fh is None and not A.self.attrs["_is_fitted"],
                                             (A.fh is not None and not _bad_type(A.fh) and Not(_valid_fh(A.fh))),
                                             (A.fh is not None and A.self.attrs["_is_fitted"] and isinstance(A.fh, SObj)
                                              and Not(equiv(vals(A.fh), vals(A.self.ghost_fh0)))))),
                 ("TypeError", lambda A: _bad_type(A.fh))],
         ensures=[("horizon-seen-in-fit-is-kept",
                   lambda A, r: (A.self.attrs["_fh"] is A.self.ghost_fh0) if (A.fh is None or A.self.attrs["_is_fitted"]) else
                   (isinstance(A.self.attrs["_fh"], SObj) and same_horizon(A.fh, A.self.attrs["_fh"]) is not False))])


# ---- predict / window forecasters ----------------------------------------------------------------

def _predict_inputs(B, case):
    obj, y = fitted_forecaster(B, abstract_methods=("_predict",))
    if case == "unfitted":
        obj.attrs["_is_fitted"] = False
    return {"self": obj, "fh": None if case == "stored-fh" else sym_fh(B, "fh_new", nonempty=True, oos=True), "X": None}


contract(f"{SK}::_SktimeForecaster.predict", "C03,C04", cases=["new-fh", "stored-fh", "unfitted"], inputs=_predict_inputs,
         raises=[("NotFittedError", lambda A: A.self.attrs["_is_fitted"] is False)],
         ensures=[("forecast-for-exactly-the-requested-horizon",
                   lambda A, r: (lambda p: len(p) == 1 and (p[0].arg(0) is (A.fh if A.fh is not None else A.self.attrs["_fh"])) and r is p[0].result)(
                       [e for e in trace() if e.method == "_predict"]))])


def _pfc_inputs(B, case):
    obj, y = fitted_forecaster(B, abstract_methods=(), free_cutoff=True)
    m = B.int("len(fh_new)", 1)

    def plw(I, args, kwargs):
        f = z3.Function("window_forecast", z3.IntSort(), z3.RealSort())
        fh = args[0]
        ev = Event(obj, "_predict_last_window", args, kwargs, None)
        ev.result = SArr((vals(fh).len,), lambda i: f(Z(i)), "real", "ndarray")
        I.ctx.trace.append(ev)
        return ev.result
    plw._pyvc_native = True
    obj.attrs["_predict_last_window"] = plw
    fh = sym_fh(B, "fh_new", relative=(case == "rel"), nonempty=True, oos=(case == "rel"))
    return {"self": obj, "fh": fh, "X": None}


def _pfc_post(A, r):
    """one value per requested step, labelled cutoff + step (relative) / with the requested labels (absolute), increasing"""
    if not isinstance(r, SSeries):
        return False
    s = A.self
    fhv = vals(A.fh)
    c = Z(s.attrs["_cutoff"])
    labels = Seq(fhv.len, lambda i: ops.simp(c + Z(fhv.fn(i))) if A.fh.attrs["_is_relative"] else fhv.fn(i))
    f = [e for e in trace() if e.method == "_predict_last_window"]
    return And(len(f) == 1, equiv(r.index, labels), strictly_increasing(r.index), Eq(r.values.len, fhv.len),
               equiv(r.values, f[0].result) if f else False)


contract(f"{SK}::_BaseWindowForecaster._predict_fixed_cutoff", "C03,C12", cases=["rel", "abs"], inputs=_pfc_inputs,
         ensures=[("one-value-per-step-labelled-cutoff-plus-step", _pfc_post)], frame=lambda A: [A.self])


# ----------------------------------------------------------------------------- window forecasters: in-sample / out-of-sample dispatch
def _bwp_inputs(B, case):
    obj, y = fitted_forecaster(B, abstract_methods=(), free_cutoff=True)
    g = z3.Function("forecast_at_label", z3.IntSort(), z3.RealSort())
    c = obj.attrs["_cutoff"]
    calls = {"oos": [], "ins": []}

    def mk(which):
        def f(I, args, kwargs):
            fh = args[0]
            calls[which].append((fh, dict(kwargs)))
            v = vals(fh)
            rel = fh.attrs["_is_relative"]
            labels = SArr((v.len,), lambda i: ops.simp(Z(c) + Z(v.fn(i))) if rel else v.fn(i), "int", "Int64Index")
            return SSeries(labels, SArr((v.len,), lambda i: g(Z(labels.fn(i))), "real", "ndarray"))
        f._pyvc_native = True
        return f
    obj.attrs["_predict_fixed_cutoff"] = mk("oos")
    obj.attrs["_predict_in_sample"] = mk("ins")
    fh = sym_fh(B, "fh_new", relative=True, nonempty=True, oos=(case == "oos"))
    if case == "ins":
        B.assume(ForAll(lambda i: Z(vals(fh).fn(i)) <= 0, 0, vals(fh).len, "i"))
    obj.ghost = dict(g=g, calls=calls)
    return {"self": obj, "fh": fh, "X": None}


def _bwp_post(A, r):
    """one value per requested step, in horizon order, labelled cutoff + step; steps <= 0 are answered by the in-sample path,
    steps > 0 by the fixed-cutoff path, each asked at most once and only for its own steps"""
    if not isinstance(r, SSeries):
        return False
    gh = A.self.ghost
    fhv = vals(A.fh)
    c = Z(A.self.attrs["_cutoff"])
    n = fhv.len
    conds = [Eq(r.index.len, n), Eq(r.values.len, n),
             ForAll(lambda i: And(Eq(r.index.fn(i), ops.simp(c + Z(fhv.fn(i)))), Eq(r.values.fn(i), gh["g"](c + Z(fhv.fn(i))))), 0, n, "i")]
    for which, pos in (("oos", True), ("ins", False)):
        cl = gh["calls"][which]
        if len(cl) > 1:
            return False
        for fh, kw in cl:
            v = vals(fh)
            conds.append(ForAll(lambda i: (Z(v.fn(i)) > 0) if pos else (Z(v.fn(i)) <= 0), 0, v.len, "i"))
            conds.append(fh.attrs["_is_relative"] is True)
    return And(*conds)


contract(f"{SK}::_BaseWindowForecaster._predict", "C03,C12", cases=["oos", "ins", "mixed"], inputs=_bwp_inputs,
         ensures=[("in-sample-then-out-of-sample-one-value-per-step-labelled-cutoff-plus-step", _bwp_post, {"modular": False})],
         frame=lambda A: [A.self],
         notes=["_predict_fixed_cutoff / _predict_in_sample are abstract here (each returns a series on cutoff + its own steps); relative "
                "horizons; the horizon conversions enter through their C02 contracts"])
