"""C06: forecast accuracy metrics -- kernels equal their textbook formulas (over the reals), laws, class forwarding."""
from fractions import Fraction
from pyvc.spec import *   # noqa
from pyvc.values import SArr, SList, SObj, Opaque, SSeries, AbstractObj, FuncVal
from pyvc.libmodels import Event
from pyvc import ops
import z3
from contracts.C07_evaluate import trace

FN = "sktime/performance_metrics/forecasting/_functions.py"
CL = "sktime/performance_metrics/forecasting/_classes.py"
Z = ops.to_z3
EPS = Fraction(1, 2 ** 52)


def R_(x):
    return ops.as_real(x)


def _pair(B, extra=()):
    n = B.int("n", 1)
    d = {"y_true": B.arr("y_true", n=n, dtype="real"), "y_pred": B.arr("y_pred", n=n, dtype="real")}
    for e in extra:
        d[e] = B.arr(e, n=n, dtype="real")
    return d


def _at_fresh(B_or_none, n):
    from pyvc import spec as _S
    i = _S.CUR.ctx.fresh_int("pt")
    _S.CUR.ctx.inputs[str(i)] = i
    _S.CUR.ctx.assume(And(i >= 0, i < Z(n)))
    return i


def zabs(x):
    return ops.Abs(R_(x))


def zmax(a, b):
    return ops.Max(R_(a), R_(b))


def zmin(a, b):
    return ops.Min(R_(a), R_(b))


def _pe_post(A, r):
    i = _at_fresh(None, A.y_true.len)
    t, p, v = R_(A.y_true.fn(i)), R_(A.y_pred.fn(i)), R_(At(r, i))
    if A.symmetric:
        return And(Eq(Len(r), A.y_true.len), v * zmax(zabs(t) + zabs(p), EPS) == 2 * zabs(t - p))
    return And(Eq(Len(r), A.y_true.len), v * zmax(zabs(t), EPS) == t - p)


contract(f"{FN}::_percentage_error", "C06", cases=["symmetric", "plain"],
         inputs=lambda B, case: dict(_pair(B), symmetric=(case == "symmetric")),
         ensures=[("textbook-percentage-error-pointwise", _pe_post)])


def _re_post(A, r):
    i = _at_fresh(None, A.y_true.len)
    t, p, b, v = R_(A.y_true.fn(i)), R_(A.y_pred.fn(i)), R_(A.y_pred_benchmark.fn(i)), R_(At(r, i))
    den = If(t - b >= 0, zmax(t - b, EPS), zmin(t - b, -EPS))      # clamped away from 0 keeping its sign
    return And(Eq(Len(r), A.y_true.len), v * den == t - p)


contract(f"{FN}::_relative_error", "C06", cases=["-"], inputs=lambda B, case: _pair(B, ("y_pred_benchmark",)),
         ensures=[("error-relative-to-benchmark-error-pointwise", _re_post)])


def _ae_post(A, r):
    i = _at_fresh(None, A.y_true.len)
    t, p, v = R_(A.y_true.fn(i)), R_(A.y_pred.fn(i)), R_(At(r, i))
    e = t - p
    f = {"squared": e * e, "absolute": zabs(e)}
    return And(Eq(Len(r), A.y_true.len), v == If(e < R_(A.asymmetric_threshold), f[A.left_error_function], f[A.right_error_function]))


contract(f"{FN}::_asymmetric_error", "C06", cases=[f"{l}|{r}" for l in ("squared", "absolute") for r in ("squared", "absolute")],
         inputs=lambda B, case: dict(_pair(B), asymmetric_threshold=B.real("threshold"), left_error_function=case.split("|")[0],
                                     right_error_function=case.split("|")[1]),
         ensures=[("left-function-below-threshold-right-function-otherwise", _ae_post)])


# ----------------------------------------------------------------------------- laws (level 2, over the kernel contracts)

@lemma("C06/laws-of-percentage-and-relative-errors", "C06", uses=[f"{FN}::_percentage_error", f"{FN}::_relative_error"])
def _laws(B):
    t, p, c = B.real("t"), B.real("p"), B.real("c")
    s = B.real("s")        # symmetric percentage error of (t, p)      -- contract of _percentage_error
    s2 = B.real("s2")      # ... of (p, t)
    B.assume(s * zmax(zabs(t) + zabs(p), EPS) == 2 * zabs(t - p))
    B.assume(s2 * zmax(zabs(p) + zabs(t), EPS) == 2 * zabs(p - t))
    a = B.real("a")        # plain percentage error
    B.assume(a * zmax(zabs(t), EPS) == t - p)
    # scaled quantities: ratio of an error to a scale term, both multiplied by c > 0, no clamp active
    e, d = B.real("e"), B.real("d")
    q, q2 = B.real("q"), B.real("q2")
    B.assume(And(c > 0, d > EPS, c * d > EPS))
    B.assume(q * zmax(d, EPS) == e)
    B.assume(q2 * zmax(c * d, EPS) == c * e)
    return [("symmetric-percentage-error-in-[0,2]", And(s >= 0, s <= 2)),
            ("symmetric-percentage-error-invariant-under-swap", s == s2),
            ("absolute-percentage-error-nonnegative-and-zero-iff-perfect", And(zabs(a) >= 0, Implies(t == p, a == 0))),
            ("perfect-forecast-has-zero-symmetric-error", Implies(t == p, s == 0)),
            ("scaled-ratio-invariant-under-positive-rescaling-when-no-clamp-is-active", q == q2)]


# ----------------------------------------------------------------------------- classes forward to their function with their options
PUBLIC = ["MeanAbsoluteScaledError", "MedianAbsoluteScaledError", "MeanSquaredScaledError", "MedianSquaredScaledError", "MeanAbsoluteError",
          "MeanSquaredError", "MedianAbsoluteError", "MedianSquaredError", "MeanAbsolutePercentageError", "MedianAbsolutePercentageError",
          "MeanSquaredPercentageError", "MedianSquaredPercentageError", "MeanRelativeAbsoluteError", "MedianRelativeAbsoluteError",
          "GeometricMeanRelativeAbsoluteError", "GeometricMeanRelativeSquaredError", "MeanAsymmetricError", "RelativeLoss"]


def _cls_inputs(clsname):
    def inputs(B, case):
        I = B.I
        ok, cls = I.mod_global(I.src.module("sktime.performance_metrics.forecasting._classes"), clsname)
        c, init = I.class_lookup(cls, "__init__")
        kw = {}
        a = init.node.args
        for p in (a.posonlyargs + a.args)[1:]:
            kw[p.arg] = B.opaque(f"opt_{p.arg}")
        obj = I.instantiate(cls, [], kw)
        obj.ghost_opts = kw
        obj.ghost_func = obj.attrs.get("_func")
        from contracts.C10_update import recorder, RECV
        RECV[0] = obj
        obj.attrs["_func"] = recorder("_func", lambda I2, ev: Opaque("loss", prov=ev))
        return {"self": obj, "y_true": B.opaque("y_true"), "y_pred": B.opaque("y_pred")}
    return inputs


def _cls_post(A, r):
    s = A.self
    evs = [e for e in trace() if e.method == "_func"]
    if len(evs) != 1:
        return False
    e = evs[0]
    ok = e.arg(0) is A.y_true and e.arg(1) is A.y_pred and r is e.result and len(e.args) == 2
    # every option given to the constructor reaches the function under the function's keyword of the same name
    fn = s.ghost_func
    fparams = [p.arg for p in fn.node.args.args] if isinstance(fn, FuncVal) else []
    for name, val in s.ghost_opts.items():
        ok = ok and (name in fparams) and (e.kwargs.get(name) is val)
    return ok and all(k in fparams for k in e.kwargs)


for _c in PUBLIC:
    contract(f"{CL}::{_c}.__call__", "C06", cases=["-"], inputs=_cls_inputs(_c),
             ensures=[("calls-its-function-with-(y_true,y_pred)-and-its-own-options", _cls_post)],
             may_raise=[("AttributeError", lambda A: True)])


# ----------------------------------------------------------------------------- scaled errors: which data reaches which aggregate

def _plain_inputs(B, case):
    n = B.int("n", 1)
    return {"y_true": B.arr("y_true", n=n, dtype="real"), "y_pred": B.arr("y_pred", n=n, dtype="real"),
            "horizon_weight": None if case == "noweight" else B.arr("horizon_weight", n=n, dtype="real"),
            "multioutput": "uniform_average"}


def _fwd_post(skname, extra=None):
    def post(A, r):
        evs = [e for e in trace() if e.method == "sk:" + skname]
        if len(evs) != 1:
            return False
        e = evs[0]
        ok = And(equiv(e.arg(0), A.y_true), equiv(e.arg(1), A.y_pred),
                 (e.kwargs.get("sample_weight") is A.horizon_weight), e.kwargs.get("multioutput") == A.multioutput, r is e.result)
        return ok
    return post


contract(f"{FN}::mean_absolute_error", "C06", cases=["noweight", "weight"], inputs=_plain_inputs,
         ensures=[("is-sklearn-mae-of-(y_true,y_pred)-with-horizon-weights", _fwd_post("mean_absolute_error"), {"modular": False})],
         result=lambda I, A: I.ctx.fresh_real("mae"), record_call=True)
contract(f"{FN}::median_absolute_error", "C06", cases=["noweight"], inputs=_plain_inputs,
         ensures=[("is-sklearn-mdae-of-(y_true,y_pred)", lambda A, r: (lambda evs: len(evs) == 1 and equiv(evs[0].arg(0), A.y_true) is not False and
                                                                      equiv(evs[0].arg(1), A.y_pred) is not False and r is evs[0].result)(
             [e for e in trace() if e.method == "sk:median_absolute_error"]), {"modular": False})],
         result=lambda I, A: I.ctx.fresh_real("mdae"), record_call=True)


def _scaled_inputs(B, case):
    n = B.int("n", 1)
    m = B.int("n_train", 2)
    sp = B.int("sp", 1)
    B.assume(sp < m)
    return {"y_true": B.arr("y_true", n=n, dtype="real"), "y_pred": B.arr("y_pred", n=n, dtype="real"),
            "y_train": B.arr("y_train", n=m, dtype="real"), "sp": sp,
            "horizon_weight": None if "noweight" in case else B.arr("horizon_weight", n=n, dtype="real"), "multioutput": "uniform_average"}


def _scaled_post(inner):
    def post(A, r):
        """numerator: the aggregate of the forecast error; denominator: the SAME aggregate of the in-sample seasonal-naive
        error y_train[sp:] - y_train[:-sp], clamped by EPS"""
        evs = [e for e in trace() if e.method == "call:" + inner]
        if len(evs) != 2:
            return False
        naive, pred = evs
        m, sp = Z(A.y_train.len), Z(A.sp)
        late = SArr((ops.simp(m - sp), 1), lambda i, j: A.y_train.fn(ops.simp(Z(i) + sp)), "real", "ndarray")
        early = SArr((ops.simp(m - sp), 1), lambda i, j: A.y_train.fn(i), "real", "ndarray")
        col = lambda a: SArr((a.len, 1), lambda i, j: a.fn(i), "real", "ndarray")
        return And(equiv(naive.kwargs["y_true"], late), equiv(naive.kwargs["y_pred"], early), naive.kwargs.get("horizon_weight") is None,
                   equiv(pred.kwargs["y_true"], col(A.y_true)), equiv(pred.kwargs["y_pred"], col(A.y_pred)),
                   pred.kwargs.get("horizon_weight") is A.horizon_weight,
                   R_(r) * zmax(naive.result, EPS) == R_(pred.result))
    return post


contract(f"{FN}::mean_absolute_scaled_error", "C06", cases=["noweight", "weight"], inputs=_scaled_inputs,
         ensures=[("forecast-error-over-in-sample-seasonal-naive-error", _scaled_post("mean_absolute_error"))])
contract(f"{FN}::median_absolute_scaled_error", "C06", cases=["noweight"], inputs=_scaled_inputs,
         ensures=[("forecast-error-over-in-sample-seasonal-naive-error", _scaled_post("median_absolute_error"))])


# ----------------------------------------------------------------------------- public metric functions: which cells reach which aggregate
def _pf_inputs(extra=(), flags=()):
    def inputs(B, case):
        parts = case.split("|")
        n = B.int("n", 1)
        d = {"y_true": B.arr("y_true", n=n, dtype="real"), "y_pred": B.arr("y_pred", n=n, dtype="real"),
             "horizon_weight": B.arr("horizon_weight", n=n, dtype="real") if "weight" in parts else None,
             "multioutput": "uniform_average"}
        for e in extra:
            d[e] = B.arr(e, n=n, dtype="real")
        if "symmetric" in flags:
            d["symmetric"] = "sym" in parts
        if "square_root" in flags:
            d["square_root"] = "root" in parts
        return d
    return inputs


def _pe_val(A, i):
    t, p = R_(A.y_true.fn(i)), R_(A.y_pred.fn(i))
    if A.symmetric:
        return 2 * zabs(t - p) / zmax(zabs(t) + zabs(p), EPS)
    return (t - p) / zmax(zabs(t), EPS)


def _re_val(A, i):
    t, p, b = R_(A.y_true.fn(i)), R_(A.y_pred.fn(i)), R_(A.y_pred_benchmark.fn(i))
    den = If(t - b >= 0, zmax(t - b, EPS), zmin(t - b, -EPS))
    return (t - p) / den


def _err_val(A, i):
    return R_(A.y_pred.fn(i)) - R_(A.y_true.fn(i))


def _agg_post(cell, unweighted, weighted, wkey):
    """ONE column aggregate over exactly the cells cell(i) (weights = horizon_weight when given), optional square root of it,
    then the uniform average over the (single) output column"""
    def post(A, r):
        evs = [e for e in trace() if e.method.startswith("agg:") or e.method in ("mean", "median", "nanmean", "nanmedian")]
        if len(evs) != 2:
            return False
        col, fin = evs
        a = col.arg(0)
        want = weighted if A.horizon_weight is not None else unweighted
        name = col.method.split(":")[-1]
        if name != want or not isinstance(a, SArr) or a.ndim != 2:
            return False
        i = _at_fresh(None, A.y_true.len)
        conds = [Eq(a.shape[0], A.y_true.len), Eq(a.shape[1], 1), R_(a.fn(i, 0)) == cell(A, i)]
        if A.horizon_weight is not None:
            conds.append(col.kwargs.get(wkey) is A.horizon_weight)
        elif wkey in col.kwargs:
            conds.append(col.kwargs.get(wkey) is None)
        out = col.result
        fa = fin.arg(0)
        if fin.method != "agg:average" or fin.kwargs.get("weights") is not None or not isinstance(fa, SArr) or fa.ndim != 1:
            return False
        from pyvc.libnp import _sqrt_fun
        from pyvc import spec as _S
        o0 = R_(out.fn(0))
        if getattr(A, "square_root", False):
            o0 = _sqrt_fun(_S.CUR.ctx)(o0)
        conds += [Eq(fa.len, 1), R_(fa.fn(0)) == o0, r is fin.result]
        return And(*conds)
    return post


_SYM = ["sym", "plain"]
_W = ["noweight", "weight"]
_cases = lambda *dims: ["|".join(c) for c in __import__("itertools").product(*dims)]

contract(f"{FN}::mean_absolute_percentage_error", "C06", cases=_cases(_SYM, _W), inputs=_pf_inputs(flags=("symmetric",)),
         ensures=[("weighted-mean-of-absolute-percentage-errors", _agg_post(lambda A, i: zabs(_pe_val(A, i)), "average", "average", "weights"), {"modular": False})])
contract(f"{FN}::median_absolute_percentage_error", "C06", cases=_cases(_SYM, _W), inputs=_pf_inputs(flags=("symmetric",)),
         ensures=[("(weighted)-median-of-absolute-percentage-errors", _agg_post(lambda A, i: zabs(_pe_val(A, i)), "median", "_weighted_percentile", "sample_weight"), {"modular": False})])
contract(f"{FN}::mean_squared_percentage_error", "C06", cases=_cases(_SYM, _W, ["root", "noroot"]), inputs=_pf_inputs(flags=("symmetric", "square_root")),
         ensures=[("weighted-mean-of-squared-percentage-errors-(root)", _agg_post(lambda A, i: _pe_val(A, i) * _pe_val(A, i), "average", "average", "weights"), {"modular": False})])
contract(f"{FN}::median_squared_percentage_error", "C06", cases=_cases(_SYM, _W, ["root", "noroot"]), inputs=_pf_inputs(flags=("symmetric", "square_root")),
         ensures=[("(weighted)-median-of-squared-percentage-errors-(root)", _agg_post(lambda A, i: _pe_val(A, i) * _pe_val(A, i), "median", "_weighted_percentile", "sample_weight"), {"modular": False})])
contract(f"{FN}::median_squared_error", "C06", cases=_cases(_W, ["root", "noroot"]), inputs=_pf_inputs(flags=("square_root",)),
         ensures=[("(weighted)-median-of-squared-errors-(root)", _agg_post(lambda A, i: _err_val(A, i) * _err_val(A, i), "median", "_weighted_percentile", "sample_weight"), {"modular": False})])
contract(f"{FN}::mean_relative_absolute_error", "C06", cases=_cases(_W), inputs=_pf_inputs(extra=("y_pred_benchmark",)),
         ensures=[("weighted-mean-of-absolute-relative-errors", _agg_post(lambda A, i: zabs(_re_val(A, i)), "mean", "average", "weights"), {"modular": False})])
contract(f"{FN}::median_relative_absolute_error", "C06", cases=_cases(_W), inputs=_pf_inputs(extra=("y_pred_benchmark",)),
         ensures=[("(weighted)-median-of-absolute-relative-errors", _agg_post(lambda A, i: zabs(_re_val(A, i)), "median", "_weighted_percentile", "sample_weight"), {"modular": False})])


def _wgm_returns(A):
    from pyvc.libnp import _record_agg, to_arr
    from pyvc import spec as _S
    return _record_agg(_S.CUR, "sktime._weighted_geometric_mean", to_arr(_S.CUR, A.x), {"sample_weight": A.sample_weight, "axis": A.axis})


contract(f"{FN}::_weighted_geometric_mean", "C06", cases=["-"], assumed=True, inputs=lambda B, case: {}, returns=_wgm_returns,
         notes=["ABSTRACTION at call sites: _weighted_geometric_mean is recorded as an uninterpreted function of its arguments (nothing about "
                "its value is assumed); its formula exp(sum(w * log x) / sum(w)) per column is verified separately under the tagged "
                "contract `#formula`; numbers are compared with scipy by the bounded tier"])


def _wgm_inputs(B, case):
    n, c = B.int("n", 1), B.int("c", 1)
    x = B.arr("x", shape=(n, c), dtype="real", kind="ndarray")
    w = B.arr("w", n=n, dtype="real", kind="ndarray")
    return {"x": x, "sample_weight": w, "axis": 0}


def _wgm_post(A, r):
    """column j of the result is exp(S1[j] / S2[0]) where S1 = sum over rows of w[i] * log(x[i, j]) and S2 = sum of the weights
    (both sums are the recorded numpy aggregates: their ARGUMENTS are pinned down cell by cell)"""
    from pyvc.libnp import _real_fun
    from pyvc import spec as _S
    from pyvc.values import SArr as _SArr
    ctx = _S.CUR.ctx
    sums = [e for e in ctx.trace if e.method == "agg:sum"]
    if len(sums) != 2 or not isinstance(r, _SArr) or r.ndim != 1:
        return False
    s1, s2 = sums
    a1, a2 = s1.args[0], s2.args[0]
    if not (isinstance(a1, _SArr) and a1.ndim == 2 and isinstance(a2, _SArr) and a2.ndim == 2):
        return False
    if s1.kwargs.get("axis") != 0 or s2.kwargs.get("axis") != 0:
        return False
    log, exp = _real_fun(ctx, "log", 1), _real_fun(ctx, "exp", 1)
    i, j = ctx.fresh_int("row"), ctx.fresh_int("col")
    ctx.assume(And(i >= 0, i < Z(A.x.shape[0]), j >= 0, j < Z(A.x.shape[1])))
    w_i = ops.as_real(A.sample_weight.fn(i))
    return And(Eq(a1.shape[0], A.x.shape[0]), Eq(a1.shape[1], A.x.shape[1]), Eq(a2.shape[0], A.x.shape[0]), Eq(a2.shape[1], 1),
               Eq(a1.fn(i, j), w_i * log(ops.as_real(A.x.fn(i, j)))), Eq(a2.fn(i, 0), w_i),
               Eq(r.len, A.x.shape[1]),
               Eq(r.fn(j), exp(ops.as_real(s1.result.fn(j)) / ops.as_real(s2.result.fn(0)))))


contract(f"{FN}::_weighted_geometric_mean#formula", "C06", cases=["-"], inputs=_wgm_inputs,
         ensures=[("exp-of-weighted-sum-of-logs-over-sum-of-weights-per-column", _wgm_post)],
         zero_divisor_outside="weights whose sum is zero (no weighted mean exists; numpy returns inf / nan)",
         notes=["log / exp are uninterpreted real functions, the two np.sum calls are recorded aggregates whose arguments are pinned "
                "down cell by cell; a zero sum of weights is outside the clause (numpy returns inf/nan there)"])


def _floor_eps(v):
    return If(v == 0, R_(EPS), v)


contract(f"{FN}::geometric_mean_relative_absolute_error", "C06", cases=_cases(_W), inputs=_pf_inputs(extra=("y_pred_benchmark",)),
         ensures=[("(weighted)-geometric-mean-of-absolute-relative-errors-zeros-replaced-by-EPS",
                   _agg_post(lambda A, i: _floor_eps(zabs(_re_val(A, i))), "gmean", "_weighted_geometric_mean", "sample_weight"), {"modular": False})])
contract(f"{FN}::geometric_mean_relative_squared_error", "C06", cases=_cases(_W, ["root", "noroot"]),
         inputs=_pf_inputs(extra=("y_pred_benchmark",), flags=("square_root",)),
         ensures=[("(weighted)-geometric-mean-of-squared-relative-errors-zeros-replaced-by-EPS-(root)",
                   _agg_post(lambda A, i: _floor_eps(_re_val(A, i) * _re_val(A, i)), "gmean", "_weighted_geometric_mean", "sample_weight"), {"modular": False})])
