"""C05: reduction of forecasting to regression (sktime/forecasting/compose/_reduce.py)."""
from pyvc.spec import *   # noqa
from pyvc.values import SArr, SList, SObj, Opaque, SSeries, SFrame, is_intlike
from pyvc import ops
import z3
from contracts.C02_fh import sym_fh, vals, mk_fh, FH
from contracts.C01_split import sym_series, sym_frame, fh_last

RD = "sktime/forecasting/compose/_reduce.py"
RDMOD = "sktime.forecasting.compose._reduce"
Z = ops.to_z3


def zcat(A):
    """z = [y | X]: (n, 1 + ncols) array of the target followed by the exogenous columns"""
    y, X = A.y, A.X
    n = y.index.len
    if X is None:
        return SArr((n, 1), lambda r, c: y.values.fn(r), "real", "ndarray")
    nc = X.values.shape[1]
    return SArr((n, ops.simp(1 + Z(nc))), lambda r, c: If(Eq(c, 0), y.values.fn(r), X.values.fn(r, ops.simp(Z(c) - 1))), "real", "ndarray")


def swt_spec(A):
    """(yt, Xt): row r is the window z[r .. r+w-1]; target i is the observation fh_i steps after the window end"""
    z = zcat(A)
    n, nv = z.shape
    w = A.window_length
    fhv = vals(A.fh)
    E = ops.simp(Z(w) + fh_last(A.fh) - 1)
    rows = ops.simp(Z(n) - E)
    yt = SArr((rows, fhv.len), lambda r, i: z.fn(ops.simp(Z(r) + Z(w) + Z(fhv.fn(i)) - 1), 0), "real", "ndarray")
    if A.scitype == "tabular-regressor":
        Xt = SArr((rows, ops.simp(Z(nv) * Z(w))), lambda r, q: z.fn(ops.simp(Z(r) + Z(q) % Z(w)), ops.simp(Z(q) / Z(w))), "real", "ndarray")
    else:
        Xt = SArr((rows, nv, w), lambda r, c, j: z.fn(ops.simp(Z(r) + Z(j)), c), "real", "ndarray")
    return Tup(yt, Xt)


def _swt_inputs(B, case):
    wx, sci = case.split("|")
    y = sym_series(B)
    return {"y": y, "window_length": B.int("w"), "fh": sym_fh(B, "fh", nonempty=True, oos=True),
            "X": sym_frame(B, y) if wx == "X" else None,
            "scitype": "tabular-regressor" if sci == "tabular" else "time-series-regressor"}


def _swt_inv(S):
    """after k iterations the first k lag planes of Zt hold z shifted by (E - k')"""
    Zt = S.Zt
    n, nv, E = Z(S.n_timepoints), Z(S.n_variables), Z(S.effective_window_length)
    z = S.z
    return And(Eq(Zt.shape[0], ops.simp(n + E)), Eq(Zt.shape[1], nv), Eq(Zt.shape[2], ops.simp(E + 1)),
               ForAll(lambda kk: ForAll(lambda r: ForAll(lambda c: Implies(And(Z(r) >= E - Z(kk), Z(r) < n + E - Z(kk)),
                                                                         Eq(Zt.fn(r, c, kk), z.fn(ops.simp(Z(r) - E + Z(kk)), c))),
                                                          0, nv, "c"), 0, ops.simp(n + E), "r"), 0, S.k, "kk"))


contract(f"{RD}::_sliding_window_transform", "C05", cases=["noX|tabular", "noX|panel", "X|tabular", "X|panel"],
         inputs=_swt_inputs, pre=lambda A: A.window_length >= 1,
         raises=[("ValueError", lambda A: A.window_length + fh_last(A.fh) - 1 >= Z(A.y.index.len))],
         returns=swt_spec, invariants={0: _swt_inv},
         notes=["reshape to the tabular layout is column-then-lag: column c*w + j holds lag j of variable c"])


@lemma("C05/rows-never-contain-their-target", "C05", uses=[f"{RD}::_sliding_window_transform"])
def _no_future(B):
    """from the transform contract: all full windows, each once; the newest feature of row r is strictly older
    than every target of row r"""
    n = B.int("n", 1)
    w = B.int("w", 1)
    fh = sym_fh(B, "fh", nonempty=True, oos=True)
    fhv = vals(fh)
    E = w + fh_last(fh) - 1
    B.assume(E < n)
    rows = n - E
    r = B.int("r", 0)
    B.assume(r < rows)
    i = B.int("i", 0)
    B.assume(i < Z(fhv.len))
    j = B.int("j", 0)
    B.assume(j < w)
    feat_t = r + j                       # time position of feature (r, ., j)          (contract: Xt[r,c,j] = z[r+j,c])
    targ_t = r + w + Z(fhv.fn(i)) - 1    # time position of target  (r, i)             (contract: yt[r,i] = z[r+w+fh_i-1,0])
    return [("feature-older-than-target", feat_t < targ_t),
            ("target-exactly-h-steps-after-window-end", targ_t - (r + w - 1) == Z(fhv.fn(i))),
            ("window-is-w-consecutive-observations", And(feat_t >= r, feat_t <= r + w - 1)),
            ("target-inside-series", And(targ_t >= 0, targ_t < n)),
            ("all-full-windows-used", rows == n - (w + fh_last(fh) - 1)),
            ("last-row-uses-last-observation", (rows - 1) + w + fh_last(fh) - 1 == n - 1)]


# ----------------------------------------------------------------------------- reducers: fit / predict protocol
# The wrapped regressor is an ABSTRACT object: every call on it is recorded in the ghost trace; predict returns the
# uninterpreted value ret_predict(k) for the k-th call of the enclosing loop ("all deterministic wrapped regressors").

from pyvc.values import AbstractObj
from pyvc.libmodels import ghost_fun, Event


def trace():
    from pyvc import spec as _S
    return [e for e in _S.CUR.ctx.trace if isinstance(e, Event)]


def R_predict():
    from pyvc import spec as _S
    return ghost_fun(_S.CUR, "predict", z3.RealSort())


def regressor(B, multi=False):
    est = B.abstract("regressor", isa=("RegressorMixin", "BaseEstimator"))

    def pred(I, obj, ev):
        k = ev.loop_k if ev.loop_k is not None else getattr(obj, "call_no", 0)
        if multi:
            f = ghost_fun(I, "predict_multi", z3.RealSort())
            m = multi
            return SArr((1, m), lambda r, c: f(Z(c)), "real", "ndarray")
        # sklearn regressors return an array of shape (1,): numpy <1.20 stores it into y_pred[i] as its only element
        v = ghost_fun(I, "predict", z3.RealSort())(Z(k))
        return v
    est.results = {"predict": pred}
    return est


def no_nan(arr):
    from pyvc.libnp import isnan_pred
    from pyvc import spec as _S
    if arr.ndim == 1:
        return ForAll(lambda i: Not(isnan_pred(_S.CUR, arr.fn(i))), 0, arr.len)
    return ForAll(lambda i: ForAll(lambda j: Not(isnan_pred(_S.CUR, arr.fn(i, j))), 0, arr.shape[1], "j"), 0, arr.shape[0])


def sym_reducer(B, clsname, wx, fh_len=None, fitted_attrs=True, multi=False, free_cutoff=False):
    I = B.I
    mod = I.src.module(RDMOD)
    ok, cls = I.mod_global(mod, clsname)
    w = B.int("w", 1)
    est = regressor(B, multi=multi)
    obj = I.instantiate(cls, [est], {"window_length": w})
    y = sym_series(B)
    X = sym_frame(B, y) if wx == "X" else None
    n, l0 = y.index.len, y.index.closed[0]
    B.assume(no_nan(y.values))
    if X is not None:
        B.assume(no_nan(X.values))
    if fh_len is None:
        fh = sym_fh(B, "fh", nonempty=True, oos=True)
    else:
        # concrete number of steps, symbolic (possibly gapped) step values
        steps = [B.int(f"fh{i}", 1) for i in range(fh_len)]
        for a, b in zip(steps, steps[1:]):
            B.assume(a < b)
        arr = ops.arr_from_items(steps, kind="Int64Index", dtype="int")
        fh = I.instantiate(I.mod_global(I.src.module("sktime.forecasting.base._fh"), "ForecastingHorizon")[1], [arr, True], {})
    cutoff = ops.simp(Z(l0) + Z(n) - 1)
    if free_cutoff:
        # states reachable after update / update_predict: the cutoff may lie BEFORE the end of the remembered series
        cutoff = B.int("cutoff")
        B.assume(And(cutoff >= Z(l0) + Z(w) - 1, cutoff <= Z(l0) + Z(n) - 1))
    obj.attrs.update({"_y": y, "_X": X, "_cutoff": cutoff, "_fh": fh, "window_length_": w, "step_length_": 1})
    return obj, y, X, fh, est, w


def ev_is(ev, obj, method):
    return isinstance(ev, Event) and ev.obj is obj and ev.method == method


def clones_of(est):
    return [e.result for e in trace() if e.method == "clone" and e.obj is est]


def fit_events():
    return [e for e in trace() if e.method == "fit"]


# ---- recursive ---------------------------------------------------------------------------

def _rec_fit_inputs(B, case):
    wx, sci = case.split("|")
    obj, y, X, fh, est, w = sym_reducer(B, "RecursiveTabularRegressionForecaster" if sci == "tabular" else "RecursiveTimeSeriesRegressionForecaster", wx)
    return {"self": obj, "y": y, "X": X}


def _rec_fit_post(A, r):
    """exactly one fresh clone is fitted, on the one-step-ahead windows of the whole series"""
    s = A.self
    fe = fit_events()
    cl = clones_of(s.attrs["estimator"])
    if len(fe) != 1 or len(cl) != 1:
        return False
    one = mk_fh(CURI(), ops.arr_from_items([1], kind="Int64Index"), True)
    spec_ = swt_spec(NS(y=A.y, X=A.X, window_length=s.attrs["window_length_"], fh=one, scitype=sci_of(s)))
    yt, Xt = spec_.items
    yt1 = SArr((yt.shape[0],), lambda r_: yt.fn(r_, 0), "real", "ndarray")
    return And(fe[0].obj is cl[0], s.attrs.get("estimator_") is cl[0], r is s,
               equiv(fe[0].arg(0), Xt), equiv(fe[0].arg(1), yt1))


def CURI():
    from pyvc import spec as _S
    return _S.CUR


def sci_of(s):
    return CURI().getattr(s, "_estimator_scitype")


REC_CASES = ["noX|tabular", "X|tabular", "noX|panel", "X|panel"]
contract(f"{RD}::_RecursiveReducer._fit", "C05", cases=REC_CASES, inputs=_rec_fit_inputs,
         raises=[("ValueError", lambda A: A.self.attrs["window_length_"] >= Z(A.y.index.len))],
         ensures=[("one-clone-fitted-on-one-step-windows", _rec_fit_post)],
         notes=["sklearn.base.clone on the wrapped regressor is modelled as: fresh unfitted abstract object (recorded)"])


def _rec_pred_inputs(B, case):
    wx, sci = case.split("|")
    obj, y, X, fh, est, w = sym_reducer(B, "RecursiveTabularRegressionForecaster" if sci == "tabular" else "RecursiveTimeSeriesRegressionForecaster", wx, free_cutoff=True)
    obj.attrs["estimator_"] = est            # the fitted clone (abstract)
    obj.attrs["_is_fitted"] = True
    Xf = None
    if wx == "X":
        # future exogenous rows passed to predict: one row per step up to the furthest one
        from pyvc.values import SFrame
        nrow = fh_last(fh)
        v = B.arr("Xfut.values", shape=(nrow, X.values.shape[1]), dtype="real", kind="ndarray")
        B.assume(no_nan(v))
        Xf = SFrame(Range(ops.simp(Z(obj.attrs["_cutoff"]) + 1), nrow, kind="Int64Index"), v)
    return {"self": obj, "fh": fh, "X": Xf}


def _rec_window_value(A, c, t):
    """value at lag position t (0-based from the window start) of variable c in the growing array `last`"""
    s = A.self
    y, X = s.attrs["_y"], s.attrs["_X"]
    w = Z(s.attrs["window_length_"])
    n = ops.simp(Z(s.attrs["_cutoff"]) - Z(y.index.closed[0]) + 1)     # observations up to and including the cutoff
    R = R_predict()
    obs_pos = ops.simp(n - w + Z(t))        # position in the remembered series of window element t (< w)
    if X is None:
        return If(Z(t) < w, y.values.fn(obs_pos), R(ops.simp(Z(t) - w)))
    tgt = If(Z(t) < w, y.values.fn(obs_pos), R(ops.simp(Z(t) - w)))
    exo = If(Z(t) < w, X.values.fn(obs_pos, ops.simp(Z(c) - 1)), A.X.values.fn(ops.simp(Z(t) - w), ops.simp(Z(c) - 1)))
    return If(Eq(c, 0), tgt, exo)


def _rec_pred_inv(S):
    A = S.A
    s = A.self
    w = Z(s.attrs["window_length_"])
    fmax = Z(S.fh_max)
    last, y_pred = S.last, S.y_pred
    R = R_predict()
    ncol = Z(S.n_columns)
    return And(Eq(last.shape[0], 1), Eq(last.shape[1], ncol), Eq(last.shape[2], ops.simp(w + fmax)), Eq(y_pred.len, fmax),
               ForAll(lambda i: Eq(y_pred.fn(i), R(Z(i))), 0, S.k),
               ForAll(lambda c: ForAll(lambda t: Implies(Or(Z(t) < w + Z(S.k), Z(c) >= 1), Eq(last.fn(0, c, t), _rec_window_value(A, c, t))),
                                       0, ops.simp(w + fmax), "t"), 0, ncol, "c"))


def _rec_pred_events(S, evs):
    """iteration i calls predict exactly once, on the window of the w newest values: observed ones and, from
    position w on, the earlier predictions ret_predict(0..i-1)"""
    A = S.A
    s = A.self
    if len(evs) != 1 or not ev_is(evs[0], s.attrs["estimator_"], "predict"):
        return False
    Xp = evs[0].arg(0)
    w = s.attrs["window_length_"]
    ncol = S.n_columns
    i = S.k
    if sci_of(s) == "tabular-regressor":
        want = SArr((1, ops.simp(Z(ncol) * Z(w))), lambda r, q: _rec_window_value(A, ops.simp(Z(q) / Z(w)), ops.simp(Z(i) + Z(q) % Z(w))), "real", "ndarray")
    else:
        want = SArr((1, ncol, w), lambda r, c, j: _rec_window_value(A, c, ops.simp(Z(i) + Z(j))), "real", "ndarray")
    return equiv(Xp, want)


def _rec_pred_returns(A):
    fhv = vals(A.fh)
    R = R_predict()
    return Seq(fhv.len, lambda q: R(ops.simp(Z(fhv.fn(q)) - 1)), dtype="real", kind="ndarray")


contract(f"{RD}::_RecursiveReducer._predict_last_window", "C05", cases=REC_CASES, inputs=_rec_pred_inputs,
         pre=lambda A: A.self.attrs["window_length_"] <= Z(A.self.attrs["_y"].index.len),
         returns=_rec_pred_returns, invariants={0: _rec_pred_inv}, events={0: _rec_pred_events},
         frame=lambda A: [A.self, A.self.attrs["_y"]],
         notes=["the regressor's predict is abstract: the i-th call returns ret_predict(i); numpy<1.20 semantics for "
                "y_pred[i] = <array of shape (1,)> (stores the single element)"])


# ---- direct / multioutput / dirrec -----------------------------------------------------------
# Loops over the steps of the horizon create one estimator per step: verified for horizons of 1, 2 and 3 steps with
# SYMBOLIC (possibly gapped) step values, series length, window length and number of exogenous columns -- the bound
# is on the number of steps only and is stated in the evidence.

def last_window_layout(s, tabular, ncol):
    """X_pred fed at prediction time: lag j of variable c is the observation at position n-w+j"""
    y, X = s.attrs["_y"], s.attrs["_X"]
    w = Z(s.attrs["window_length_"])
    n = ops.simp(Z(s.attrs["_cutoff"]) - Z(y.index.closed[0]) + 1)     # observations up to and including the cutoff

    def val(c, j):
        pos = ops.simp(n - w + Z(j))
        if X is None:
            return y.values.fn(pos)
        return If(Eq(c, 0), y.values.fn(pos), X.values.fn(pos, ops.simp(Z(c) - 1)))
    if tabular:
        return SArr((1, ops.simp(Z(ncol) * w)), lambda r, q: val(ops.simp(Z(q) / w), ops.simp(Z(q) % w)), "real", "ndarray")
    return SArr((1, ncol, s.attrs["window_length_"]), lambda r, c, j: val(c, j), "real", "ndarray")


def _dir_cases():
    return [f"{wx}|{sci}|m{m}" for wx in ("noX", "X") for sci in ("tabular", "panel") for m in (1, 2, 3)]


def _dir_inputs(kind, free_cutoff=False):
    def inputs(B, case):
        wx, sci, m = case.split("|")
        cls = {"direct": "Direct", "multioutput": "Multioutput", "dirrec": "DirRec"}[kind] + ("TabularRegressionForecaster" if sci == "tabular" else "TimeSeriesRegressionForecaster")
        obj, y, X, fh, est, w = sym_reducer(B, cls, wx, fh_len=int(m[1:]), multi=(int(m[1:]) if kind == "multioutput" else False),
                                            free_cutoff=free_cutoff)
        return {"self": obj, "y": y, "X": X}
    return inputs


def _dir_fit_post(A, r):
    s = A.self
    fh = s.attrs["_fh"]
    m = len(vals(fh).items) if hasattr(vals(fh), "items") else None
    fe = fit_events()
    cl = clones_of(s.attrs["estimator"])
    if m is None or len(fe) != m or len(cl) != m:
        return False
    yt, Xt = swt_spec(NS(y=A.y, X=A.X, window_length=s.attrs["window_length"], fh=fh, scitype=sci_of(s))).items
    est_list = s.attrs.get("estimators_")
    conds = [isinstance(est_list, SList) and len(est_list.items) == m]
    for i in range(m):
        col = SArr((yt.shape[0],), (lambda i_: lambda r_: yt.fn(r_, i_))(i), "real", "ndarray")
        conds += [fe[i].obj is cl[i], est_list.items[i] is cl[i] if isinstance(est_list, SList) and len(est_list.items) == m else False,
                  equiv(fe[i].arg(0), Xt), equiv(fe[i].arg(1), col)]
    return And(*conds)


def _swt_rejects(A):
    s = A.self
    return s.attrs["window_length"] + fh_last(s.attrs["_fh"]) - 1 >= Z(A.y.index.len)


contract(f"{RD}::_DirectReducer._fit", "C05", cases=_dir_cases(), inputs=_dir_inputs("direct"),
         raises=[("ValueError", _swt_rejects)],
         ensures=[("one-clone-per-step-fitted-on-its-own-target-column", _dir_fit_post)])


def _multi_fit_post(A, r):
    s = A.self
    fe = fit_events()
    cl = clones_of(s.attrs["estimator"])
    if len(fe) != 1 or len(cl) != 1:
        return False
    yt, Xt = swt_spec(NS(y=A.y, X=A.X, window_length=s.attrs["window_length"], fh=s.attrs["_fh"], scitype=sci_of(s))).items
    return And(fe[0].obj is cl[0], s.attrs.get("estimator_") is cl[0], equiv(fe[0].arg(0), Xt), equiv(fe[0].arg(1), yt))


contract(f"{RD}::_MultioutputReducer._fit", "C05", cases=_dir_cases(), inputs=_dir_inputs("multioutput"),
         raises=[("ValueError", _swt_rejects)],
         ensures=[("one-clone-fitted-on-all-target-columns", _multi_fit_post)])


def _dir_pred_inputs(kind):
    def inputs(B, case):
        d = _dir_inputs(kind, free_cutoff=True)(B, case)
        s = d["self"]
        m = int(case.split("|")[2][1:])
        if kind == "multioutput":
            s.attrs["estimator_"] = s.attrs["estimator"]
        else:
            ests = []
            for i in range(m):
                e = regressor(B)
                e.tag = f"fitted_regressor[{i}]"
                e.call_no = i
                ests.append(e)
            s.attrs["estimators_"] = SList(ests, "list")
        s.attrs["_is_fitted"] = True
        return {"self": s, "fh": s.attrs["_fh"], "X": None}
    return inputs


def _dir_pred_post(A, r):
    """estimator i is called once, on the last window (same layout as in fit); its output is forecast i"""
    s = A.self
    m = len(vals(A.fh).items)
    pe = [e for e in trace() if e.method == "predict"]
    if len(pe) != m:
        return False
    ncol = 1 if s.attrs["_X"] is None else ops.simp(Z(s.attrs["_X"].values.shape[1]) + 1)
    want = last_window_layout(s, sci_of(s) == "tabular-regressor", ncol)
    R = R_predict()
    conds = [Eq(Len(r), m)]
    for i in range(m):
        conds += [pe[i].obj is s.attrs["estimators_"].items[i], equiv(pe[i].arg(0), want), Eq(At(r, i), R(i))]
    return And(*conds)


contract(f"{RD}::_DirectReducer._predict_last_window", "C05", cases=_dir_cases(), inputs=_dir_pred_inputs("direct"),
         pre=lambda A: A.self.attrs["window_length_"] <= Z(A.self.attrs["_y"].index.len),
         ensures=[("each-step-from-its-own-estimator-on-the-last-window", _dir_pred_post)],
         frame=lambda A: [A.self, A.self.attrs["_y"]])


def _multi_pred_post(A, r):
    s = A.self
    m = len(vals(A.fh).items)
    pe = [e for e in trace() if e.method == "predict"]
    if len(pe) != 1:
        return False
    ncol = 1 if s.attrs["_X"] is None else ops.simp(Z(s.attrs["_X"].values.shape[1]) + 1)
    want = last_window_layout(s, sci_of(s) == "tabular-regressor", ncol)
    f = ghost_fun(CURI(), "predict_multi", z3.RealSort())
    return And(pe[0].obj is s.attrs["estimator_"], equiv(pe[0].arg(0), want), Eq(Len(r), m),
               *[Eq(At(r, i), f(i)) for i in range(m)])


contract(f"{RD}::_MultioutputReducer._predict_last_window", "C05", cases=_dir_cases(), inputs=_dir_pred_inputs("multioutput"),
         pre=lambda A: A.self.attrs["window_length_"] <= Z(A.self.attrs["_y"].index.len),
         ensures=[("one-call-on-the-last-window-output-i-is-forecast-i", _multi_pred_post)],
         frame=lambda A: [A.self, A.self.attrs["_y"]])


# ---- dirrec ------------------------------------------------------------------------------------

def _dirrec_cases():
    return [f"noX|{sci}|m{m}" for sci in ("tabular", "panel") for m in (1, 2, 3)]


def _dirrec_fit_post(A, r):
    """estimator i is a fresh clone fitted on the window PLUS the targets of the i earlier steps, target column i"""
    s = A.self
    fh = s.attrs["_fh"]
    m = len(vals(fh).items)
    fe = fit_events()
    cl = clones_of(s.attrs["estimator"])
    if len(fe) != m or len(cl) != m:
        return False
    tab = sci_of(s) == "tabular-regressor"
    yt, Xt3 = swt_spec(NS(y=A.y, X=None, window_length=s.attrs["window_length"], fh=fh, scitype="time-series-regressor")).items
    w = s.attrs["window_length"]
    rows = yt.shape[0]
    conds = []
    for i in range(m):
        def feat(r_, c, j, i=i):
            return If(Z(j) < Z(w), Xt3.fn(r_, 0, j), yt.fn(r_, ops.simp(Z(j) - Z(w))))
        if tab:
            want = SArr((rows, ops.simp(Z(w) + i)), (lambda f: lambda r_, q: f(r_, 0, q))(feat), "real", "ndarray")
        else:
            want = SArr((rows, 1, ops.simp(Z(w) + i)), feat, "real", "ndarray")
        col = SArr((rows,), (lambda i_: lambda r_: yt.fn(r_, i_))(i), "real", "ndarray")
        conds += [fe[i].obj is cl[i], equiv(fe[i].arg(0), want), equiv(fe[i].arg(1), col)]
    return And(*conds)


contract(f"{RD}::_DirRecReducer._fit", "C05", cases=_dirrec_cases(), inputs=_dir_inputs("dirrec"),
         raises=[("ValueError", _swt_rejects)],
         ensures=[("estimator-i-sees-window-plus-earlier-targets", _dirrec_fit_post)])


def _dirrec_pred_post(A, r):
    s = A.self
    m = len(vals(A.fh).items)
    pe = [e for e in trace() if e.method == "predict"]
    if len(pe) != m:
        return False
    y = s.attrs["_y"]
    w = Z(s.attrs["window_length_"])
    n = ops.simp(Z(s.attrs["_cutoff"]) - Z(y.index.closed[0]) + 1)
    R = R_predict()
    tab = sci_of(s) == "tabular-regressor"
    conds = [Eq(Len(r), m)]
    for i in range(m):
        def feat(j, i=i):
            return If(Z(j) < w, y.values.fn(ops.simp(n - w + Z(j))), R(ops.simp(Z(j) - w)))
        if tab:
            want = SArr((1, ops.simp(w + i)), lambda r_, q: feat(q), "real", "ndarray")
        else:
            want = SArr((1, 1, ops.simp(w + i)), lambda r_, c, j: feat(j), "real", "ndarray")
        conds += [pe[i].obj is s.attrs["estimators_"].items[i], equiv(pe[i].arg(0), want), Eq(At(r, i), R(i))]
    return And(*conds)


contract(f"{RD}::_DirRecReducer._predict_last_window", "C05", cases=_dirrec_cases(), inputs=_dir_pred_inputs("dirrec"),
         pre=lambda A: A.self.attrs["window_length_"] <= Z(A.self.attrs["_y"].index.len),
         ensures=[("earlier-predictions-fed-back-as-newest-lags", _dirrec_pred_post)],
         frame=lambda A: [A.self, A.self.attrs["_y"]])
