"""C07: evaluate() (sktime/forecasting/model_evaluation/_functions.py).

The forecaster and the metric are ABSTRACT objects; the splitter is a real SlidingWindow/Expanding/SingleWindow
splitter with symbolic parameters whose split() enters through its C01 contract.  The fold loop is cut by an
invariant; the per-iteration ghost events are checked against the honest protocol."""
from pyvc.spec import *   # noqa
from pyvc.values import SArr, SList, SObj, Opaque, SSeries, SFrame, AbstractObj, SDict
from pyvc.libmodels import Event, default_abstract_call
from pyvc import ops
import z3
from contracts.C02_fh import sym_fh, vals, mk_fh
from contracts.C01_split import (sym_splitter, sym_single, sym_series, sym_frame, split_item, ws_count, ws_rejects, valid_params,
                                 sw_item, sw_rejects, sw_pre, rows, fh_last)

ME = "sktime/forecasting/model_evaluation/_functions.py"
Z = ops.to_z3


def trace():
    from pyvc import spec as _S
    return [e for e in _S.CUR.ctx.trace if isinstance(e, Event)]


def forecaster(B, tag="forecaster"):
    """abstract forecaster honouring the sktime interface: fit/update return self and move the cutoff to the last
    time point of the data they are given (C03), predict returns an opaque forecast"""
    f = B.abstract(tag, isa=("BaseForecaster", "BaseEstimator"))

    def fit_like(name):
        def m(I, obj, args, kwargs):
            ev = Event(obj, name, args, kwargs, obj, getattr(I.ctx, "loop_k", None))
            I.ctx.trace.append(ev)
            yv = args[0] if args else kwargs.get("y")
            if isinstance(yv, SSeries):
                obj.attrs["cutoff"] = yv.index.fn(ops.simp(Z(yv.index.len) - 1))
            if name == "fit":
                obj.attrs["is_fitted"] = True
            return obj
        return m
    f.methods = {"fit": fit_like("fit"), "update": fit_like("update")}
    f.attrs["cutoff"] = Opaque("cutoff-before-fit")
    # the caller may hand over a forecaster that was fitted before (on other data) or a fresh one
    f.attrs["is_fitted"] = B.bool(tag + "_fitted_before")
    return f


def metric(B):
    s = B.abstract("scoring", isa=())
    s.attrs["name"] = "m"
    s.attrs["greater_is_better"] = False
    s.callable = True
    return s


EV_CASES = [f"{cv}|{wx}|{st}" for cv in ("sliding", "expanding", "single") for wx in ("noX", "X") for st in ("refit", "update")]
# fit_params given (tuning passes its **fit_params on): an empty dict and a dict with one arbitrary option
EV_CASES += ["sliding|noX|refit|fp0", "sliding|noX|update|fp1", "sliding|X|refit|fp1", "single|noX|refit|fp1"]


def _cv(B, kind):
    if kind == "single":
        return sym_single(B, "wint")
    return sym_splitter(B, "SlidingWindowSplitter" if kind == "sliding" else "ExpandingWindowSplitter", "noinit|sww")


def _ev_inputs(B, case):
    cvk, wx, st = case.split("|")[:3]
    fpk = (case.split("|") + [None])[3]
    y = sym_series(B)
    fp = None
    if fpk is not None:
        fp = SDict({} if fpk == "fp0" else {"fit_option": B.opaque("fit_option")})
    return {"forecaster": forecaster(B), "cv": _cv(B, cvk), "y": y, "X": sym_frame(B, y) if wx == "X" else None,
            "strategy": st, "scoring": metric(B), "fit_params": fp, "return_data": False}


def cv_kind(cv):
    return {"SlidingWindowSplitter": "sliding", "ExpandingWindowSplitter": "expanding", "SingleWindowSplitter": "single"}[cv.cls.name]


def cv_pre(A):
    return sw_pre(NS(self=A.cv, y=A.y)) if cv_kind(A.cv) == "single" else valid_params(A.cv)


def cv_rejects(A):
    a = NS(self=A.cv, y=A.y.index)
    return sw_rejects(a) if cv_kind(A.cv) == "single" else ws_rejects(a)


def cv_count(A):
    return 1 if cv_kind(A.cv) == "single" else ws_count(NS(self=A.cv, y=A.y.index))


def cv_item(A, k):
    a = NS(self=A.cv, y=A.y.index)
    return sw_item(a, k) if cv_kind(A.cv) == "single" else split_item(cv_kind(A.cv))(a, k)


def take_rows(s, pos):
    """rows of s at the positions pos (a closed-form range): spec value"""
    start = pos.closed[0]
    return rows(s, start, pos.len)


def fold_spec(A, k):
    """what an honest fold k looks like: (y_train, y_test labels, X_train, X_test)"""
    train, test = cv_item(A, k).items
    l0 = Z(A.y.index.closed[0])
    y_train = take_rows(A.y, train)
    test_labels = Seq(test.len, lambda i: ops.simp(l0 + Z(test.fn(i))), kind="Int64Index")
    y_test_vals = Seq(test.len, lambda i: A.y.values.fn(test.fn(i)), dtype="real", kind="ndarray")
    X_train = X_test = None
    if A.X is not None:
        X_train = take_rows(A.X, train)
        cutoff_pos = ops.simp(Z(train.closed[0]) + Z(train.len) - 1)
        last_test = test.fn(ops.simp(Z(test.len) - 1))
        X_test = rows(A.X, ops.simp(cutoff_pos + 1), ops.simp(Z(last_test) - cutoff_pos))
    return y_train, test_labels, y_test_vals, X_train, X_test


def _ev_events(S, evs):
    A = S.A
    k = S.k
    f, sc = A.forecaster, A.scoring
    evs = [e for e in evs if e.obj is not None and not e.method.startswith("table.") or e.method == "table.append"]
    if len(evs) != 4:
        return False
    e_fit, e_pred, e_score, e_row = evs
    y_train, test_labels, y_test_vals, X_train, X_test = fold_spec(A, k)
    if not (e_pred.obj is f and e_pred.method == "predict" and e_score.obj is sc and e_score.method == "__call__" and e_row.method == "table.append"):
        return False
    # fit on the first fold / when refitting, update otherwise
    first_or_refit = Or(Eq(k, 0), A.strategy == "refit")
    if e_fit.obj is not f or e_fit.method not in ("fit", "update"):
        return False
    proto = first_or_refit if e_fit.method == "fit" else Not(first_or_refit)
    fh = e_pred.arg(0, "fh")
    if not (isinstance(fh, SObj) and fh.cls.name == "ForecastingHorizon"):
        return False
    conds = [proto,
             equiv(e_fit.arg(0, "y"), y_train),                                   # trained on exactly the fold's training window
             equiv(vals(fh), test_labels), fh.attrs["_is_relative"] is False,     # asked for exactly the fold's test time points
             e_score.arg(1) is e_pred.result,                                     # metric(y_true, y_pred): forecast in 2nd place
             isinstance(e_score.arg(0), SSeries) and equiv(e_score.arg(0).index, test_labels),
             equiv(e_score.arg(0).values, y_test_vals) if isinstance(e_score.arg(0), SSeries) else False]
    if e_fit.method == "fit":
        conds.append(e_fit.kwargs.get("fh") is fh)
        # fit_params reach every fit call unchanged, nothing else does
        want_kw = dict(A.fit_params.items) if isinstance(A.fit_params, SDict) else {}
        got_kw = {k_: v_ for k_, v_ in e_fit.kwargs.items() if k_ not in ("fh", "X", "y")}
        conds.append(set(got_kw) == set(want_kw) and all(got_kw[k_] is want_kw[k_] for k_ in want_kw))
    if A.X is not None:
        conds += [equiv(e_fit.arg(1, "X"), X_train), equiv(e_pred.kwargs.get("X"), X_test)]
    else:
        conds += [e_fit.arg(1, "X") is None, e_pred.kwargs.get("X") is None]
    row = e_row.arg(0)
    if not isinstance(row, SDict):
        return False
    # no observation at or after the first test time point reaches the forecaster before predict
    ytr = e_fit.arg(0, "y")
    conds.append(ForAll(lambda i: ytr.index.fn(i) < test_labels.fn(0), 0, ytr.index.len) if isinstance(ytr, SSeries) else False)
    conds += [row.items.get("test_m") is e_score.result,
              Eq(row.items.get("len_train_window"), y_train.index.len),
              Eq(row.items.get("cutoff"), y_train.index.fn(ops.simp(Z(y_train.index.len) - 1)))]
    return And(*conds)


def _ev_inv(S):
    return And(Eq(S.results.nrows, S.k))


contract(f"{ME}::evaluate", "C07", cases=EV_CASES, inputs=_ev_inputs, pre=cv_pre,
         raises=[("ValueError", cv_rejects)],
         ensures=[("one-row-per-split", lambda A, r: Eq(r.nrows, cv_count(A)) if r.__class__.__name__ == "STable" else False)],
         applicable=lambda A: isinstance(A.cv, SObj) and A.cv.cls.name in ("SlidingWindowSplitter", "ExpandingWindowSplitter", "SingleWindowSplitter")
         and isinstance(A.y, SSeries),
         invariants={0: _ev_inv}, events={0: _ev_events},
         result=lambda I, A: __import__("pyvc.libpd", fromlist=["STable"]).STable(cv_count(A), "evaluate-result"), record_call=True,
         frame=lambda A: [A.cv],
         notes=["the forecaster and the metric are abstract objects (ghost trace); fit/update move the abstract forecaster's "
                "cutoff to the last time point they are given (forecaster interface contract, C03)",
                "result table modelled as a row accumulator: each appended row is a ghost event"])
