"""C19: benchmark orchestration -- one iteration of Orchestrator.fit_predict for an arbitrary (task, dataset, strategy, fold)
against an ABSTRACT result store: exactly the missing records are produced, completed ones are left alone."""
from pyvc.spec import *   # noqa
from pyvc.values import SArr, SList, SObj, Opaque, AbstractObj, SDict, GenVal
from pyvc.libmodels import Event
from pyvc import ops
import z3
from contracts.C07_evaluate import trace

ORC = "sktime/benchmarking/orchestration.py"
RES = "sktime/benchmarking/results.py"
Z = ops.to_z3


def _data(B, tag):
    """abstract data frame: positional / label selection is recorded through provenance"""
    d = Opaque(tag)

    def getitem_rows(I, o, idx):
        r = Opaque("rows", prov=("iloc", d, idx))

        def loc_get(I2, o2, idx2):
            return Opaque("column", prov=("loc", r, idx2))
        r.attrs = {"loc": _indexer(loc_get)}
        return r
    d.attrs = {"iloc": _indexer(getitem_rows)}

    def whole_column(I, o, idx):
        c = Opaque("column of the whole frame", prov=("getitem", d, idx))
        c.getitem = lambda I2, o2, idx2: Opaque("label lookup in a column of the whole frame", prov=("label-getitem", c, idx2))
        return c
    d.getitem = whole_column
    return d


def _indexer(fn):
    o = Opaque("indexer")
    o.getitem = fn
    return o


def _orch_inputs(B, case):
    I = B.I
    ok, cls = I.mod_global(I.src.module("sktime.benchmarking.orchestration"), "Orchestrator")
    obj = SObj(cls)
    res = B.abstract("results_store", isa=("BaseResults",))
    exist = {"train": B.bool("train_pred_exist"), "test": B.bool("test_pred_exist"), "fitted": B.bool("fitted_strategy_exists")}
    res.results = {"check_predictions_exist": lambda I2, o, ev: exist[ev.kwargs["train_or_test"]],
                   "check_fitted_strategy_exists": lambda I2, o, ev: exist["fitted"],
                   "save_predictions": lambda I2, o, ev: None, "save_fitted_strategy": lambda I2, o, ev: None, "save": lambda I2, o, ev: None}
    obj.attrs["results"] = res
    task = B.abstract("task", isa=("TSCTask",) if case == "classification" else ("TSRTask",))
    task.closed_isa = True
    task.attrs["target"] = B.opaque("target_column")
    dataset = B.abstract("dataset")
    dataset.attrs["name"] = B.opaque("dataset_name")
    strategy = B.abstract("strategy_clone")
    strategy.attrs["name"] = B.opaque("strategy_name")
    if case != "classification":
        strategy.absent = {"predict_proba"}
    data = _data(B, "data")
    fold = B.int("cv_fold", 0)
    tr, te = B.opaque("train_idx"), B.opaque("test_idx")
    item = SList([task, dataset, data, strategy, fold, tr, te], "tuple")
    cnt = B.int("n_cells", 0)

    def _iter(I2, args, kwargs):
        return GenVal(cnt, lambda k: item)       # every cell is an arbitrary (symbolic) one
    _iter._pyvc_native = True
    obj.attrs["_iter"] = _iter
    obj.attrs["_print_progress"] = (lambda f: (setattr(f, "_pyvc_native", True) or f))(lambda I2, a, kw: None)
    obj.ghost = dict(res=res, exist=exist, task=task, dataset=dataset, strategy=strategy, data=data, fold=fold, tr=tr, te=te)
    return {"self": obj, "overwrite_predictions": B.bool("overwrite_predictions"), "predict_on_train": B.bool("predict_on_train"),
            "save_fitted_strategies": B.bool("save_fitted_strategies"), "overwrite_fitted_strategies": B.bool("overwrite_fitted_strategies"),
            "verbose": False}


def _is_rows(v, data, idx):
    return isinstance(v, Opaque) and v.prov == ("iloc", data, idx)


def _fp_events(S, evs):
    A = S.A
    g = A.self.ghost
    res, ex, strat, task = g["res"], g["exist"], g["strategy"], g["task"]
    ow, pot, save, owf = A.overwrite_predictions, A.predict_on_train, A.save_fitted_strategies, A.overwrite_fitted_strategies
    evs = [e for e in evs if e.obj is not None]
    checks = [e for e in evs if e.method.startswith("check_")]
    rest = [e for e in evs if not e.method.startswith("check_")]
    skip = And(Not(ow), ex["test"], Or(ex["train"], Not(pot)), Not(owf), Or(ex["fitted"], Not(save)))
    if not rest:
        return skip                        # nothing fitted, nothing written: only allowed when everything requested exists
    fits = [e for e in rest if e.obj is strat and e.method == "fit"]
    if len(fits) != 1 or rest[0] is not fits[0]:
        return False
    conds = [Not(skip), fits[0].arg(0) is task, _is_rows(fits[0].arg(1), g["data"], g["tr"])]     # fitted on exactly the fold's training rows
    sf = [e for e in rest if e.obj is res and e.method == "save_fitted_strategy"]
    conds.append(If(And(save, Or(owf, Not(ex["fitted"]))), len(sf) == 1, len(sf) == 0))
    sp = [e for e in rest if e.obj is res and e.method == "save_predictions"]
    parts = {e.kwargs.get("train_or_test"): e for e in sp}
    if len(parts) != len(sp):
        return False
    conds.append(If(And(pot, Or(ow, Not(ex["train"]))), "train" in parts, "train" not in parts))
    conds.append(If(Or(ow, Not(ex["test"])), "test" in parts, "test" not in parts))
    preds = [e for e in rest if e.obj is strat and e.method == "predict"]
    for part, idx in (("train", g["tr"]), ("test", g["te"])):
        if part in parts:
            e = parts[part]
            k = e.kwargs
            pr = [p for p in preds if _is_rows(p.arg(0), g["data"], idx)]
            yt = k.get("y_true")
            ok_true = isinstance(yt, Opaque) and yt.prov and yt.prov[0] == "loc" and _is_rows(yt.prov[1], g["data"], idx) and \
                isinstance(yt.prov[2], SList) and yt.prov[2].items[1] is task.attrs["target"]
            conds += [len(pr) == 1, k.get("index") is idx, k.get("cv_fold") is g["fold"], k.get("strategy_name") is strat.attrs["name"],
                      k.get("dataset_name") is g["dataset"].attrs["name"], (k.get("y_pred") is pr[0].result) if pr else False, ok_true]
    conds.append(len(preds) == len(parts))
    return And(*conds)


contract(f"{ORC}::Orchestrator.fit_predict", "C19", cases=["classification", "regression"], inputs=_orch_inputs,
         raises=[("ValueError", lambda A: And(A.overwrite_fitted_strategies, Not(A.save_fitted_strategies)))],
         invariants={0: lambda S: True}, events={0: _fp_events},
         ensures=[("results-saved-at-the-end", lambda A, r: len([e for e in trace() if e.method == "save"]) == 1)],
         notes=["the result store, the strategy, the task and the data frame are abstract; the store's existence answers are arbitrary "
                "booleans (any earlier history, including an interrupted run); file writes are atomic inserts (assumption)",
                "_iter (cross product of tasks x strategies x folds with a fresh clone per fold) is abstracted to 'an arbitrary cell'"])


# ----------------------------------------------------------------------------- in-memory store keys
def _key_inputs(B, case):
    I = B.I
    ok, cls = I.mod_global(I.src.module("sktime.benchmarking.results"), "RAMResults")
    return {"self": SObj(cls), "strategy_name": B.opaque("s"), "dataset_name": B.opaque("d"), "cv_fold": B.int("fold", 0), "train_or_test": B.opaque("part")}


contract(f"{RES}::RAMResults._generate_key", "C19", cases=["-"], inputs=_key_inputs,
         ensures=[("key-is-the-tuple-of-its-four-components-hence-injective",
                   lambda A, r: isinstance(r, SList) and r.kind == "tuple" and len(r.items) == 4 and r.items[0] is A.strategy_name and
                   r.items[1] is A.dataset_name and r.items[2] is A.train_or_test)])


# ----------------------------------------------------------------------------- registry of strategy / dataset names
BBASE = "sktime/benchmarking/base.py"


def _ak_inputs(B, case):
    I = B.I
    ok, cls = I.mod_global(I.src.module("sktime.benchmarking.base"), "BaseResults")
    obj = SObj(cls)
    s_known, d_known = case.split("|")
    s, d = "strategy-x", "dataset-y"
    obj.attrs["strategy_names"] = SList(["other-strategy"] + ([s] if s_known == "known-strategy" else []), "list")
    obj.attrs["dataset_names"] = SList(["other-dataset"] + ([d] if d_known == "known-dataset" else []), "list")
    obj.ghost = dict(s0=list(obj.attrs["strategy_names"].items), d0=list(obj.attrs["dataset_names"].items))
    return {"self": obj, "strategy_name": s, "dataset_name": d}


def _ak_post(A, r):
    g = A.self.ghost
    sn, dn = A.self.attrs["strategy_names"].items, A.self.attrs["dataset_names"].items
    want_s = g["s0"] + ([A.strategy_name] if A.strategy_name not in g["s0"] else [])
    want_d = g["d0"] + ([A.dataset_name] if A.dataset_name not in g["d0"] else [])
    return list(sn) == want_s and list(dn) == want_d


contract(f"{BBASE}::BaseResults._append_key", "C19", cases=[f"{a}|{b}" for a in ("new-strategy", "known-strategy") for b in ("new-dataset", "known-dataset")],
         inputs=_ak_inputs,
         ensures=[("both-names-are-registered-exactly-once-earlier-entries-kept", _ak_post)],
         notes=["the registry drives load_predictions (strategies x datasets): a name missing from it hides complete records"])


# ----------------------------------------------------------------------------- on-disk store: what is written is what was handed over
def _hdd_save_inputs(B, case):
    I = B.I
    ok, cls = I.mod_global(I.src.module("sktime.benchmarking.results"), "HDDResults")
    obj = SObj(cls)
    keys = []

    def gen_key(I2, args, kwargs):
        keys.append((list(args), dict(kwargs)))
        return "KEY"
    gen_key._pyvc_native = True
    obj.attrs.update(_generate_key=gen_key, strategy_names=SList([], "list"), dataset_names=SList([], "list"))
    obj.ghost = dict(keys=keys)
    return {"self": obj, "strategy_name": "strategy-x", "dataset_name": "dataset-y", "y_true": B.opaque("y_true"), "y_pred": B.opaque("y_pred"),
            "y_proba": B.opaque("y_proba"), "index": B.opaque("index"), "cv_fold": B.int("cv_fold", 0), "train_or_test": "test"}


def _hdd_save_post(A, r):
    evs = [e for e in trace() if e.method == "to_csv"]
    g = A.self.ghost
    if len(evs) != 1 or len(g["keys"]) != 1:
        return False
    e = evs[0]
    frame = e.obj
    cols = frame.prov[1].items if isinstance(frame, Opaque) and frame.prov and frame.prov[0] == "frame-from-dict" else None
    if cols is None:
        return False
    ka, kk = g["keys"][0]
    key_ok = (ka + [kk.get(n) for n in ("strategy_name", "dataset_name", "cv_fold", "train_or_test") if n in kk])
    return (cols.get("index") is A.index and cols.get("y_true") is A.y_true and cols.get("y_pred") is A.y_pred and
            e.arg(0) == "KEY.csv" and e.kwargs.get("index") is False and e.kwargs.get("header") is True and
            e.kwargs.get("float_format") is None and e.kwargs.get("columns") is None and e.kwargs.get("na_rep") is None and
            key_ok[0] == A.strategy_name and key_ok[1] == A.dataset_name and key_ok[2] is A.cv_fold and key_ok[3] == A.train_or_test and
            A.strategy_name in A.self.attrs["strategy_names"].items and A.dataset_name in A.self.attrs["dataset_names"].items)


contract(f"{RES}::HDDResults.save_predictions", "C19", cases=["-"], inputs=_hdd_save_inputs,
         ensures=[("the-record-written-under-its-key-holds-index-y_true-y_pred-unformatted-and-both-names-are-registered", _hdd_save_post, {"modular": False})],
         notes=["file layout (_generate_key) abstract; DataFrame.to_csv is a recorded external: full precision (no float_format), all "
                "columns, header written, row labels not; reading back is bounded-tier only"])
