"""C19: benchmark orchestration -- one iteration of Orchestrator.fit_predict for an arbitrary (task, dataset, strategy, fold)
against an ABSTRACT result store: exactly the missing records are produced, completed ones are left alone."""
from pyvc.spec import *   # noqa
from pyvc.values import SArr, SList, SObj, Opaque, AbstractObj, SDict, GenVal
from pyvc.libmodels import Event
from pyvc import ops
import z3
from contracts.C07_evaluate import trace

ORC = "sktime/benchmarking/orchestration.py"
RES = "sktime/benchmarking/results.py"
Z = ops.to_z3


def _data(B, tag):
    """abstract data frame: positional / label selection is recorded through provenance"""
    d = Opaque(tag)

    def getitem_rows(I, o, idx):
        r = Opaque("rows", prov=("iloc", d, idx))

        def loc_get(I2, o2, idx2):
            return Opaque("column", prov=("loc", r, idx2))
        r.attrs = {"loc": _indexer(loc_get)}
        return r
    d.attrs = {"iloc": _indexer(getitem_rows)}

    def whole_column(I, o, idx):
        c = Opaque("column of the whole frame", prov=("getitem", d, idx))
        c.getitem = lambda I2, o2, idx2: Opaque("label lookup in a column of the whole frame", prov=("label-getitem", c, idx2))
        return c
    d.getitem = whole_column
    return d


def _indexer(fn):
    o = Opaque("indexer")
    o.getitem = fn
    return o


def _orch_inputs(B, case):
    I = B.I
    ok, cls = I.mod_global(I.src.module("sktime.benchmarking.orchestration"), "Orchestrator")
    obj = SObj(cls)
    res = B.abstract("results_store", isa=("BaseResults",))
    exist = {"train": B.bool("train_pred_exist"), "test": B.bool("test_pred_exist"), "fitted": B.bool("fitted_strategy_exists")}
    res.results = {"check_predictions_exist": lambda I2, o, ev: exist[ev.kwargs["train_or_test"]],
                   "check_fitted_strategy_exists": lambda I2, o, ev: exist["fitted"],
                   "save_predictions": lambda I2, o, ev: None, "save_fitted_strategy": lambda I2, o, ev: None, "save": lambda I2, o, ev: None}
    obj.attrs["results"] = res
    task = B.abstract("task", isa=("TSCTask",) if case == "classification" else ("TSRTask",))
    task.closed_isa = True
    task.attrs["target"] = B.opaque("target_column")
    dataset = B.abstract("dataset")
    dataset.attrs["name"] = B.opaque("dataset_name")
    strategy = B.abstract("strategy_clone")
    strategy.attrs["name"] = B.opaque("strategy_name")
    if case != "classification":
        strategy.absent = {"predict_proba"}
    data = _data(B, "data")
    fold = B.int("cv_fold", 0)
    tr, te = B.opaque("train_idx"), B.opaque("test_idx")
    item = SList([task, dataset, data, strategy, fold, tr, te], "tuple")
    cnt = B.int("n_cells", 0)

    def _iter(I2, args, kwargs):
        return GenVal(cnt, lambda k: item)       # every cell is an arbitrary (symbolic) one
    _iter._pyvc_native = True
    obj.attrs["_iter"] = _iter
    obj.attrs["_print_progress"] = (lambda f: (setattr(f, "_pyvc_native", True) or f))(lambda I2, a, kw: None)
    obj.ghost = dict(res=res, exist=exist, task=task, dataset=dataset, strategy=strategy, data=data, fold=fold, tr=tr, te=te)
    return {"self": obj, "overwrite_predictions": B.bool("overwrite_predictions"), "predict_on_train": B.bool("predict_on_train"),
            "save_fitted_strategies": B.bool("save_fitted_strategies"), "overwrite_fitted_strategies": B.bool("overwrite_fitted_strategies"),
            "verbose": False}


def _is_rows(v, data, idx):
    return isinstance(v, Opaque) and v.prov == ("iloc", data, idx)


def _fp_events(S, evs):
    A = S.A
    g = A.self.ghost
    res, ex, strat, task = g["res"], g["exist"], g["strategy"], g["task"]
    ow, pot, save, owf = A.overwrite_predictions, A.predict_on_train, A.save_fitted_strategies, A.overwrite_fitted_strategies
    evs = [e for e in evs if e.obj is not None]
    checks = [e for e in evs if e.method.startswith("check_")]
    rest = [e for e in evs if not e.method.startswith("check_")]
    skip = And(Not(ow), ex["test"], Or(ex["train"], Not(pot)), Not(owf), Or(ex["fitted"], Not(save)))
    if not rest:
        return skip                        # nothing fitted, nothing written: only allowed when everything requested exists
    fits = [e for e in rest if e.obj is strat and e.method == "fit"]
    if len(fits) != 1 or rest[0] is not fits[0]:
        return False
    conds = [Not(skip), fits[0].arg(0) is task, _is_rows(fits[0].arg(1), g["data"], g["tr"])]     # fitted on exactly the fold's training rows
    sf = [e for e in rest if e.obj is res and e.method == "save_fitted_strategy"]
    conds.append(If(And(save, Or(owf, Not(ex["fitted"]))), len(sf) == 1, len(sf) == 0))
    sp = [e for e in rest if e.obj is res and e.method == "save_predictions"]
    parts = {e.kwargs.get("train_or_test"): e for e in sp}
    if len(parts) != len(sp):
        return False
    conds.append(If(And(pot, Or(ow, Not(ex["train"]))), "train" in parts, "train" not in parts))
    conds.append(If(Or(ow, Not(ex["test"])), "test" in parts, "test" not in parts))
    preds = [e for e in rest if e.obj is strat and e.method == "predict"]
    for part, idx in (("train", g["tr"]), ("test", g["te"])):
        if part in parts:
            e = parts[part]
            k = e.kwargs
            pr = [p for p in preds if _is_rows(p.arg(0), g["data"], idx)]
            yt = k.get("y_true")
            ok_true = isinstance(yt, Opaque) and yt.prov and yt.prov[0] == "loc" and _is_rows(yt.prov[1], g["data"], idx) and \
                isinstance(yt.prov[2], SList) and yt.prov[2].items[1] is task.attrs["target"]
            conds += [len(pr) == 1, k.get("index") is idx, k.get("cv_fold") is g["fold"], k.get("strategy_name") is strat.attrs["name"],
                      k.get("dataset_name") is g["dataset"].attrs["name"], (k.get("y_pred") is pr[0].result) if pr else False, ok_true]
    conds.append(len(preds) == len(parts))
    return And(*conds)


contract(f"{ORC}::Orchestrator.fit_predict", "C19", cases=["classification", "regression"], inputs=_orch_inputs,
         raises=[("ValueError", lambda A: And(A.overwrite_fitted_strategies, Not(A.save_fitted_strategies)))],
         invariants={0: lambda S: True}, events={0: _fp_events},
         ensures=[("results-saved-at-the-end", lambda A, r: len([e for e in trace() if e.method == "save"]) == 1)],
         notes=["the result store, the strategy, the task and the data frame are abstract; the store's existence answers are arbitrary "
                "booleans (any earlier history, including an interrupted run); file writes are atomic inserts (assumption)",
                "_iter (cross product of tasks x strategies x folds with a fresh clone per fold) is abstracted to 'an arbitrary cell'"])


# ----------------------------------------------------------------------------- in-memory store keys
def _key_inputs(B, case):
    I = B.I
    ok, cls = I.mod_global(I.src.module("sktime.benchmarking.results"), "RAMResults")
    return {"self": SObj(cls), "strategy_name": B.opaque("s"), "dataset_name": B.opaque("d"), "cv_fold": B.int("fold", 0), "train_or_test": B.opaque("part")}


contract(f"{RES}::RAMResults._generate_key", "C19", cases=["-"], inputs=_key_inputs,
         ensures=[("key-is-the-tuple-of-its-four-components-hence-injective",
                   lambda A, r: isinstance(r, SList) and r.kind == "tuple" and len(r.items) == 4 and r.items[0] is A.strategy_name and
                   r.items[1] is A.dataset_name and r.items[2] is A.train_or_test)])
