"""C11: NaiveForecaster._predict_last_window computes the textbook naive forecasts (sktime/forecasting/naive.py)."""
from pyvc.spec import *   # noqa
from pyvc.values import SArr, SList, SObj, Opaque, SSeries, SFrame, NAN, NAN_CONST
from pyvc.libmodels import Event, pure_arith
from pyvc import ops
import z3
from contracts.C02_fh import sym_fh, vals
from contracts.C01_split import sym_series, fh_last
from contracts.C05_reduce import no_nan
from contracts.C07_evaluate import trace

NV = "sktime/forecasting/naive.py"
Z = ops.to_z3


def CUR_():
    from pyvc import spec as _S
    return _S.CUR


def mod(a, b):
    return pure_arith(CUR_(), "Mod", a, b)


def sym_naive(B, strategy, seasonal):
    I = B.I
    ok, cls = I.mod_global(I.src.module("sktime.forecasting.naive"), "NaiveForecaster")
    obj = I.instantiate(cls, [], {"strategy": strategy})
    y = sym_series(B, "y", n=B.int("n", 1), l0=B.int("l0"))
    B.assume(no_nan(y.values))
    n, l0 = Z(y.index.len), Z(y.index.closed[0])
    cutoff = B.int("cutoff")                       # anywhere inside the remembered series (in-sample windows, update_predict)
    B.assume(And(cutoff >= l0, cutoff <= l0 + n - 1))
    sp = B.int("sp", 2) if seasonal else 1
    W = B.int("W", 1)
    if strategy == "last":
        W = sp if seasonal else 1                  # fit sets window_length_ = sp_ (or 1)
    obj.attrs.update({"sp": sp, "sp_": sp, "window_length_": W, "_y": y, "_X": None, "_cutoff": cutoff, "_is_fitted": True,
                      "_fh": sym_fh(B, "fh", nonempty=True, oos=True)})
    return obj


def win(A):
    """(first position, length) of the available last window: the W observations up to the cutoff, fewer near the start"""
    s = A.self
    y = s.attrs["_y"]
    cpos = ops.simp(Z(s.attrs["_cutoff"]) - Z(y.index.closed[0]))
    Lw = Min(s.attrs["window_length_"], ops.simp(cpos + 1))
    return cpos, Lw


NV_CASES = ["last|sp1", "last|seasonal", "mean|sp1", "mean|seasonal", "drift|sp1"]


def _nv_inputs(B, case):
    st, se = case.split("|")
    obj = sym_naive(B, st, se == "seasonal")
    return {"self": obj, "fh": obj.attrs["_fh"], "X": None}


def _nv_post(A, r):
    s = A.self
    y = s.attrs["_y"]
    st = s.attrs["strategy"]
    sp = s.attrs["sp_"]
    cpos, Lw = win(A)
    fhv = vals(A.fh)
    q = CUR_().ctx.fresh_int("qstep")
    CUR_().ctx.inputs["qstep"] = q
    CUR_().ctx.assume(And(q >= 0, q < Z(fhv.len)))
    h = fhv.fn(q)                                   # an arbitrary requested step
    conds = [Eq(Len(r), fhv.len)]
    seasonal = not (isinstance(sp, int) and sp == 1)
    got = At(r, q)
    if st == "last" and not seasonal:
        conds.append(Eq(got, y.values.fn(cpos)))                                  # the last observed value
    elif st == "last":
        # the latest observation t <= T with t = T + h (mod sp), if it lies in the available window, else missing
        back = ops.simp(Z(sp) - 1 - Z(mod(ops.simp(Z(h) - 1), sp)))            # how far before the cutoff
        pos = ops.simp(cpos - back)
        conds.append(If(back < Z(Lw), Eq(got, y.values.fn(pos)), Eq(ops.as_real(got), NAN_CONST)))
    elif st == "mean" and not seasonal:
        evs = [e for e in trace() if e.method == "nanmean"]
        if len(evs) != 1:
            return False
        a = evs[0].arg(0)
        conds += [Eq(got, evs[0].result), Eq(a.len, Lw),
                  ForAll(lambda i: Eq(a.fn(i), y.values.fn(ops.simp(cpos - Z(Lw) + 1 + Z(i)))), 0, a.len)]   # mean of exactly the window
    elif st == "mean":
        evs = [e for e in trace() if e.method == "nanmean"]
        if len(evs) != 1:
            return False
        a = evs[0].arg(0)
        res = evs[0].result
        j = mod(ops.simp(Z(h) - 1), sp)
        rows = a.shape[0]
        rr = CUR_().ctx.fresh_int("row")
        CUR_().ctx.inputs["row"] = rr
        CUR_().ctx.assume(And(rr >= 0, rr < Z(rows)))
        # the cell (row rr, column j) feeding the forecast of step h holds either padding or the observation that lies
        # (rows - rr) whole seasons before time T + (j + 1):  same season as the step, inside the available window
        # hint (own obligation): rows == ceil(Lw / sp) == Lw // sp (+ 1 if there is a remainder)
        q1 = pure_arith(CUR_(), "FloorDiv", Lw, sp)
        rem = mod(Lw, sp)
        CUR_().ctx.prove("hint:rows-is-quotient-plus-one-iff-remainder", "lemma",
                         Implies(And(Z(rows) * Z(sp) >= Z(Lw), (Z(rows) - 1) * Z(sp) < Z(Lw)),
                                 Eq(rows, If(Z(rem) > 0, ops.simp(Z(q1) + 1), q1))), assume_after=True)
        pos = ops.simp(cpos + 1 + Z(j) - (Z(rows) - rr) * Z(sp))
        cell = a.fn(rr, j)
        conds += [Eq(a.shape[1], sp), Eq(got, res.fn(j)),
                  Z(rows) * Z(sp) >= Z(Lw), (Z(rows) - 1) * Z(sp) < Z(Lw),                 # as many rows as needed, no more
                  If(pos >= cpos - Z(Lw) + 1, Eq(cell, y.values.fn(pos)), Eq(ops.as_real(cell), NAN_CONST))]
    else:
        # drift: last + h * (last - first) / (len - 1) through the end points of the available window
        first = y.values.fn(ops.simp(cpos - Z(Lw) + 1))
        last = y.values.fn(cpos)
        conds.append(If(Z(Lw) > 1, Eq(ops.as_real(got) * (Z(Lw) - 1), ops.as_real(last) * (Z(Lw) - 1) + Z(h) * (ops.as_real(last) - ops.as_real(first))),
                        Eq(got, last)))
    return And(*conds)


contract(f"{NV}::NaiveForecaster._predict_last_window", "C11,C12", cases=NV_CASES, inputs=_nv_inputs,
         pre=lambda A: Or(A.self.attrs["strategy"] != "drift", A.self.attrs["window_length_"] >= 2),
         ensures=[("textbook-forecast-for-every-requested-step", _nv_post)],
         frame=lambda A: [A.self, A.self.attrs["_y"]],
         notes=["no missing values in the window assumed (NaN handling of nanmean is numpy's); np.nanmean is an uninterpreted "
                "aggregator: the obligation is about WHICH observations are in the column it is given",
                "cutoff may lie anywhere in the remembered series, so windows shorter than window_length_ (in-sample forecasts "
                "near the start) are covered"])
