"""C11: NaiveForecaster._predict_last_window computes the textbook naive forecasts (sktime/forecasting/naive.py)."""
from pyvc.spec import *   # noqa
from pyvc.values import SArr, SList, SObj, Opaque, SSeries, SFrame, NAN, NAN_CONST
from pyvc.libmodels import Event, pure_arith
from pyvc import ops
import z3
from contracts.C02_fh import sym_fh, vals
from contracts.C01_split import sym_series, fh_last
from contracts.C05_reduce import no_nan
from contracts.C07_evaluate import trace

NV = "sktime/forecasting/naive.py"
Z = ops.to_z3


def CUR_():
    from pyvc import spec as _S
    return _S.CUR


def mod(a, b):
    return pure_arith(CUR_(), "Mod", a, b)


def sym_naive(B, strategy, seasonal):
    I = B.I
    ok, cls = I.mod_global(I.src.module("sktime.forecasting.naive"), "NaiveForecaster")
    obj = I.instantiate(cls, [], {"strategy": strategy})
    y = sym_series(B, "y", n=B.int("n", 1), l0=B.int("l0"))
    B.assume(no_nan(y.values))
    n, l0 = Z(y.index.len), Z(y.index.closed[0])
    cutoff = B.int("cutoff")                       # anywhere inside the remembered series (in-sample windows, update_predict)
    B.assume(And(cutoff >= l0, cutoff <= l0 + n - 1))
    sp = B.int("sp", 2) if seasonal else 1
    W = B.int("W", 1)
    if strategy == "last":
        W = sp if seasonal else 1                  # fit sets window_length_ = sp_ (or 1)
    obj.attrs.update({"sp": sp, "sp_": sp, "window_length_": W, "_y": y, "_X": None, "_cutoff": cutoff, "_is_fitted": True,
                      "_fh": sym_fh(B, "fh", nonempty=True, oos=True)})
    return obj


def win(A):
    """(first position, length) of the available last window: the W observations up to the cutoff, fewer near the start"""
    s = A.self
    y = s.attrs["_y"]
    cpos = ops.simp(Z(s.attrs["_cutoff"]) - Z(y.index.closed[0]))
    Lw = Min(s.attrs["window_length_"], ops.simp(cpos + 1))
    return cpos, Lw


NV_CASES = ["last|sp1", "last|seasonal", "mean|sp1", "mean|seasonal", "drift|sp1"]


def _nv_inputs(B, case):
    st, se = case.split("|")
    obj = sym_naive(B, st, se == "seasonal")
    return {"self": obj, "fh": obj.attrs["_fh"], "X": None}


def _nv_post(A, r):
    s = A.self
    y = s.attrs["_y"]
    st = s.attrs["strategy"]
    sp = s.attrs["sp_"]
    cpos, Lw = win(A)
    fhv = vals(A.fh)
    q = CUR_().ctx.fresh_int("qstep")
    CUR_().ctx.inputs["qstep"] = q
    CUR_().ctx.assume(And(q >= 0, q < Z(fhv.len)))
    h = fhv.fn(q)                                   # an arbitrary requested step
    conds = [Eq(Len(r), fhv.len)]
    seasonal = not (isinstance(sp, int) and sp == 1)
    got = At(r, q)
    if st == "last" and not seasonal:
        conds.append(Eq(got, y.values.fn(cpos)))                                  # the last observed value
    elif st == "last":
        # the latest observation t <= T with t = T + h (mod sp), if it lies in the available window, else missing
        back = ops.simp(Z(sp) - 1 - Z(mod(ops.simp(Z(h) - 1), sp)))            # how far before the cutoff
        pos = ops.simp(cpos - back)
        conds.append(If(back < Z(Lw), Eq(got, y.values.fn(pos)), Eq(ops.as_real(got), NAN_CONST)))
    elif st == "mean" and not seasonal:
        evs = [e for e in trace() if e.method == "nanmean"]
        if len(evs) != 1:
            return False
        a = evs[0].arg(0)
        conds += [Eq(got, evs[0].result), Eq(a.len, Lw),
                  ForAll(lambda i: Eq(a.fn(i), y.values.fn(ops.simp(cpos - Z(Lw) + 1 + Z(i)))), 0, a.len)]   # mean of exactly the window
    elif st == "mean":
        evs = [e for e in trace() if e.method == "nanmean"]
        if len(evs) != 1:
            return False
        a = evs[0].arg(0)
        res = evs[0].result
        j = mod(ops.simp(Z(h) - 1), sp)
        rows = a.shape[0]
        rr = CUR_().ctx.fresh_int("row")
        CUR_().ctx.inputs["row"] = rr
        CUR_().ctx.assume(And(rr >= 0, rr < Z(rows)))
        # the cell (row rr, column j) feeding the forecast of step h holds either padding or the observation that lies
        # (rows - rr) whole seasons before time T + (j + 1):  same season as the step, inside the available window
        # hint (own obligation): rows == ceil(Lw / sp) == Lw // sp (+ 1 if there is a remainder)
        q1 = pure_arith(CUR_(), "FloorDiv", Lw, sp)
        rem = mod(Lw, sp)
        CUR_().ctx.prove("hint:rows-is-quotient-plus-one-iff-remainder", "lemma",
                         Implies(And(Z(rows) * Z(sp) >= Z(Lw), (Z(rows) - 1) * Z(sp) < Z(Lw)),
                                 Eq(rows, If(Z(rem) > 0, ops.simp(Z(q1) + 1), q1))), assume_after=True)
        pos = ops.simp(cpos + 1 + Z(j) - (Z(rows) - rr) * Z(sp))
        cell = a.fn(rr, j)
        conds += [Eq(a.shape[1], sp), Eq(got, res.fn(j)),
                  Z(rows) * Z(sp) >= Z(Lw), (Z(rows) - 1) * Z(sp) < Z(Lw),                 # as many rows as needed, no more
                  If(pos >= cpos - Z(Lw) + 1, Eq(cell, y.values.fn(pos)), Eq(ops.as_real(cell), NAN_CONST))]
    else:
        # drift: last + h * (last - first) / (len - 1) through the end points of the available window
        first = y.values.fn(ops.simp(cpos - Z(Lw) + 1))
        last = y.values.fn(cpos)
        conds.append(If(Z(Lw) > 1, Eq(ops.as_real(got) * (Z(Lw) - 1), ops.as_real(last) * (Z(Lw) - 1) + Z(h) * (ops.as_real(last) - ops.as_real(first))),
                        Eq(got, last)))
    return And(*conds)


contract(f"{NV}::NaiveForecaster._predict_last_window", "C11,C12", cases=NV_CASES, inputs=_nv_inputs,
         pre=lambda A: Or(A.self.attrs["strategy"] != "drift", A.self.attrs["window_length_"] >= 2),
         ensures=[("textbook-forecast-for-every-requested-step", _nv_post)],
         frame=lambda A: [A.self, A.self.attrs["_y"]],
         notes=["no missing values in the window assumed (NaN handling of nanmean is numpy's); np.nanmean is an uninterpreted "
                "aggregator: the obligation is about WHICH observations are in the column it is given",
                "cutoff may lie anywhere in the remembered series, so windows shorter than window_length_ (in-sample forecasts "
                "near the start) are covered"])


# ----------------------------------------------------------------------------- NaiveForecaster.fit: parameter validation and fitted window
from contracts.C01_split import sym_series as _sym_series     # noqa: E402


def _nvfit_inputs(B, case):
    I = B.I
    st, wl_kind, sp_kind = case.split("|")
    ok, cls = I.mod_global(I.src.module("sktime.forecasting.naive"), "NaiveForecaster")
    wl = None if wl_kind == "nowl" else B.int("window_length")
    sp = {"sp1": 1, "spint": B.int("sp"), "spbool": True, "spfloat": B.real("sp")}[sp_kind]
    obj = I.instantiate(cls, [], {"strategy": st, "window_length": wl, "sp": sp})
    obj.ghost_params = {"strategy": st, "window_length": wl, "sp": sp}
    y = _sym_series(B, "y", nonempty=True)
    return {"self": obj, "y": y, "X": None, "fh": None}


def _nvfit_bad(A):
    s = A.self.attrs
    st, wl, sp = s["strategy"], s["window_length"], s["sp"]
    n = Z(A.y.index.len)
    bad = []
    sp_int = ops.is_intlike(sp) and not isinstance(sp, bool)
    if not sp_int:
        return True                                   # seasonal periodicity must be an integer (not a bool, not a float)
    bad.append(Z(sp) < 1)
    if wl is not None:
        bad.append(Z(wl) < 1)
    if st == "mean" and wl is not None:
        bad.append(And(Z(sp) != 1, Z(wl) < Z(sp)))
    if st == "drift" and wl is not None:
        bad.append(Z(wl) == 1)
    if st not in ("last", "mean", "drift"):
        return True
    # the fitted window must fit into the training series
    if st == "last":
        w_ = z3.If(Z(sp) == 1, 1, Z(sp))
    else:
        w_ = n if wl is None else Z(wl)
    bad.append(w_ > n)
    return Or(*bad)


def _nvfit_post(A, r):
    s = A.self.attrs
    st, wl, sp = s["strategy"], s["window_length"], s["sp"]
    n = Z(A.y.index.len)
    if st == "last":
        w_ = z3.If(Z(sp) == 1, 1, Z(sp))
    else:
        w_ = n if wl is None else Z(wl)
    gp = A.self.ghost_params
    conds = [r is A.self, s.get("_is_fitted") is True, Eq(s["window_length_"], ops.simp(w_)),
             # fit leaves every constructor parameter as it was passed (get_params() unchanged)
             all(s.get(k_) is v_ for k_, v_ in gp.items())]
    if st == "mean" or (st == "last" and not (isinstance(sp, int) and sp == 1)):
        conds.append(Implies(Z(sp) != 1 if st == "last" else True, Eq(s.get("sp_", sp), sp)))
    return And(*conds)


contract(f"{NV}::NaiveForecaster.fit", "C11,C20,C04", cases=[f"{st}|{w}|{p}" for st in ("last", "mean", "drift", "bogus") for w in ("nowl", "wl")
                                                          for p in ("sp1", "spint", "spbool", "spfloat")],
         inputs=_nvfit_inputs, raises=[("ValueError", _nvfit_bad)],
         ensures=[("fitted-window-is-sp-/-window_length-/-the-whole-series-and-constructor-parameters-unchanged", _nvfit_post)],
         frame=lambda A: [A.y],
         notes=["parameters are validated whatever the strategy uses: sp an integer >= 1 (bool / float rejected), window_length None or an "
                "integer >= 1; mean: window_length >= sp; drift: window_length != 1; the fitted window must not exceed the series"])
