"""C15: panel container conversions -- the numpy reshape kernels (the pandas pivots are bounded-tier only)."""
from pyvc.spec import *   # noqa
from pyvc.values import SArr, SList, SObj, Opaque, SSeries, SFrame
from pyvc import ops
import z3

DP = "sktime/utils/data_processing.py"
Z = ops.to_z3


def _x3(B):
    n, c, t = B.int("n_instances", 1), B.int("n_columns", 1), B.int("n_timepoints", 1)
    return B.arr("X", shape=(n, c, t), dtype="real")


def _2d_post(A, r):
    """cell (i, c*T + t) of the table is X[i, c, t]: column-then-time order"""
    X = A.X
    n, C, T = X.shape
    from pyvc import spec as _S
    i, c, t = (_S.CUR.ctx.fresh_int(x) for x in ("i", "c", "t"))
    for v in (i, c, t):
        _S.CUR.ctx.inputs[str(v)] = v
    _S.CUR.ctx.assume(And(i >= 0, i < Z(n), c >= 0, c < Z(C), t >= 0, t < Z(T)))
    return And(Eq(r.shape[0], n), Eq(r.shape[1], ops.simp(Z(C) * Z(T))), Eq(r.fn(i, ops.simp(c * Z(T) + t)), X.fn(i, c, t)))


contract(f"{DP}::from_3d_numpy_to_2d_array", "C15,C14", cases=["-"], inputs=lambda B, case: {"X": _x3(B)},
         ensures=[("column-then-time-order", _2d_post)])


def _mi_frame(B):
    """multi-index frame: rows ordered instance-major then time; groupby sizes supplied as ghost facts"""
    n, t, c = B.int("n_instances", 1), B.int("n_timepoints", 1), B.int("n_columns", 1)
    vals = B.arr("values", shape=(ops.simp(Z(n) * Z(t)), c), dtype="real")
    o = Opaque("multiindex_frame")
    groups = {"inst": n, "time": t}

    def groupby(I, recv, a, kw):
        g = Opaque("groupby")
        g.length = groups[kw.get("level")]
        return g
    o.opaque_methods = {"groupby": groupby, "to_numpy": lambda I, recv, a, kw: vals}
    idx = Opaque("multiindex")
    idx.attrs = {"nlevels": B.int("nlevels", 1)}
    o.attrs = {"shape": SList([ops.simp(Z(n) * Z(t)), c], "tuple"), "values": vals, "index": idx}
    o.ghost = (n, t, c, vals)
    return o


def _mi_post(A, r):
    n, t, c, vals = A.X.ghost
    from pyvc import spec as _S
    i, j, k = (_S.CUR.ctx.fresh_int(x) for x in ("i", "col", "tp"))
    _S.CUR.ctx.assume(And(i >= 0, i < Z(n), j >= 0, j < Z(c), k >= 0, k < Z(t)))
    return And(Eq(r.shape[0], n), Eq(r.shape[1], c), Eq(r.shape[2], t), Eq(r.fn(i, j, k), vals.fn(ops.simp(i * Z(t) + k), j)))


contract(f"{DP}::from_multi_index_to_3d_numpy", "C15", cases=["-"],
         inputs=lambda B, case: {"X": _mi_frame(B), "instance_index": "inst", "time_index": "time"},
         raises=[("ValueError", lambda A: Z(A.X.attrs["index"].attrs["nlevels"]) != 2)],
         ensures=[("instance-major-rows-become-(instance,column,time)", _mi_post)],
         notes=["the frame is abstract: len(X.groupby(level=...)) are the numbers of instances / time points, X.values is row-major "
                "(instance-major, then time) -- pandas side assumed, checked by the bounded tier"])


@lemma("C15/3d-2d-layout-is-invertible", "C15", uses=[f"{DP}::from_3d_numpy_to_2d_array"])
def _layout(B):
    """q = c*T + t with 0 <= t < T determines (c, t): the 2-d table loses nothing"""
    T = B.int("T", 1)
    c1, t1, c2, t2 = B.int("c1", 0), B.int("t1", 0), B.int("c2", 0), B.int("t2", 0)
    B.assume(And(t1 < T, t2 < T, c1 * T + t1 == c2 * T + t2))
    B.hint("division-unique", Implies(c1 < c2, (c2 - c1) * T >= T))
    B.hint("division-unique2", Implies(c2 < c1, (c1 - c2) * T >= T))
    return [("same-cell", And(c1 == c2, t1 == t2))]


# ----------------------------------------------------------------------------- 3-d array -> nested frame: one cell per (instance, column)
def _to_nested_inputs(B, case):
    return {"X": _x3(B), "column_names": None, "cells_as_numpy": case == "numpy-cells"}


def _to_nested_events(S, evs):
    """iteration j writes ONE column: a list with one cell per instance, cell i = X[i, j, :] (as Series or as ndarray)"""
    X = S.A.X
    n, C, T = X.shape
    st = [e for e in evs if e.method == "table.setitem"]
    if len(st) != 1:
        return False
    key, col = st[0].args
    if not isinstance(col, SArr) or col.ndim != 1:
        return False
    from pyvc import spec as _S
    i = _S.CUR.ctx.fresh_int("inst")
    _S.CUR.ctx.assume(And(i >= 0, i < Z(n)))
    cell = col.fn(i)
    vals = cell.values if isinstance(cell, SSeries) else cell
    if not isinstance(vals, SArr) or vals.ndim != 1:
        return False
    want_series = not S.A.cells_as_numpy
    return And(isinstance(cell, SSeries) == want_series, Eq(col.len, n), Eq(vals.len, T),
               ForAll(lambda t: Eq(vals.fn(t), X.fn(i, S.k, t)), 0, T, "t"))


contract(f"{DP}::from_3d_numpy_to_nested", "C15,C16", cases=["series-cells", "numpy-cells"], inputs=_to_nested_inputs,
         invariants={0: lambda S: True}, events={0: _to_nested_events},
         ensures=[("returns-the-table-it-filled", lambda A, r: r.__class__.__name__ == "STable")],
         frame=lambda A: [A.X],
         notes=["default column names; the DataFrame is an accumulator of column writes (pandas side: recorded events only)"])


# ----------------------------------------------------------------------------- the time index of a panel is the LAST axis, whatever the container
def _gti_inputs(B, case):
    if case == "array-3d":
        return {"X": _x3(B)}
    n, t = B.int("n_instances", 1), B.int("n_timepoints", 1)
    return {"X": B.arr("X2", shape=(n, t), dtype="real")}


def _gti_post(A, r):
    T = A.X.shape[-1]
    return And(isinstance(r, SArr) and r.kind == "RangeIndex", Eq(r.len, T), Eq(r.fn(0) if not isinstance(T, int) or T > 0 else 0, 0))


contract(f"{DP}::_get_time_index", "C15,C16", cases=["array-3d", "array-2d"], inputs=_gti_inputs,
         ensures=[("range-over-the-time-points-(last-axis)", _gti_post)],
         notes=["array containers: the time index is RangeIndex(n_timepoints) -- the same axis a nested DataFrame's cells are indexed by; "
                "nested input (X.iloc[0, 0].index) is pandas, bounded tier"])
