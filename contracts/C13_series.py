"""C13: series transformers -- time alignment of the seasonal component, index preservation, inverses."""
from pyvc.spec import *   # noqa
from pyvc.values import SArr, SList, SObj, Opaque, SSeries, SFrame, AbstractObj, SDict
from pyvc.libmodels import Event
from pyvc import ops
import z3
from contracts.C01_split import sym_series
from contracts.C07_evaluate import trace

DS = "sktime/transformations/series/detrend/_deseasonalize.py"
DSMOD = "sktime.transformations.series.detrend._deseasonalize"
Z = ops.to_z3


def fitted_deseasonalizer(B, model="additive", cls="Deseasonalizer"):
    I = B.I
    ok, c = I.mod_global(I.src.module(DSMOD), cls)
    sp = B.int("sp", 1)
    obj = SObj(c, {})
    # state established by fit: the training index and one seasonal value per position in the period
    n0 = B.int("n_train", 1)
    t0 = B.int("t0")                    # first time point of the training series (phase origin)
    yidx = SArr((n0,), lambda i: ops.simp(t0 + Z(i)), "int", "Int64Index", closed=(t0, 1))
    seas = B.arr("seasonal", n=sp, dtype="real", kind="ndarray")
    obj.attrs.update({"sp": sp, "model": model, "_y_index": yidx, "seasonal_": seas, "_is_fitted": True})
    obj.ghost = {"t0": t0, "seasonal": seas, "sp": sp, "yidx": yidx}
    return obj


def phase_spec(obj, z):
    """the component at time point t is seasonal_[(t - t0) mod sp]"""
    g = obj.ghost
    from pyvc.libmodels import pure_arith
    from pyvc import spec as _S
    l0 = z.index.closed[0]
    return SArr((z.index.len,), lambda i: g["seasonal"].fn(pure_arith(_S.CUR, "Mod", ops.simp(Z(l0) + Z(i) - Z(g["t0"])), g["sp"])), "real", "ndarray")


contract(f"{DS}::Deseasonalizer._align_seasonal", "C13", cases=["-"],
         inputs=lambda B, case: {"self": fitted_deseasonalizer(B), "y": sym_series(B, "z")},
         ensures=[("component-depends-only-on-position-modulo-period-relative-to-training-series",
                   lambda A, r: PointwiseEq(r, phase_spec(A.self, A.y)))],
         frame=lambda A: [A.self],
         notes=["np.roll / np.resize models; symbolic period: quotient/remainder encoding, goal stated at a fresh index"])


def _ds_apply_post(sign):
    def post(A, r):
        s = A.self
        comp = phase_spec(s, A.Z)
        if not isinstance(r, SSeries):
            return False
        zv = A.Z.values
        i = B_fresh("q")
        from pyvc import spec as _S
        _S.CUR.ctx.assume(And(i >= 0, i < Z(zv.len)))
        c = comp.fn(i)
        add = s.attrs["model"] == "additive"
        if sign == "transform":
            want = ops.simp(ops.as_real(zv.fn(i)) - c) if add else None
        else:
            want = ops.simp(ops.as_real(zv.fn(i)) + c) if add else None
        conds = [equiv(r.index, A.Z.index), Eq(r.values.len, zv.len)]       # index preserved exactly
        if add:
            conds.append(Eq(r.values.fn(i), want))
        else:
            # multiplicative: r * comp == z (transform) resp. r == z * comp (inverse)
            conds.append(Eq(ops.as_real(r.values.fn(i)) * c, ops.as_real(zv.fn(i))) if sign == "transform" else Eq(r.values.fn(i), ops.as_real(zv.fn(i)) * c))
        return And(*conds)
    return post


def B_fresh(name):
    from pyvc import spec as _S
    v = _S.CUR.ctx.fresh_int(name)
    _S.CUR.ctx.inputs[str(v)] = v
    return v


for _m in ("transform", "inverse_transform"):
    contract(f"{DS}::Deseasonalizer.{_m}", "C13,C12", cases=["additive", "multiplicative", "additive|unfitted"],
             inputs=lambda B, case: (lambda o: {"self": o, "Z": sym_series(B, "z"), "X": None})(
                 (lambda o: (o.attrs.update({"_is_fitted": not case.endswith("unfitted")}) or o))(fitted_deseasonalizer(B, case.split("|")[0]))),
             pre=lambda A: True if A.self.attrs["model"] == "additive" else ForAll(lambda j: A.self.attrs["seasonal_"].fn(j) != 0, 0, A.self.attrs["sp"]),
             raises=[("NotFittedError", lambda A: A.self.attrs["_is_fitted"] is False)],
             ensures=[("removes-or-restores-the-phase-aligned-component-same-index", _ds_apply_post(_m))],
             frame=lambda A: [A.self, A.Z])


def _ds_update_post(A, r):
    s = A.self
    g = s.ghost
    return And(r is s, s.attrs["_y_index"] is g["yidx"], s.attrs["seasonal_"] is g["seasonal"])


contract(f"{DS}::Deseasonalizer.update", "C13,C10", cases=["fitted", "unfitted"],
         inputs=lambda B, case: (lambda o: {"self": o, "Z": sym_series(B, "znew"), "X": None, "update_params": False})(
             (lambda o: (o.attrs.update({"_is_fitted": case == "fitted"}) or o))(fitted_deseasonalizer(B))),
         raises=[("NotFittedError", lambda A: A.self.attrs["_is_fitted"] is False)],
         ensures=[("phase-origin-and-component-unchanged-by-update", _ds_update_post)])


@lemma("C13/inverse-of-transform-is-identity", "C13", uses=[f"{DS}::Deseasonalizer.transform", f"{DS}::Deseasonalizer.inverse_transform"])
def _roundtrip(B):
    """(z - s) + s == z and (z / s) * s == z for s != 0, at every time point, for ANY stretch (the component used by
    both directions is the same function of the time point -- contract of _align_seasonal)"""
    z, s = B.real("z"), B.real("s")
    t = B.real("t")          # additive transform result
    u = B.real("u")          # multiplicative transform result
    B.assume(t == z - s)
    B.assume(s != 0)
    B.assume(u * s == z)
    return [("additive", t + s == z), ("multiplicative", u * s == z)]


# ----------------------------------------------------------------------------- OptionalPassthrough
CP = "sktime/transformations/series/compose.py"


def abstract_transformer(B, tag="inner_transformer"):
    t = B.abstract(tag, isa=("_SeriesToSeriesTransformer", "BaseTransformer", "BaseEstimator"))
    return t


def mk_passthrough(B, passthrough, state):
    """state: 'fresh' (as constructed) | 'fitted' (after fit with the CURRENT passthrough value) |
    'refitted-after-toggle' (fitted with passthrough=False earlier, then set_params(passthrough=True) and fit again)"""
    I = B.I
    ok, cls = I.mod_global(I.src.module("sktime.transformations.series.compose"), "OptionalPassthrough")
    inner = abstract_transformer(B)
    obj = I.instantiate(cls, [inner], {"passthrough": passthrough})
    if state != "fresh":
        obj.attrs["_is_fitted"] = True
        if not passthrough or state == "refitted-after-toggle":
            obj.attrs["transformer_"] = abstract_transformer(B, "fitted_inner" + ("(stale)" if passthrough else ""))
    return obj


OP_CASES = ["pass|fitted", "nopass|fitted", "pass|refitted-after-toggle", "pass|fresh"]


def _op_inputs(B, case):
    p, st = case.split("|")
    return {"self": mk_passthrough(B, p == "pass", st), "Z": sym_series(B, "z"), "X": None}


def _op_apply_post(method):
    def post(A, r):
        s = A.self
        evs = [e for e in trace() if e.obj is not None]
        if s.attrs["passthrough"]:
            return And(len(evs) == 0, r is A.Z)          # identity, whatever happened to the object before
        t = s.attrs["transformer_"]
        return len(evs) == 1 and evs[0].obj is t and evs[0].method == method and evs[0].arg(0) is A.Z and r is evs[0].result
    return post


for _m in ("transform", "inverse_transform"):
    contract(f"{CP}::OptionalPassthrough.{_m}", "C13,C12", cases=OP_CASES, inputs=_op_inputs,
             raises=[("NotFittedError", lambda A: A.self.attrs["_is_fitted"] is False)],
             ensures=[("identity-when-passing-through-else-the-fitted-inner-transformer", _op_apply_post(_m))],
             frame=lambda A: [A.self, A.Z])


@lemma("C13/passthrough-roundtrip", "C13", uses=[f"{CP}::OptionalPassthrough.transform", f"{CP}::OptionalPassthrough.inverse_transform"])
def _op_roundtrip(B):
    """both directions use the SAME switch (passthrough) -- by the two contracts above inverse(transform(z)) is z when
    passing through and inner.inverse_transform(inner.transform(z)) otherwise"""
    p = B.bool("passthrough")
    z, tz, itz = B.real("z"), B.real("inner_t_z"), B.real("inner_inv_t_z")
    B.assume(itz == z)                                 # the inner transformer is invertible (hypothesis of the property)
    t = z3.If(p, z, tz)                                # contract of transform
    inv_arg_is_tz = z3.Not(p)
    r = z3.If(p, t, itz)                               # contract of inverse_transform applied to t (inner inverse of tz is itz)
    return [("roundtrip", r == z)]


# ----------------------------------------------------------------------------- Detrender: subtract / add the trend forecast at the series' own time points
DTR = "sktime/transformations/series/detrend/_detrend.py"
from contracts.C10_update import abstract_forecaster    # noqa: E402
from contracts.C01_split import sym_series              # noqa: E402
from contracts.C07_evaluate import trace as _trace      # noqa: E402


def _dtr_inputs(B, case):
    I = B.I
    ok, cls = I.mod_global(I.src.module("sktime.transformations.series.detrend._detrend"), "Detrender")
    obj = I.instantiate(cls, [abstract_forecaster(B, "configured_trend_forecaster")], {})
    fitted = abstract_forecaster(B, "fitted_trend_forecaster")
    zz = sym_series(B, "z", nonempty=True)
    T = B.arr("trend", dtype="real", shape=[zz.index.len])              # the forecaster's in-sample / out-of-sample forecast

    def predict(I2, o, ev):
        return SSeries(zz.index, T)
    fitted.results = {"predict": predict}
    obj.attrs.update(forecaster_=fitted, _is_fitted=case != "unfitted")
    obj.ghost = dict(T=T, fitted=fitted)
    return {"self": obj, "Z": zz, "X": None}


def _dtr_post(sign):
    def post(A, r):
        g = A.self.ghost
        evs = [e for e in _trace() if e.obj is g["fitted"]]
        if len(evs) != 1 or evs[0].method != "predict" or not isinstance(r, SSeries):
            return False
        fh = evs[0].arg(0)
        fhv = fh.attrs.get("_values") if isinstance(fh, SObj) else None
        if fhv is None:
            return False
        n = A.Z.index.len
        return And(equiv(fhv, A.Z.index), fh.attrs.get("_is_relative") is False,            # forecast asked for exactly the series' time points
                   equiv(r.index, A.Z.index), Eq(r.values.len, n),
                   ForAll(lambda i: Eq(r.values.fn(i), ops.simp(Z(A.Z.values.fn(i)) + sign * Z(g["T"].fn(i)))), 0, n, "i"))
    return post


for _m, _sg in (("transform", -1), ("inverse_transform", 1)):
    contract(f"{DTR}::Detrender.{_m}", "C13,C12", cases=["fitted", "unfitted"], inputs=_dtr_inputs,
             raises=[("NotFittedError", lambda A: A.self.attrs["_is_fitted"] is False)],
             ensures=[("series-minus/plus-the-trend-forecast-at-its-own-time-points-same-index", _dtr_post(_sg), {"modular": False})],
             frame=lambda A: [A.self, A.Z],
             notes=["the fitted trend forecaster is abstract: predict(fh = absolute horizon of the series' own index) returns an arbitrary "
                    "series on that index"])


@lemma("C13/detrender-inverse-restores-the-series", "C13", uses=[f"{DTR}::Detrender.transform", f"{DTR}::Detrender.inverse_transform"])
def _dtr_roundtrip(B):
    """both directions query the SAME fitted forecaster at the SAME time points (contracts above), a deterministic forecaster
    returns the same trend t both times: (z - t) + t == z"""
    z, t = B.real("z"), B.real("t")
    return [("roundtrip", (z - t) + t == z)]


# ----------------------------------------------------------------------------- log / Box-Cox: element-wise, index kept, inverse uses the SAME parameter
BC = "sktime/transformations/series/boxcox.py"


def _ew_inputs(clsname, fitted_lambda):
    def inputs(B, case):
        I = B.I
        ok, cls = I.mod_global(I.src.module("sktime.transformations.series.boxcox"), clsname)
        obj = I.instantiate(cls, [], {})
        obj.attrs["_is_fitted"] = case != "unfitted"
        if fitted_lambda:
            obj.attrs["lambda_"] = B.real("lambda_")
        return {"self": obj, "Z": sym_series(B, "z", nonempty=True), "X": None}
    return inputs


def _ew_post(fname, with_lambda):
    def post(A, r):
        from pyvc.libnp import _real_fun
        from pyvc import spec as _S
        f = _real_fun(_S.CUR.ctx, fname, 2 if with_lambda else 1)
        if not isinstance(r, SSeries):
            return False
        n = A.Z.index.len
        ex = [Z(A.self.attrs["lambda_"])] if with_lambda else []
        return And(equiv(r.index, A.Z.index), Eq(r.values.len, n),
                   ForAll(lambda i: Eq(r.values.fn(i), f(Z(A.Z.values.fn(i)), *ex)), 0, n, "i"))
    return post


for _cls, _m, _fn, _lam in (("LogTransformer", "transform", "log", False), ("LogTransformer", "inverse_transform", "exp", False),
                            ("BoxCoxTransformer", "transform", "boxcox", True), ("BoxCoxTransformer", "inverse_transform", "inv_boxcox", True)):
    contract(f"{BC}::{_cls}.{_m}", "C13,C12", cases=["fitted", "unfitted"], inputs=_ew_inputs(_cls, _lam),
             raises=[("NotFittedError", lambda A: A.self.attrs["_is_fitted"] is False)],
             ensures=[(f"element-wise-{_fn}-with-the-fitted-parameter-on-the-same-index", _ew_post(_fn, _lam))],
             frame=lambda A: [A.self, A.Z],
             notes=["log / exp / boxcox / inv_boxcox are uninterpreted real functions: the contract fixes WHICH function is applied to which "
                    "value with which parameter and that the index is kept; exp(log x) = x and inv_boxcox(boxcox(x, l), l) = x are "
                    "mathematical facts about these functions (assumed, compared numerically by the bounded tier)"])


# ----------------------------------------------------------------------------- fit_transform == fit followed by transform (Box-Cox: the lambda search honours `method` / `bounds`)
def _normmax_returns(A):
    from pyvc import spec as _S
    from pyvc.libmodels import Event
    ctx = _S.CUR.ctx
    lam = ctx.fresh_real("fitted_lambda")
    ctx.trace.append(Event(None, "call:_boxcox_normmax", [A.x], {"bounds": A.bounds, "method": A.method}, lam, getattr(ctx, "loop_k", None)))
    return lam


contract(f"{BC}::_boxcox_normmax", "C13", cases=["-"], assumed=True, inputs=lambda B, case: {}, returns=_normmax_returns,
         notes=["ASSUMED: _boxcox_normmax(x, bounds, method) returns the lambda maximising the chosen criterion (scipy optimiser); recorded "
                "with its arguments"])


def _bcft_inputs(B, case):
    I = B.I
    ok, cls = I.mod_global(I.src.module("sktime.transformations.series.boxcox"), "BoxCoxTransformer")
    obj = I.instantiate(cls, [], {"bounds": B.opaque("bounds"), "method": case})
    return {"self": obj, "Z": sym_series(B, "z", nonempty=True), "X": None}


def _bcft_post(A, r):
    from pyvc.libnp import _real_fun
    from pyvc import spec as _S
    evs = [e for e in _trace() if e.method == "call:_boxcox_normmax"]
    if len(evs) != 1 or not isinstance(r, SSeries):
        return False
    e = evs[0]
    lam = e.result
    f = _real_fun(_S.CUR.ctx, "boxcox", 2)
    n = A.Z.index.len
    return And(e.kwargs.get("method") == A.self.attrs["method"], e.kwargs.get("bounds") is A.self.attrs["bounds"],
               A.self.attrs.get("_is_fitted") is True, A.self.attrs.get("lambda_") is lam,
               equiv(r.index, A.Z.index), ForAll(lambda i: Eq(r.values.fn(i), f(Z(A.Z.values.fn(i)), lam)), 0, n, "i"))


contract(f"{BC}::BoxCoxTransformer.fit_transform", "C13", cases=["mle", "pearsonr", "all"], inputs=_bcft_inputs,
         ensures=[("same-as-fit-then-transform:lambda-searched-with-the-configured-method-and-bounds", _bcft_post, {"modular": False})],
         frame=lambda A: [A.Z],
         notes=["target resolves to whatever fit_transform the class has (today the inherited fit(Z).transform(Z)); the lambda search is an "
                "assumed, recorded contract"])
