"""Contracts of the validation helpers (shared by C01, C04, C20)."""
from pyvc.spec import *   # noqa
from pyvc.values import is_intlike, is_boollike

VAL = "sktime/utils/validation/__init__.py"
VF = "sktime/utils/validation/forecasting.py"

SCALAR_CASES = ["int", "bool", "float", "None", "str", "list"]


def scalar_input(name):
    def inputs(B, case):
        if case == "int":
            return {name: B.int(name)}
        if case == "bool":
            return {name: B.bool(name)}
        if case == "float":
            return {name: B.real(name)}
        if case == "None":
            return {name: None}
        if case == "str":
            return {name: "abc"}
        if case == "list":
            from pyvc.values import SList
            return {name: SList([B.int(name + "0")], "list")}
    return inputs


def is_pos_int(v):
    """valid window/step/sp: an int (not bool) >= 1"""
    if is_intlike(v):
        return v >= 1
    return False


contract(f"{VAL}::is_int", "C20", cases=SCALAR_CASES, inputs=scalar_input("x"),
         returns=lambda A: is_intlike(A.x))

for _fn, _path in (("check_window_length", VAL), ("check_step_length", VF)):
    contract(f"{_path}::{_fn}", "C20,C01", cases=SCALAR_CASES,
             inputs=(lambda nm: (lambda B, case: {nm: scalar_input(nm)(B, case)[nm]}))(
                 "window_length" if _fn == "check_window_length" else "step_length"),
             raises=[("ValueError", (lambda nm: lambda A: Not(Or(getattr(A, nm) is None, is_pos_int(getattr(A, nm)))))(
                 "window_length" if _fn == "check_window_length" else "step_length"))],
             returns=(lambda nm: lambda A: getattr(A, nm))("window_length" if _fn == "check_window_length" else "step_length"))
