"""Contracts of the validation helpers (shared by C01, C04, C20)."""
from pyvc.spec import *   # noqa
from pyvc.values import is_intlike, is_boollike

VAL = "sktime/utils/validation/__init__.py"
VF = "sktime/utils/validation/forecasting.py"

SCALAR_CASES = ["int", "bool", "float", "None", "str", "list"]


def scalar_input(name):
    def inputs(B, case):
        if case == "int":
            return {name: B.int(name)}
        if case == "bool":
            return {name: B.bool(name)}
        if case == "float":
            return {name: B.real(name)}
        if case == "None":
            return {name: None}
        if case == "str":
            return {name: "abc"}
        if case == "list":
            from pyvc.values import SList
            return {name: SList([B.int(name + "0")], "list")}
    return inputs


def is_pos_int(v):
    """valid window/step/sp: an int (not bool) >= 1"""
    if is_intlike(v):
        return v >= 1
    return False


contract(f"{VAL}::is_int", "C20", cases=SCALAR_CASES, inputs=scalar_input("x"),
         returns=lambda A: is_intlike(A.x))

for _fn, _path in (("check_window_length", VAL), ("check_step_length", VF)):
    contract(f"{_path}::{_fn}", "C20,C01", cases=SCALAR_CASES,
             inputs=(lambda nm: (lambda B, case: {nm: scalar_input(nm)(B, case)[nm]}))(
                 "window_length" if _fn == "check_window_length" else "step_length"),
             raises=[("ValueError", (lambda nm: lambda A: Not(Or(getattr(A, nm) is None, is_pos_int(getattr(A, nm)))))(
                 "window_length" if _fn == "check_window_length" else "step_length"))],
             returns=(lambda nm: lambda A: getattr(A, nm))("window_length" if _fn == "check_window_length" else "step_length"))


# ------------------------------------------------------------------------------------------ more helpers
import z3
from pyvc import ops
from pyvc.values import SArr, SList, SSeries, SFrame, SObj, Opaque

VS = "sktime/utils/validation/series.py"
Z = ops.to_z3

contract(f"{VF}::check_sp", "C20", cases=[c + "|" + e for c in SCALAR_CASES for e in ("plain", "list")],
         inputs=lambda B, case: {"sp": scalar_input("sp")(B, case.split("|")[0])["sp"], "enforce_list": case.endswith("list")},
         raises=[("ValueError", lambda A: Not(Or(A.sp is None, is_pos_int(A.sp), A.enforce_list and isinstance(A.sp, SList))))],
         ensures=[("returns-argument-or-singleton-list",
                   lambda A, r: (isinstance(r, SList) and len(r.items) == 1 and r.items[0] is A.sp) if (A.enforce_list and is_intlike(A.sp)) else (r is A.sp))])


def index_input(B, case, name="index"):
    """time index cases: sorted / unsorted / empty integer indexes, a range index, an unsupported index type, numpy"""
    if case in ("Int64Index", "RangeIndex", "ndarray"):
        a = B.arr(name, kind=case)
        return a
    if case == "Float64Index":
        a = B.arr(name, dtype="real", kind="Float64Index")
        return a
    if case == "list":
        return SList([B.int(name + "0")], "list")
    raise KeyError(case)


def monotone(idx):
    return sorted_nondecr(idx)


contract(f"{VS}::check_time_index", "C20,C01", cases=["Int64Index", "RangeIndex", "ndarray", "Float64Index", "Int64Index|allow_empty"],
         inputs=lambda B, case: {"index": index_input(B, case.split("|")[0]), "allow_empty": "allow_empty" in case, "enforce_index_type": None},
         raises=[("NotImplementedError", lambda A: A.index.kind == "Float64Index"),
                 ("ValueError", lambda A: Or(Not(monotone(A.index)), (not A.allow_empty) and Eq(A.index.len, 0)) if A.index.kind != "Float64Index" else False)],
         returns=lambda A: A.index)


def data_input(B, case):
    """Z for check_series: case = container[|index kind]"""
    cont = case.split("|")[0]
    ik = case.split("|")[1] if "|" in case else "Int64Index"
    if cont == "Series":
        idx = index_input(B, ik)
        return SSeries(idx, B.arr("values", n=idx.len, dtype="real"))
    if cont == "DataFrame":
        idx = index_input(B, ik)
        return SFrame(idx, B.arr("values", shape=(idx.len, B.int("ncols", 1)), dtype="real"))
    if cont == "ndarray1":
        return B.arr("values", dtype="real")
    if cont == "ndarray2":
        return B.arr("values", ndim=2, dtype="real")
    if cont == "list":
        return SList([B.real("v0")], "list")
    if cont == "None":
        return None
    raise KeyError(cont)


def index_ok(Zv, allow_empty):
    idx = Zv.index
    return And(monotone(idx), True if allow_empty else Z(idx.len) >= 1)


DATA_CASES = ["Series|Int64Index", "Series|RangeIndex", "Series|Float64Index", "DataFrame|Int64Index", "ndarray1", "ndarray2", "list", "None"]


def _cs_inputs(B, case):
    parts = case.split("/")
    d = {"Z": data_input(B, parts[0]), "enforce_univariate": "uni" in parts[1:], "allow_empty": "empty" in parts[1:],
         "allow_numpy": "nonumpy" not in parts[1:], "enforce_index_type": None}
    return d


def _cs_type_error(A):
    Zv = A.Z
    if isinstance(Zv, (SSeries, SFrame)):
        return False
    if isinstance(Zv, SArr) and Zv.kind == "ndarray":
        return not A.allow_numpy
    return True


def _cs_value_error(A):
    Zv = A.Z
    if _cs_type_error(A):
        return False
    multivariate = isinstance(Zv, SFrame) or (isinstance(Zv, SArr) and Zv.ndim > 1)
    if A.enforce_univariate and multivariate:
        return True
    if isinstance(Zv, (SSeries, SFrame)) and Zv.index.kind != "Float64Index":
        return Not(index_ok(Zv, A.allow_empty))
    return False


def _cs_notimpl(A):
    Zv = A.Z
    if _cs_type_error(A) or not isinstance(Zv, (SSeries, SFrame)):
        return False
    if A.enforce_univariate and isinstance(Zv, SFrame):
        return False
    return Zv.index.kind == "Float64Index"


contract(f"{VS}::check_series", "C20", cases=[c + opt for c in DATA_CASES for opt in ("/", "/uni", "/uni/nonumpy", "/empty")],
         inputs=_cs_inputs,
         raises=[("TypeError", _cs_type_error), ("ValueError", _cs_value_error), ("NotImplementedError", _cs_notimpl)],
         returns=lambda A: A.Z, ensures=[("returns-same-object", lambda A, r: r is A.Z)],
         notes=["check_series returns its argument itself (identity): any later in-place write is a write to the caller's data"])


def _cy_inputs(B, case):
    parts = case.split("/")
    return {"y": data_input(B, parts[0]), "allow_empty": "empty" in parts[1:], "allow_constant": True, "enforce_index_type": None}


contract(f"{VF}::check_y", "C20", cases=[c + opt for c in DATA_CASES for opt in ("/", "/empty")], inputs=_cy_inputs,
         raises=[("TypeError", lambda A: not isinstance(A.y, (SSeries, SFrame))),
                 ("ValueError", lambda A: (True if isinstance(A.y, SFrame) else (Not(index_ok(A.y, A.allow_empty)) if A.y.index.kind != "Float64Index" else False))
                  if isinstance(A.y, (SSeries, SFrame)) else False),
                 ("NotImplementedError", lambda A: isinstance(A.y, SSeries) and A.y.index.kind == "Float64Index")],
         returns=lambda A: A.y, ensures=[("returns-same-object", lambda A, r: r is A.y)])


def _ceti_inputs(B, case):
    y = data_input(B, "Series|Int64Index")
    if case == "same-index":
        X = SFrame(y.index, B.arr("Xv", shape=(y.index.len, B.int("ncols", 1)), dtype="real"))
    else:
        idx2 = B.arr("index2", kind="Int64Index")
        X = SFrame(idx2, B.arr("Xv", shape=(idx2.len, B.int("ncols", 1)), dtype="real"))
    from pyvc.values import SList as _SL
    return {"ys": _SL([y, X], "tuple")}


contract(f"{VS}::check_equal_time_index", "C20", cases=["same-index", "other-index"], inputs=_ceti_inputs,
         raises=[("ValueError", lambda A: Or(Not(index_ok(A.ys.items[0], False)), Not(index_ok(A.ys.items[1], False)),
                                             Not(equiv(A.ys.items[0].index, A.ys.items[1].index))))],
         returns=lambda A: None)


# ---- check_fh --------------------------------------------------------------------------------------
from contracts.C02_fh import sym_fh, vals, sym_values, INT_SEQ


def _cfh_inputs(B, case):
    kind, enf = case.split("/")
    if kind == "FH-rel":
        fh = sym_fh(B, "fh", relative=True)
    elif kind == "FH-abs":
        fh = sym_fh(B, "fh", relative=False)
    else:
        fh = sym_values(B, kind, "fh")
    return {"fh": fh, "enforce_relative": enf == "enforce"}


def _cfh_type_error(A):
    f = A.fh
    if isinstance(f, SObj):
        return False
    if isinstance(f, SArr):
        return f.kind == "tuple"
    if isinstance(f, SList):
        return any(not is_intlike(x) for x in f.items)
    return not is_intlike(f)


def _cfh_value_error(A):
    f = A.fh
    if _cfh_type_error(A):
        return False
    if isinstance(f, SObj):
        return Or(Eq(vals(f).len, 0), A.enforce_relative and not f.attrs["_is_relative"])
    if isinstance(f, SArr):
        return Or(Not(pairwise_distinct(f)), Eq(f.len, 0))
    return False


contract(f"{VF}::check_fh", "C20,C01", cases=[k + "/" + e for k in ("FH-rel", "FH-abs", "int", "list", "ndarray", "Int64Index", "RangeIndex+1",
                                                                     "list-fractional", "str", "float", "None", "tuple") for e in ("plain", "enforce")],
         inputs=_cfh_inputs, raises=[("TypeError", _cfh_type_error), ("ValueError", _cfh_value_error)],
         ensures=[("returns-a-nonempty-horizon", lambda A, r: And(isinstance(r, SObj) and r.cls.name == "ForecastingHorizon",
                                                                  Z(vals(r).len) >= 1, (r is A.fh) if isinstance(A.fh, SObj) else r.attrs["_is_relative"] is True)
                   if isinstance(r, SObj) else False)])


# ---- check_cutoffs / check_alpha / strategies ------------------------------------------------------

contract(f"{VF}::check_cutoffs", "C20,C01", cases=["ndarray", "Int64Index", "list", "None", "ndarray-float"],
         inputs=lambda B, case: {"cutoffs": (B.arr("cutoffs", kind=case) if case in ("ndarray", "Int64Index") else
                                             (B.arr("cutoffs", dtype="real") if case == "ndarray-float" else (SList([B.int("c0")], "list") if case == "list" else None)))},
         raises=[("ValueError", lambda A: Or(not isinstance(A.cutoffs, SArr), Eq(A.cutoffs.len, 0) if isinstance(A.cutoffs, SArr) and A.cutoffs.dtype == "int" else False)),
                 ("AssertionError", lambda A: isinstance(A.cutoffs, SArr) and A.cutoffs.dtype != "int")],
         returns=lambda A: _sorted(A.cutoffs), ensures=[("sorted", lambda A, r: sorted_nondecr(r))],
         notes=["KNOWN: a float-typed cutoffs array is rejected with a bare AssertionError, not ValueError/TypeError (see known findings)"])

def _sorted(a):
    from pyvc.libnp import sort_arr
    from pyvc import spec as _S
    return sort_arr(_S.CUR, a)


ME = "sktime/forecasting/model_evaluation/_functions.py"
contract(f"{ME}::_check_strategy", "C20,C07", cases=["refit", "update", "other", "None"],
         inputs=lambda B, case: {"strategy": {"refit": "refit", "update": "update", "other": "refitt", "None": None}[case]},
         raises=[("ValueError", lambda A: A.strategy not in ("refit", "update"))], returns=lambda A: None)


# ----------------------------------------------------------------------------- ill-formed composites
from pyvc.values import SObj as _SObj, SList as _SList    # noqa: E402
FMETA = "sktime/forecasting/base/_meta.py"
FPIPE = "sktime/forecasting/compose/_pipeline.py"

_COMPOSITE_CASES = {
    # case -> (builder of the `forecasters` value from two abstract forecasters a, b and a non-forecaster x, expected exception or None)
    "valid-2": (lambda a, b, x: _SList([_SList(["f0", a], "tuple"), _SList(["f1", b], "tuple")], "list"), None),
    "valid-1": (lambda a, b, x: _SList([_SList(["f0", a], "tuple")], "list"), None),
    "valid-with-dropped": (lambda a, b, x: _SList([_SList(["f0", a], "tuple"), _SList(["f1", "drop"], "tuple")], "list"), None),
    "none": (lambda a, b, x: None, "ValueError"),
    "empty": (lambda a, b, x: _SList([], "list"), "ValueError"),
    "tuple-not-list": (lambda a, b, x: _SList([_SList(["f0", a], "tuple")], "tuple"), "ValueError"),
    "duplicate-names": (lambda a, b, x: _SList([_SList(["f0", a], "tuple"), _SList(["f0", b], "tuple")], "list"), "ValueError"),
    "name-is-a-constructor-argument": (lambda a, b, x: _SList([_SList(["forecasters", a], "tuple"), _SList(["f1", b], "tuple")], "list"), "ValueError"),
    "name-with-double-underscore": (lambda a, b, x: _SList([_SList(["f__0", a], "tuple"), _SList(["f1", b], "tuple")], "list"), "ValueError"),
    "all-dropped": (lambda a, b, x: _SList([_SList(["f0", "drop"], "tuple"), _SList(["f1", None], "tuple")], "list"), "ValueError"),
    "member-is-not-a-forecaster": (lambda a, b, x: _SList([_SList(["f0", a], "tuple"), _SList(["f1", x], "tuple")], "list"), "ValueError"),
}


def _comp_inputs(B, case):
    from contracts.C10_update import abstract_forecaster
    I = B.I
    ok, cls = I.mod_global(I.src.module("sktime.forecasting.compose._ensemble"), "EnsembleForecaster")
    a, b = abstract_forecaster(B, "member a"), abstract_forecaster(B, "member b")
    a.closed_isa = b.closed_isa = True
    x = B.abstract("not a forecaster", isa=("BaseEstimator",))
    x.closed_isa = True
    kls = B.opaque("class of the non-forecaster")
    kls.attrs = {"__name__": "SomethingElse"}
    x.attrs["__class__"] = kls
    val = _COMPOSITE_CASES[case][0](a, b, x)
    obj = I.instantiate(cls, [val], {})
    obj.ghost_case = case
    return {"self": obj}


def _comp_post(A, r):
    f = A.self.attrs["forecasters"]
    names, members = r.items if isinstance(r, _SList) and len(r.items) == 2 else (None, None)
    if names is None:
        return False
    want_names = [t.items[0] for t in f.items]
    want_members = [t.items[1] for t in f.items]
    return list(names.items) == want_names and all(m is w for m, w in zip(members.items, want_members)) and len(members.items) == len(want_members)


contract(f"{FMETA}::_HeterogenousEnsembleForecaster._check_forecasters", "C20,C09", cases=list(_COMPOSITE_CASES), inputs=_comp_inputs,
         raises=[("ValueError", lambda A: _COMPOSITE_CASES[A.self.ghost_case][1] == "ValueError")],
         ensures=[("returns-names-and-members-in-the-given-order", _comp_post)], frame=lambda A: [A.self],
         notes=["ill-formed composites by enumerated class (None, empty, not a list, duplicate / reserved / dunder names, all dropped, a "
                "member that is not a forecaster); members abstract"])


_STEP_CASES = {
    "valid": (lambda t, f, x: _SList([_SList(["t", t], "tuple"), _SList(["f", f], "tuple")], "list"), None),
    "valid-no-transformer": (lambda t, f, x: _SList([_SList(["f", f], "tuple")], "list"), None),
    "duplicate-names": (lambda t, f, x: _SList([_SList(["s", t], "tuple"), _SList(["s", f], "tuple")], "list"), "ValueError"),
    "name-is-a-constructor-argument": (lambda t, f, x: _SList([_SList(["steps", t], "tuple"), _SList(["f", f], "tuple")], "list"), "ValueError"),
    "intermediate-step-is-not-a-series-transformer": (lambda t, f, x: _SList([_SList(["t", x], "tuple"), _SList(["f", f], "tuple")], "list"), "TypeError"),
    "last-step-is-not-a-forecaster": (lambda t, f, x: _SList([_SList(["t", t], "tuple"), _SList(["f", x], "tuple")], "list"), "TypeError"),
    "forecaster-in-the-middle": (lambda t, f, x: _SList([_SList(["g", f], "tuple"), _SList(["f", f], "tuple")], "list"), "TypeError"),
}


def _steps_inputs(B, case):
    from contracts.C10_update import abstract_forecaster
    I = B.I
    ok, cls = I.mod_global(I.src.module("sktime.forecasting.compose._pipeline"), "TransformedTargetForecaster")
    t = B.abstract("series transformer", isa=("_SeriesToSeriesTransformer", "BaseTransformer", "BaseEstimator"))
    f = abstract_forecaster(B, "final forecaster")
    x = B.abstract("something else", isa=("BaseEstimator",))
    t.closed_isa = f.closed_isa = x.closed_isa = True
    obj = I.instantiate(cls, [_STEP_CASES[case][0](t, f, x)], {})
    obj.ghost_case = case
    return {"self": obj}


contract(f"{FPIPE}::TransformedTargetForecaster._check_steps", "C20,C09", cases=list(_STEP_CASES), inputs=_steps_inputs,
         raises=[("ValueError", lambda A: _STEP_CASES[A.self.ghost_case][1] == "ValueError"),
                 ("TypeError", lambda A: _STEP_CASES[A.self.ghost_case][1] == "TypeError")],
         ensures=[("returns-a-copy-of-the-steps-in-order",
                   lambda A, r: isinstance(r, _SList) and r is not A.self.attrs["steps"] and
                   all(a is b for a, b in zip(r.items, A.self.attrs["steps"].items)) and len(r.items) == len(A.self.attrs["steps"].items))],
         frame=lambda A: [A.self])
