"""C16 / C14 / C12: fitted panel estimators map each instance on its own.

Proved row form (output row i is a function of input row i and the fitted state only) for the row transformers; the
forests, ensembles and label decoding of contracts/C17_classify.py carry the same form (they are tagged C16 there).
The lemma at the end derives the three consequences the property names from the row form."""
from pyvc.spec import *   # noqa
from pyvc.values import SArr, SList, SObj, Opaque, AbstractObj, SFrame
from pyvc.libmodels import Event, ghost_fun
from pyvc import ops
import z3
from contracts.C07_evaluate import trace
from contracts.C17_classify import _panel3, _native

PC = "sktime/transformations/panel/compose.py"
DP = "sktime/utils/data_processing.py"
Z = ops.to_z3


def _cur():
    from pyvc import spec as _S
    return _S.CUR


def _row_inputs(clsname, isa):
    def inputs(B, case):
        I = B.I
        ok, cls = I.mod_global(I.src.module("sktime.transformations.panel.compose"), clsname)
        obj = SObj(cls)
        X = _panel3(B)
        c = X.shape[1]
        tr = B.abstract("series_transformer", isa=(isa, "BaseTransformer", "BaseEstimator"))
        tr.closed_isa = True
        if case == "wrong-type":
            tr.isa = {"BaseTransformer", "BaseEstimator"}

        def fit_transform(I2, o, ev):
            k = ev.loop_k if ev.loop_k is not None else 0
            if clsname == "SeriesToPrimitivesRowTransformer":
                R = ghost_fun(I2, "fit_transform", z3.RealSort())       # not used: one value per (instance, column) below
                f = _rfun(I2)
                return SArr((c,), lambda j: f(Z(k), Z(j)), "real", "ndarray")
            out = Opaque("transformed series of instance", prov=("fit_transform", o, k))

            def T(I3, recv, a, kw):
                return Opaque("transposed", prov=("T", out))
            out.attrs = {"T": Opaque("transposed", prov=("T", out))}
            return out
        tr.results = {"fit_transform": fit_transform}
        obj.attrs.update(_is_fitted=True, transformer=tr, check_transformer=case != "unchecked")
        obj.ghost = dict(tr=tr, X=X)
        return {"self": obj, "X": X, "y": None}
    return inputs


def _rfun(I):
    memo = I.ctx.__dict__.setdefault("ghost_funs", {})
    if "row_result" not in memo:
        memo["row_result"] = z3.Function("row_result", z3.IntSort(), z3.IntSort(), z3.RealSort())
    return memo["row_result"]


def _row_events(S, evs):
    """iteration k: ONE fit_transform, on a fresh clone of the configured transformer, of instance k only, laid out (time, column)"""
    g = S.A.self.ghost
    X, tr = g["X"], g["tr"]
    ft = [e for e in evs if e.method == "fit_transform"]
    other = [e for e in evs if e.obj is not None and e.method not in ("fit_transform", "clone")]
    if len(ft) != 1 or other:
        return False
    e = ft[0]
    a = e.arg(0) if len(e.args) == 1 else None
    if getattr(e.obj, "clone_of", None) is not tr or not isinstance(a, SArr) or a.ndim != 2:
        return False
    L, c = X.shape[2], X.shape[1]
    return And(Eq(a.shape[0], L), Eq(a.shape[1], c),
               ForAll(lambda t: ForAll(lambda j: Eq(a.fn(t, j), X.fn(S.k, j, t)), 0, c, "j"), 0, L, "t"))


def _prim_inv(S):
    X = S.A.self.ghost["X"]
    n, c = X.shape[0], X.shape[1]
    Xt = S.Xt
    f = _rfun(_cur())
    return And(Eq(Xt.shape[0], n), Eq(Xt.shape[1], c), S.X is X or equiv(S.X, X),
               ForAll(lambda i: ForAll(lambda j: Eq(Xt.fn(i, j), f(Z(i), Z(j))), 0, c, "j"), 0, S.k, "i"))


def _prim_post(A, r):
    X = A.self.ghost["X"]
    n, c = X.shape[0], X.shape[1]
    f = _rfun(_cur())
    if not isinstance(r, SFrame):
        return False
    return And(Eq(r.index.len, n), Eq(r.values.shape[1], c),
               ForAll(lambda i: ForAll(lambda j: Eq(r.values.fn(i, j), f(Z(i), Z(j))), 0, c, "j"), 0, n, "i"))


contract(f"{PC}::SeriesToPrimitivesRowTransformer.transform", "C16,C14,C12", cases=["-", "unchecked", "wrong-type"],
         inputs=_row_inputs("SeriesToPrimitivesRowTransformer", "_SeriesToPrimitivesTransformer"),
         raises=[("TypeError", lambda A: A.self.attrs["check_transformer"] and "_SeriesToPrimitivesTransformer" not in A.self.attrs["transformer"].isa)],
         invariants={0: _prim_inv}, events={0: _row_events},
         ensures=[("row-i-is-the-wrapped-transformers-output-for-instance-i", _prim_post)],
         frame=lambda A: [A.X],
         notes=["the wrapped transformer is abstract; its output for (instance k) is the uninterpreted row_result(k, .); "
                "transform stores the per-instance clones in self.transformer_ (the estimator object is written, the data is not)"])


def _nested_of(A):
    x = A.X
    return Opaque("nested frame of one instance", prov=("nested", x))


contract(f"{DP}::from_2d_array_to_nested", "C16,C15", cases=["-"], assumed=True, inputs=lambda B, case: {},
         applicable=lambda A: isinstance(A.X, Opaque) or (isinstance(A.X, SArr) and A.X.ndim == 2),
         returns=lambda A: (lambda o: (setattr(o, "attrs", {"T": Opaque("transposed nested", prov=("T", o))}) or o))(_nested_of(A)),
         notes=["ASSUMED: from_2d_array_to_nested(a) has one row per row of a, cell = that row as a series (bounded tier: C15)"])


def _s2s_havoc(I, S):
    n = I.ctx.fresh_int("len(xts)")
    I.ctx.assume(n >= 0)
    o = Opaque("accumulated list")
    o.listlen = n
    appended = []
    o.appended = appended
    o.opaque_methods = {"append": lambda I2, recv, a, kw: appended.append(a[0])}
    return o


def _s2s_events(S, evs):
    base = _row_events(S, evs)
    if base is False:
        return False
    ft = [e for e in evs if e.method == "fit_transform"][0]
    xs = S.xts
    if isinstance(xs, Opaque):
        app = xs.appended
    else:
        app = xs.items
    if len(app) != 1:
        return False
    it = app[0]            # from_2d_array_to_nested(xt.T).T  of THIS instance's output
    ok = isinstance(it, Opaque) and it.prov and it.prov[0] == "T" and it.prov[1].prov[0] == "nested" and \
        it.prov[1].prov[1].prov == ("T", ft.result)
    return And(base, ok)


def _concat_returns(I, args, kwargs):
    return Opaque("pd.concat", prov=("concat", args[0], kwargs.get("axis")))


contract(f"{PC}::SeriesToSeriesRowTransformer.transform", "C16,C14,C12", cases=["-", "unchecked", "wrong-type"],
         inputs=_row_inputs("SeriesToSeriesRowTransformer", "_SeriesToSeriesTransformer"),
         raises=[("TypeError", lambda A: A.self.attrs["check_transformer"] and "_SeriesToSeriesTransformer" not in A.self.attrs["transformer"].isa)],
         invariants={0: lambda S: True}, events={0: _s2s_events}, loop_havoc={0: {"xts": _s2s_havoc}},
         ensures=[("rows-concatenated-in-instance-order",
                   lambda A, r: isinstance(r, Opaque) and r.prov is not None and r.prov[0] == "concat" and r.prov[2] == 0)],
         frame=lambda A: [A.X],
         notes=["per iteration: one fit_transform of a fresh clone on instance k, its output appended as the k-th block; pd.concat(axis=0) "
                "keeps block order (pandas, assumed)"])


# ----------------------------------------------------------------------------- consequences of the row form
@lemma("C16/row-form-implies-permutation-subselection-and-single-instance-consistency", "C16",
       uses=[f"{PC}::SeriesToPrimitivesRowTransformer.transform", f"{PC}::SeriesToSeriesRowTransformer.transform",
             "sktime/classification/interval_based/_tsf.py::TimeSeriesForestClassifier.predict_proba",
             "sktime/regression/interval_based/_tsf.py::TimeSeriesForestRegressor.predict",
             "sktime/classification/compose/_column_ensemble.py::BaseColumnEnsembleClassifier.predict_proba",
             "sktime/classification/dictionary_based/_boss.py::BOSSEnsemble.predict_proba"])
def _row_form(B):
    """The contracts above have the ROW FORM  out(X)[i] = g(X[i])  for a g fixed by the fitted state (instances are values of an
    uninterpreted sort; X, X' : position -> instance).  For any re-indexing s (a permutation, a sub-selection, or the
    single-instance batch s(0) = i) the batch X' = X o s has out(X')[k] = out(X)[s(k)], and the number of rows is that of the input."""
    Inst = z3.DeclareSort("Instance")
    Row = z3.DeclareSort("OutputRow")
    g = z3.Function("g", Inst, Row)
    X = z3.Function("X", z3.IntSort(), Inst)
    X2 = z3.Function("X2", z3.IntSort(), Inst)
    out = z3.Function("out", z3.IntSort(), Row)
    out2 = z3.Function("out2", z3.IntSort(), Row)
    s = z3.Function("s", z3.IntSort(), z3.IntSort())
    n, n2 = B.int("n", 1), B.int("n2", 1)
    i = z3.Int("i")
    B.assume(z3.ForAll([i], z3.Implies(z3.And(i >= 0, i < n), out(i) == g(X(i)))))          # row form on X
    B.assume(z3.ForAll([i], z3.Implies(z3.And(i >= 0, i < n2), out2(i) == g(X2(i)))))       # row form on X'
    B.assume(z3.ForAll([i], z3.Implies(z3.And(i >= 0, i < n2), z3.And(s(i) >= 0, s(i) < n, X2(i) == X(s(i))))))
    k = B.int("k", 0)
    B.assume(k < n2)
    return [("re-indexed-batch-gives-re-indexed-rows", out2(k) == out(s(k)))]
