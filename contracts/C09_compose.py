"""C09 (and the composite part of C10): composite forecasters mean the composition of their parts.

Members, transformers and meta-regressors are ABSTRACT objects (ghost trace, provenance of the data they are
given).  Compositions are verified for 1..3 members / 0..3 transformers -- the bound is on the NUMBER of
components only, each component is universally quantified (it may itself be any composite honouring the
interface)."""
from pyvc.spec import *   # noqa
from pyvc.values import SArr, SList, SObj, Opaque, SSeries, SFrame, AbstractObj, SDict
from pyvc.libmodels import Event
from pyvc import ops
import z3
from contracts.C02_fh import sym_fh, vals, mk_fh
from contracts.C01_split import sym_series, sym_frame
from contracts.C07_evaluate import forecaster as abstract_forecaster, trace

PIPE = "sktime/forecasting/compose/_pipeline.py"
Z = ops.to_z3


def transformer(B, i, skip_inverse=False, has_update=True):
    t = B.abstract(f"transformer[{i}]", isa=("_SeriesToSeriesTransformer", "BaseTransformer", "BaseEstimator"))
    t.closed_isa = True
    t.results = {"_all_tags": lambda I, obj, ev: SDict({"skip-inverse-transform": True} if skip_inverse else {})}
    if not has_update:
        t.absent = {"update"}
    t.skip_inverse = skip_inverse
    return t


def mk_pipeline(B, T, skips=(), no_update=()):
    I = B.I
    mod = I.src.module("sktime.forecasting.compose._pipeline")
    ok, cls = I.mod_global(mod, "TransformedTargetForecaster")
    ts = [transformer(B, i, i in skips, i not in no_update) for i in range(T)]
    f = abstract_forecaster(B, "final_forecaster")
    f.closed_isa = True
    steps = SList([SList([f"t{i}", t], "tuple") for i, t in enumerate(ts)] + [SList(["forecaster", f], "tuple")], "list")
    obj = I.instantiate(cls, [steps], {})
    obj.ghost_steps0 = [tuple(st.items) for st in steps.items]      # the constructor argument as passed
    return obj, ts, f, steps


def clone_of(orig):
    return [e.result for e in trace() if e.method == "clone" and e.obj is orig]


def calls(obj, method=None):
    return [e for e in trace() if e.obj is obj and (method is None or e.method == method)]


PIPE_CASES = ["T0", "T1", "T2", "T3", "T2|skip1", "T2|noupdate0"]


def _pipe_case(case):
    parts = case.split("|")
    T = int(parts[0][1:])
    skips = tuple(int(p[4:]) for p in parts[1:] if p.startswith("skip"))
    noup = tuple(int(p[8:]) for p in parts[1:] if p.startswith("noupdate"))
    return T, skips, noup


def _pipe_fit_inputs(B, case):
    T, skips, noup = _pipe_case(case)
    obj, ts, f, steps = mk_pipeline(B, T, skips, noup)
    y = sym_series(B)
    return {"self": obj, "y": y, "X": None, "fh": sym_fh(B, "fh", nonempty=True, oos=True)}


def _pipe_fit_post(A, r):
    """transformer k is a fresh clone fitted by fit_transform on the output of transformer k-1 (the raw series for k=0);
    the final forecaster is a fresh clone fitted on the fully transformed series; the originals are untouched"""
    s = A.self
    steps = s.attrs["steps"].items
    T = len(steps) - 1
    fitted = s.attrs.get("steps_")
    if not isinstance(fitted, SList) or len(fitted.items) != T + 1:
        return False
    data = A.y
    conds = [r is s, s.attrs.get("_is_fitted") is True]
    for k in range(T):
        orig = steps[k].items[1]
        cl = clone_of(orig)
        if len(cl) != 1:
            return False
        ft = calls(cl[0])
        if len(ft) != 1 or ft[0].method != "fit_transform" or calls(orig, "fit_transform") or calls(orig, "fit"):
            return False
        conds += [fitted.items[k].items[1] is cl[0], fitted.items[k].items[0] == steps[k].items[0],
                  (ft[0].arg(0) is data) if k > 0 else equiv(ft[0].arg(0), data)]
        data = ft[0].result
    forig = steps[T].items[1]
    fcl = clone_of(forig)
    if len(fcl) != 1 or calls(forig, "fit"):
        return False
    ff = calls(fcl[0])
    if len(ff) != 1 or ff[0].method != "fit":
        return False
    conds += [fitted.items[T].items[1] is fcl[0], (ff[0].arg(0, "y") is data) if T > 0 else equiv(ff[0].arg(0, "y"), data),
              ff[0].arg(2, "fh") is A.fh]
    # constructor parameter untouched
    now = s.attrs["steps"]
    conds.append(isinstance(now, SList) and len(now.items) == len(s.ghost_steps0) and
                 all(isinstance(st, SList) and st.items[0] == n0 and st.items[1] is e0 for st, (n0, e0) in zip(now.items, s.ghost_steps0)))
    return And(*conds)


contract(f"{PIPE}::TransformedTargetForecaster.fit", "C09,C04", cases=PIPE_CASES, inputs=_pipe_fit_inputs,
         ensures=[("transformers-fitted-in-order-forecaster-on-fully-transformed-series", _pipe_fit_post)])


def fitted_pipeline(B, case):
    T, skips, noup = _pipe_case(case)
    obj, ts, f, steps = mk_pipeline(B, T, skips, noup)
    y = sym_series(B)
    # state after fit: steps_ holds the fitted (abstract) clones
    obj.attrs.update({"steps_": SList([SList([f"t{i}", t], "tuple") for i, t in enumerate(ts)] + [SList(["forecaster", f], "tuple")], "list"),
                      "_is_fitted": True, "_y": y, "_X": None, "_cutoff": ops.simp(Z(y.index.closed[0]) + Z(y.index.len) - 1),
                      "_fh": sym_fh(B, "fh", nonempty=True, oos=True)})
    return obj, ts, f, y


def _pipe_pred_inputs(B, case):
    obj, ts, f, y = fitted_pipeline(B, case)
    return {"self": obj, "fh": obj.attrs["_fh"], "X": None}


def _pipe_pred_post(A, r):
    """forecast of the final forecaster, inverse-transformed by the transformers in REVERSE order (those tagged
    skip-inverse-transform are skipped)"""
    s = A.self
    st = s.attrs["steps_"].items
    T = len(st) - 1
    f = st[T].items[1]
    pf = calls(f, "predict")
    if len(pf) != 1 or pf[0].arg(0, "fh") is not A.fh:
        return False
    data = pf[0].result
    conds = []
    order = []
    for k in reversed(range(T)):
        t = st[k].items[1]
        inv = calls(t, "inverse_transform")
        if getattr(t, "skip_inverse", False):
            conds.append(len(inv) == 0)
            continue
        if len(inv) != 1:
            return False
        conds.append(inv[0].arg(0) is data)
        order.append(inv[0])
        data = inv[0].result
    tr = trace()
    conds.append(all(tr.index(a) < tr.index(b) for a, b in zip(order, order[1:])))
    conds.append(r is data)
    return And(*conds)


contract(f"{PIPE}::TransformedTargetForecaster._predict", "C09,C12", cases=PIPE_CASES, inputs=_pipe_pred_inputs,
         ensures=[("inverse-transforms-in-reverse-order", _pipe_pred_post)], frame=lambda A: [A.self])


def _pipe_upd_inputs(B, case):
    obj, ts, f, y = fitted_pipeline(B, case)
    n, l0 = y.index.len, y.index.closed[0]
    m = B.int("m", 1)
    ynew = sym_series(B, "ynew", n=m, l0=ops.simp(Z(l0) + Z(n)))     # the next batch, in time order
    return {"self": obj, "y": ynew, "X": None, "update_params": B.bool("update_params")}


def _pipe_upd_post(A, r):
    """every transformer is updated with / transforms the data in ITS OWN input representation (output of the
    previous transformer); the final forecaster is updated with the fully transformed batch"""
    s = A.self
    st = s.attrs["steps_"].items
    T = len(st) - 1
    data = A.y
    conds = [r is s]
    for k in range(T):
        t = st[k].items[1]
        up = calls(t, "update")
        trf = calls(t, "transform")
        if "update" in getattr(t, "absent", ()):
            conds.append(len(up) == 0)
        else:
            if len(up) != 1:
                return False
            conds += [(up[0].arg(0) is data) if k > 0 else equiv(up[0].arg(0), data), up[0].kwargs.get("update_params") is A.update_params]
        if len(trf) != 1:
            return False
        conds.append((trf[0].arg(0) is data) if k > 0 else equiv(trf[0].arg(0), data))
        data = trf[0].result
    f = st[T].items[1]
    fu = calls(f, "update")
    if len(fu) != 1 or calls(f, "fit"):
        return False
    conds += [(fu[0].arg(0) is data) if T > 0 else equiv(fu[0].arg(0), data), fu[0].kwargs.get("update_params") is A.update_params]
    return And(*conds)


contract(f"{PIPE}::TransformedTargetForecaster.update", "C09,C10", cases=PIPE_CASES, inputs=_pipe_upd_inputs,
         ensures=[("update-threads-transformed-data-down-the-pipeline", _pipe_upd_post)])


# ----------------------------------------------------------------------------- ensemble ------------------------
ENS = "sktime/forecasting/compose/_ensemble.py"


def mk_members(B, m):
    ms = []
    for i in range(m):
        f = abstract_forecaster(B, f"member[{i}]")
        f.closed_isa = True
        ms.append(f)
    return ms, SList([SList([f"f{i}", f], "tuple") for i, f in enumerate(ms)], "list")


def mk_ensemble(B, m, aggfunc):
    I = B.I
    mod = I.src.module("sktime.forecasting.compose._ensemble")
    ok, cls = I.mod_global(mod, "EnsembleForecaster")
    ms, lst = mk_members(B, m)
    obj = I.instantiate(cls, [lst], {"aggfunc": aggfunc})
    return obj, ms


ENS_CASES = [f"m{m}|{a}" for m in (1, 2, 3) for a in ("mean", "median", "min", "max")] + ["m2|bogus"]


def _ens_fit_inputs(B, case):
    m, agg = case.split("|")
    obj, ms = mk_ensemble(B, int(m[1:]), agg)
    y = sym_series(B)
    return {"self": obj, "y": y, "X": None, "fh": sym_fh(B, "fh", nonempty=True, oos=True)}


def _members_fitted_post(orig_attr="forecasters"):
    def post(A, r):
        """forecasters_[i] is a fresh clone of member i fitted on (y, X, fh); originals untouched"""
        s = A.self
        origs = [t.items[1] for t in s.attrs[orig_attr].items]
        fitted = s.attrs.get("forecasters_")
        if not isinstance(fitted, SList) or len(fitted.items) != len(origs):
            return False
        conds = [r is s, s.attrs.get("_is_fitted") is True]
        for i, o in enumerate(origs):
            cl = clone_of(o)
            if len(cl) != 1 or calls(o, "fit"):
                return False
            ff = calls(cl[0])
            if len(ff) != 1 or ff[0].method != "fit":
                return False
            conds += [fitted.items[i] is cl[0], equiv(ff[0].arg(0, "y"), A.y), ff[0].arg(1, "X") is A.X, ff[0].arg(2, "fh") is A.fh]
        return And(*conds)
    return post


contract(f"{ENS}::EnsembleForecaster.fit", "C09,C12", cases=[c for c in ENS_CASES if "bogus" not in c][::4] + ["m2|median"], inputs=_ens_fit_inputs,
         ensures=[("members-are-independent-clones-fitted-on-the-same-data", _members_fitted_post())])


def fitted_ensemble(B, case):
    m, agg = case.split("|")
    obj, ms = mk_ensemble(B, int(m[1:]), agg)
    y = sym_series(B)
    obj.attrs.update({"forecasters_": SList(ms, "list"), "_is_fitted": True, "_y": y, "_X": None,
                      "_cutoff": ops.simp(Z(y.index.closed[0]) + Z(y.index.len) - 1), "_fh": sym_fh(B, "fh", nonempty=True, oos=True)})
    return obj, ms


def _ens_pred_post(A, r):
    s = A.self
    ms = s.attrs["forecasters_"].items
    preds = []
    for f in ms:
        p = calls(f, "predict")
        if len(p) != 1 or p[0].arg(0, "fh") is not A.fh:
            return False
        preds.append(p[0].result)
    if not isinstance(r, Opaque) or not r.prov or r.prov[0] != "rowwise":
        return False
    _, name, axis, parts = r.prov
    return name == s.attrs["aggfunc"] and axis == 1 and len(parts) == len(preds) and all(a is b for a, b in zip(parts, preds))


contract(f"{ENS}::EnsembleForecaster._predict", "C09,C12", cases=ENS_CASES,
         inputs=lambda B, case: (lambda o: {"self": o[0], "fh": o[0].attrs["_fh"], "X": None})(fitted_ensemble(B, case)),
         raises=[("ValueError", lambda A: A.self.attrs["aggfunc"] not in ("median", "mean", "min", "max"))],
         ensures=[("row-wise-aggregate-of-member-forecasts-in-member-order", _ens_pred_post)], frame=lambda A: [A.self])


def _batch(B, y):
    n, l0 = y.index.len, y.index.closed[0]
    return sym_series(B, "ynew", n=B.int("m", 1), l0=ops.simp(Z(l0) + Z(n)))


def _members_updated_post(A, r):
    s = A.self
    conds = [r is s]
    for f in s.attrs["forecasters_"].items:
        u = calls(f, "update")
        if len(u) != 1 or calls(f, "fit"):
            return False
        conds += [equiv(u[0].arg(0, "y"), A.y), u[0].kwargs.get("update_params") is A.update_params]
    return And(*conds)


contract(f"{ENS}::EnsembleForecaster.update", "C09,C10", cases=["m1|mean", "m2|mean", "m3|mean"],
         inputs=lambda B, case: (lambda o: {"self": o[0], "y": _batch(B, o[0].attrs["_y"]), "X": None, "update_params": B.bool("update_params")})(fitted_ensemble(B, case)),
         ensures=[("every-member-updated-once-with-the-batch", _members_updated_post)])


# ----------------------------------------------------------------------------- multiplexer ---------------------
MUX = "sktime/forecasting/compose/_multiplexer.py"


def mk_mux(B, m, sel, refit=False):
    I = B.I
    mod = I.src.module("sktime.forecasting.compose._multiplexer")
    ok, cls = I.mod_global(mod, "MultiplexForecaster")
    ms, lst = mk_members(B, m)
    obj = I.instantiate(cls, [lst], {"selected_forecaster": sel})
    if refit:
        # state after an earlier fit with ANOTHER selection followed by set_params(selected_forecaster=sel)
        old = abstract_forecaster(B, "previously_selected_clone")
        y0 = sym_series(B, "y_old", n=B.int("n_old", 1), l0=B.int("l0_old"))
        obj.attrs.update({"_forecaster": old, "_is_fitted": True, "_y": y0, "_X": None, "_cutoff": B.int("old_cutoff"),
                          "_fh": sym_fh(B, "fh_old", nonempty=True, oos=True)})
    return obj, ms


MUX_CASES = ["m1|f0", "m2|f0", "m2|f1", "m3|f1", "m3|f2", "m2|zzz", "m2|None", "m2|f1|refit", "m3|f0|refit"]


def _sel(case):
    s = case.split("|")[1]
    return None if s == "None" else s


def _mux_fit_post(A, r):
    s = A.self
    names = [t.items[0] for t in s.attrs["forecasters"].items]
    origs = [t.items[1] for t in s.attrs["forecasters"].items]
    i = names.index(s.attrs["selected_forecaster"])
    cl = clone_of(origs[i])
    if len(cl) != 1:
        return False
    others_untouched = all(not calls(o) or all(e.method == "clone" for e in calls(o)) for j, o in enumerate(origs))
    ff = calls(cl[0])
    if len(ff) != 1 or ff[0].method != "fit":
        return False
    only_selected_cloned = all((len(clone_of(o)) == (1 if j == i else 0)) for j, o in enumerate(origs))
    return And(r is s, s.attrs.get("_forecaster") is cl[0], others_untouched, only_selected_cloned,
               equiv(ff[0].arg(0, "y"), A.y), ff[0].kwargs.get("X") is A.X, ff[0].kwargs.get("fh") is A.fh)


contract(f"{MUX}::MultiplexForecaster.fit", "C09,C20", cases=MUX_CASES,
         inputs=lambda B, case: (lambda o: {"self": o[0], "y": sym_series(B), "X": None, "fh": sym_fh(B, "fh", nonempty=True, oos=True)})(
             mk_mux(B, int(case.split("|")[0][1:]), _sel(case), refit=case.endswith("refit"))),
         raises=[("ValueError", lambda A: A.self.attrs["selected_forecaster"] not in [t.items[0] for t in A.self.attrs["forecasters"].items])],
         ensures=[("behaves-like-a-clone-of-the-selected-member", _mux_fit_post)])


def fitted_mux(B, case):
    obj, ms = mk_mux(B, int(case.split("|")[0][1:]), _sel(case))
    y = sym_series(B)
    sel = abstract_forecaster(B, "selected_clone")
    obj.attrs.update({"_forecaster": sel, "_is_fitted": True, "_y": y, "_X": None,
                      "_cutoff": ops.simp(Z(y.index.closed[0]) + Z(y.index.len) - 1), "_fh": sym_fh(B, "fh", nonempty=True, oos=True)})
    return obj, sel


def _mux_pred_post(A, r):
    f = A.self.attrs["_forecaster"]
    p = calls(f, "predict")
    return len(p) == 1 and p[0].arg(0, "fh") is A.fh and p[0].arg(1, "X") is A.X and r is p[0].result and len([e for e in trace() if e.obj is not None]) == 1


contract(f"{MUX}::MultiplexForecaster._predict", "C09,C12", cases=["m2|f1"],
         inputs=lambda B, case: (lambda o: {"self": o[0], "fh": o[0].attrs["_fh"], "X": None})(fitted_mux(B, case)),
         ensures=[("forwards-to-the-selected-member", _mux_pred_post)], frame=lambda A: [A.self])
contract(f"{MUX}::MultiplexForecaster.update", "C09,C10", cases=["m2|f1"],
         inputs=lambda B, case: (lambda o: {"self": o[0], "y": _batch(B, o[0].attrs["_y"]), "X": None, "update_params": B.bool("update_params")})(fitted_mux(B, case)),
         ensures=[("forwards-to-the-selected-member",
                   lambda A, r: (lambda u: len(u) == 1 and equiv(u[0].arg(0, "y"), A.y) is not False and u[0].kwargs.get("update_params") is A.update_params and r is A.self)(
                       calls(A.self.attrs["_forecaster"], "update")))])


# ----------------------------------------------------------------------------- stacking ------------------------
STK = "sktime/forecasting/compose/_stack.py"
from contracts.C01_split import fh_last


def meta_regressor(B):
    r = B.abstract("final_regressor", isa=("RegressorMixin", "BaseEstimator"))
    return r


def mk_stack(B, m):
    I = B.I
    mod = I.src.module("sktime.forecasting.compose._stack")
    ok, cls = I.mod_global(mod, "StackingForecaster")
    ms, lst = mk_members(B, m)
    reg = meta_regressor(B)
    obj = I.instantiate(cls, [lst, reg], {})
    return obj, ms, reg


def _stk_fit_post(A, r):
    """members (fresh clones) are first fitted on the series WITHOUT its final window; the meta-regressor (a fresh clone)
    is fitted once, on (stacked member forecasts for that held-out window, the held-out observations cutoff+fh);
    afterwards fresh clones of the members are fitted on the whole series"""
    s = A.self
    origs = [t.items[1] for t in s.attrs["forecasters"].items]
    reg = s.attrs["final_regressor"]
    m = len(origs)
    y = A.y
    n, l0 = Z(y.index.len), Z(y.index.closed[0])
    fhv = vals(A.fh)
    fmax = fh_last(A.fh)
    ntrain = ops.simp(n - fmax)
    from contracts.C01_split import rows
    y_head = rows(y, 0, ntrain)
    held_out = Seq(fhv.len, lambda i: y.values.fn(ops.simp(ntrain - 1 + Z(fhv.fn(i)))), dtype="real", kind="ndarray")
    conds = [r is s]
    first_preds = []
    final = s.attrs.get("forecasters_")
    if not isinstance(final, SList) or len(final.items) != m:
        return False
    tr = trace()
    for i, o in enumerate(origs):
        cl = clone_of(o)
        if len(cl) != 2 or calls(o, "fit"):
            return False
        c1, c2 = cl
        e1, e2 = calls(c1), calls(c2)
        if [e.method for e in e1] != ["fit", "predict"] or [e.method for e in e2] != ["fit"]:
            return False
        conds += [equiv(e1[0].arg(0, "y"), y_head),            # did not see the held-out window
                  equiv(e2[0].arg(0, "y"), y), final.items[i] is c2]
        first_preds.append(e1[1].result)
    rc = clone_of(reg)
    if len(rc) != 1 or calls(reg, "fit"):
        return False
    rf = calls(rc[0])
    if len(rf) != 1 or rf[0].method != "fit":
        return False
    Xm = rf[0].arg(0)
    if not isinstance(Xm, Opaque) or not Xm.prov or Xm.prov[0] != "column_stack":
        return False
    conds += [len(Xm.prov[1]) == m and all(a is b for a, b in zip(Xm.prov[1], first_preds)),
              equiv(rf[0].arg(1), held_out), s.attrs.get("final_regressor_") is rc[0]]
    return And(*conds)


contract(f"{STK}::StackingForecaster.fit", "C09", cases=["m1", "m2", "m3"],
         inputs=lambda B, case: (lambda o: {"self": o[0], "y": sym_series(B), "X": None, "fh": sym_fh(B, "fh", nonempty=True, oos=True)})(mk_stack(B, int(case[1:]))),
         raises=[("ValueError", lambda A: 1 + fh_last(A.fh) > Z(A.y.index.len))],
         ensures=[("meta-regressor-trained-on-held-out-forecasts-of-members-that-did-not-see-them", _stk_fit_post)])


def _stk_pred_inputs(B, case):
    m = int(case[1:])
    obj, ms, reg = mk_stack(B, m)
    fitted = [B.abstract(f"fitted_member{t}", isa=("BaseForecaster",)) for t in range(m)]
    regf = B.abstract("fitted_final_regressor", isa=("RegressorMixin", "BaseEstimator"))
    fh = sym_fh(B, "fh", nonempty=True, oos=True)
    cutoff = B.int("cutoff")
    out = B.arr("meta_prediction", dtype="real", shape=[vals(fh).len])
    regf.results = {"predict": lambda I2, o, ev: out}
    obj.attrs.update(forecasters_=SList(fitted, "list"), final_regressor_=regf, _is_fitted=True, _fh=fh, _cutoff=cutoff)
    obj.ghost = dict(fitted=fitted, regf=regf, out=out)
    return {"self": obj, "fh": fh, "X": None}


def _stk_pred_post(A, r):
    """every fitted member forecasts the stored horizon once, in member order; the fitted meta-regressor sees their forecasts as
    columns in that order; its output is returned labelled cutoff + step"""
    g = A.self.ghost
    evs = [e for e in trace() if e.obj is not None]
    mem = evs[:len(g["fitted"])]
    if len(evs) != len(g["fitted"]) + 1 or not isinstance(r, SSeries):
        return False
    for e, f in zip(mem, g["fitted"]):
        # the members are asked for their STORED horizon (fh=None; exogenous data is not supported by stacking: fit rejects it)
        if e.obj is not f or e.method != "predict" or not (e.arg(0) is None or e.arg(0) is A.fh):
            return False
    last = evs[-1]
    Xm = last.arg(0)
    if last.obj is not g["regf"] or last.method != "predict" or not isinstance(Xm, Opaque) or not Xm.prov or Xm.prov[0] != "column_stack":
        return False
    fhv = vals(A.fh)
    c = Z(A.self.attrs["_cutoff"])
    return And(len(Xm.prov[1]) == len(mem) and all(a is e.result for a, e in zip(Xm.prov[1], mem)),
               equiv(r.values, g["out"]), Eq(r.index.len, fhv.len),
               ForAll(lambda i: Eq(r.index.fn(i), ops.simp(c + Z(fhv.fn(i)))), 0, fhv.len, "i"))


contract(f"{STK}::StackingForecaster._predict", "C09,C12", cases=["m1", "m2", "m3"], inputs=_stk_pred_inputs,
         ensures=[("meta-regressor-combines-the-members-forecasts-in-member-order", _stk_pred_post, {"modular": False})],
         frame=lambda A: [A.self])
