"""C12: apply-type methods never write the caller's data (frame obligations with alias tracking).

Most frame obligations live on the contracts of the other properties (they are tagged C12 there: forecaster _predict*,
composites, Deseasonalizer, OptionalPassthrough, adaptor, forests, ensembles, segmenters, row transformers); this file adds
the series transformers that overwrite values in place and therefore must detach from their input first."""
from pyvc.spec import *   # noqa
from pyvc.values import SArr, SList, SObj, Opaque, SSeries, SFrame, NAN
from pyvc import ops
import z3
from contracts.C01_split import sym_series

OD = "sktime/transformations/series/outlier_detection.py"
IMP = "sktime/transformations/series/impute.py"
Z = ops.to_z3


def _cur():
    from pyvc import spec as _S
    return _S.CUR


def _writes(v):
    """the callee overwrites cells of v in place: a write to v and to whatever shares its buffer"""
    ctx = _cur().ctx
    for o in (v, getattr(v, "shares", None)):
        if o is not None and ctx.frozen and id(o) in ctx.frozen:
            ctx.mutated.append((o, "written in place by the callee"))
    return v


contract(f"{OD}::_hampel_filter", "C12", cases=["-"], assumed=True, inputs=lambda B, case: {},
         returns=lambda A: _writes(A.Z),
         notes=["ASSUMED effect: _hampel_filter overwrites outliers in its argument Z with NaN in place and returns Z (that is its job); "
                "which cells are outliers is bounded-tier only"])


def _hf_inputs(B, case):
    I = B.I
    ok, cls = I.mod_global(I.src.module("sktime.transformations.series.outlier_detection"), "HampelFilter")
    obj = I.instantiate(cls, [], {"window_length": B.int("window_length", 1), "n_sigma": B.real("n_sigma"), "k": B.real("k"),
                                  "return_bool": case == "bool"})
    obj.attrs["_is_fitted"] = True
    return {"self": obj, "Z": sym_series(B), "X": None}


contract(f"{OD}::HampelFilter.transform", "C12", cases=["values", "bool"], inputs=_hf_inputs,
         may_raise=[("ValueError", lambda A: True)],
         frame=lambda A: [A.self, A.Z],
         notes=["univariate series; the frame obligation fails if the series handed to _hampel_filter is the caller's object or a "
                "shallow copy of it"])


# ----------------------------------------------------------------------------- Imputer: every rule works on fresh objects
_IMP_METHODS = ["constant", "ffill", "bfill", "pad", "backfill", "mean", "median", "nearest", "linear", "forecaster"]


def _imp_inputs(B, case):
    I = B.I
    method, mv = case.split("|")
    ok, cls = I.mod_global(I.src.module("sktime.transformations.series.impute"), "Imputer")
    fc = None
    if method == "forecaster":
        fc = B.abstract("trend forecaster", isa=("BaseForecaster", "BaseEstimator"))
        fc.results = {"predict": lambda I2, o, ev: Opaque("in-sample forecast", prov=("predict", o, ev))}
    obj = I.instantiate(cls, [], {"method": method, "value": B.real("value") if method == "constant" else None, "forecaster": fc,
                                  "missing_values": None if mv == "nan" else B.real("missing_values")})
    obj.attrs["_is_fitted"] = True
    return {"self": obj, "Z": sym_series(B), "X": None}


def _imp_post(A, r):
    return isinstance(r, SSeries) and r is not A.Z and equiv(r.index, A.Z.index)


contract(f"{IMP}::Imputer.transform", "C12,C13", cases=[f"{m}|{v}" for m in _IMP_METHODS for v in ("nan", "value")], inputs=_imp_inputs,
         may_raise=[("ValueError", lambda A: True)],
         ensures=[("new-series-with-the-input-index", _imp_post)],
         frame=lambda A: [A.self, A.Z],
         notes=["univariate series; pandas fillna / replace / interpolate return new objects (values not modelled here: the imputed "
                "values are compared with the rule's formula by the C14 bounded tier); methods random / drift / forecaster are "
                "bounded-tier only"])


def _imp_rule(A, r):
    """the pandas operation chain is the chosen rule: [replace missing_values by NaN] -> rule -> forward fill -> backward fill,
    each step applied to the result of the previous one (starting from a COPY of the input)"""
    from contracts.C07_evaluate import trace
    method = A.self.attrs["method"]
    mv = A.self.attrs["missing_values"]
    evs = [e for e in trace() if e.method.startswith("series.")]
    cur = None          # the series the next step must be applied to (None: any fresh copy of Z)
    k = 0

    def step(name, check):
        nonlocal cur, k
        if k >= len(evs) or evs[k].method != "series." + name:
            return False
        e = evs[k]
        recv = e.args[0]
        if cur is None:
            if recv is A.Z or not isinstance(recv, SSeries) or not (recv.values is A.Z.values or recv.index is A.Z.index):
                return False
        elif recv is not cur:
            return False
        if not check(e):
            return False
        k += 1
        return e
    if mv is not None:
        e = step("replace", lambda e: e.kwargs.get("to_replace") is mv and e.kwargs.get("value") is NAN)
        if not e:
            return False
        cur = e.result
    if method == "constant":
        e = step("fillna", lambda e: e.kwargs.get("value") is A.self.attrs["value"])
    elif method in ("ffill", "bfill", "pad", "backfill"):
        e = step("fillna", lambda e: e.kwargs.get("method") == method)
    elif method in ("mean", "median"):
        agg = step(method, lambda e: True)
        if not agg:
            return False
        e = step("fillna", lambda e: e.kwargs.get("value") is agg.result)
    elif method in ("nearest", "linear"):
        e = step("interpolate", lambda e: e.kwargs.get("method") == method)
    elif method == "forecaster":
        # auxiliary series for the fit: forward fill, THEN backward fill of the current series (both applied to it, not to the result)
        base = cur
        a1 = step("fillna", lambda e: e.kwargs.get("method") == "ffill")
        if not a1:
            return False
        cur = a1.result
        a2 = step("fillna", lambda e: e.kwargs.get("method") == "backfill")
        if not a2:
            return False
        fc = A.self.attrs["forecaster"]
        fev = [x for x in trace() if x.obj is fc]
        if [x.method for x in fev] != ["fit", "predict"] or fev[0].kwargs.get("y") is not a2.result:
            return False
        cur = base if base is not None else None          # the forecast fills the gaps of the ORIGINAL (replaced) series
        if cur is None:
            # no replace step: the series being filled is the copy that the auxiliary fill started from
            cur = a1.args[0]
        e = step("fillna", lambda e: e.kwargs.get("value") is fev[1].result)
    else:
        return False
    if not e:
        return False
    cur = e.result
    e = step("fillna", lambda e: e.kwargs.get("method") == "ffill")
    if not e:
        return False
    cur = e.result
    e = step("fillna", lambda e: e.kwargs.get("method") == "backfill")
    if not e:
        return False
    return k == len(evs) and r is e.result


REG_IMP = REGISTRY[f"{IMP}::Imputer.transform"]
REG_IMP.ensures.append(("the-chosen-rule-then-forward-and-backward-fill", _imp_rule, {"modular": False}))
REG_IMP.prop = "C12,C13,C14"


# ----------------------------------------------------------------------------- _slope works on VIEWS of the caller's panel: it must not write them
SLOPE = "sktime/utils/slope_and_trend.py"


def _slope_frame_inputs(B, case):
    n, L = B.int("n_instances", 1), B.int("n_timepoints", 2)
    X = B.arr("X", dtype="real", shape=[n, L])
    a, b = B.int("start", 0), B.int("end", 0)
    B.assume(And(a < b, b <= Z(L)))
    from pyvc.libnp import nd_getitem
    from pyvc.values import SSlice
    win = nd_getitem(B.I, X, [SSlice(None, None, None), SSlice(a, b, None)])      # X[:, a:b] -- a view, as in the forests' _transform
    win.ghost_base = X
    return {"y": win, "axis": 1}


contract(f"{SLOPE}::_slope#frame", "C12,C17", cases=["-"], inputs=_slope_frame_inputs,
         frame=lambda A: [A.y, A.y.ghost_base],
         ensures=[("one-slope-per-row", lambda A, r: isinstance(r, SArr) and r.ndim == 1 and Eq(r.len, A.y.shape[0]))],
         notes=["frame only: the window handed to _slope by the interval forests is a VIEW of the caller's array; an in-place operator "
                "on it would be a write to the caller's data. The slope VALUE is an assumed contract at call sites (C17)"])


def _gr_inputs(B, case):
    I = B.I
    ok, cls = I.mod_global(I.src.module("sktime.transformations.series.impute"), "Imputer")
    obj = I.instantiate(cls, [], {"method": "random", "random_state": B.int("random_state", 0) if case == "seeded" else None})
    obj.attrs["_is_fitted"] = True
    return {"self": obj, "Z": sym_series(B)}


contract(f"{IMP}::Imputer._get_random", "C12", cases=["seeded", "unseeded"], inputs=_gr_inputs,
         may_raise=[("ValueError", lambda A: True)],
         frame=lambda A: [A.self, A.Z],
         notes=["frame only: drawing a replacement value must not leave state on the estimator (a generator kept between calls makes "
                "repeated transforms differ) and must not touch the series; the drawn values are not modelled"])
