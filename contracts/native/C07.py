"""C07 native oracle: evaluate() on the real code against an honest per-fold fit / update, predict and score.

The expected table is built without evaluate(): the splits come from a closed formula (cross-checked against the
splitter itself), the honest forecasts from (a) a recording spy forecaster whose forecast is a plain function of
everything it has been given (simulated here in plain python) and (b) fresh real forecasters driven by hand
(fit / update / predict with a relative horizon); the scores from numpy formulas of the metrics.
"""
import itertools
import warnings

import numpy as np
import pandas as pd

from .common import Recorder, ints_from_model, mint

# --------------------------------------------------------------------------------------------------------------
# independent description of the splitters (positions into the series), start_with_window=True
# --------------------------------------------------------------------------------------------------------------


def expected_splits(kind, n, fh, w, step, iw=None):
    """[(train positions, test positions)]; a split point s means "s observations lie before the first step"."""
    fh = sorted(int(h) for h in fh)
    last = n - fh[-1]                     # largest split point whose furthest horizon is still inside the data
    if kind == "single":
        lo = 0 if w is None else last - w
        return [(list(range(lo, last)), [last + h - 1 for h in fh])]
    out = []
    if kind == "sliding" and iw is not None:
        out.append((list(range(0, iw)), [iw + h - 1 for h in fh]))
        s = iw + step
    else:
        s = w
    while s <= last:
        lo = 0 if kind == "expanding" else s - w
        out.append((list(range(lo, s)), [s + h - 1 for h in fh]))
        s += step
    return out


def make_cv(kind, fh_arg, w, step, iw=None):
    from sktime.forecasting.model_selection import ExpandingWindowSplitter, SingleWindowSplitter, SlidingWindowSplitter
    if kind == "expanding":
        return ExpandingWindowSplitter(fh=fh_arg, initial_window=w, step_length=step)
    if kind == "sliding":
        return SlidingWindowSplitter(fh=fh_arg, window_length=w, step_length=step, initial_window=iw)
    return SingleWindowSplitter(fh=fh_arg, window_length=w)


def make_index(kind, l0, n):
    if kind == "int":
        return pd.RangeIndex(l0, l0 + n)
    if kind == "int64":
        return pd.Index(np.arange(l0, l0 + n, dtype="int64"))
    if kind == "period":
        return pd.period_range("2001-03", periods=n + l0, freq="M")[l0:]
    if kind == "datetime":
        return pd.date_range("2001-01-28", periods=n + l0, freq="D")[l0:]
    raise ValueError(kind)


# --------------------------------------------------------------------------------------------------------------
# metrics: (object handed to evaluate, independent numpy formula of metric(y_true, y_pred))
# --------------------------------------------------------------------------------------------------------------


def _pinball(t, p):
    d = t - p
    return float(np.mean(np.where(d >= 0, 0.8 * d, -0.2 * d)))


def _overunder(t, p):
    return float(np.mean((t - p) / (np.abs(t) + 1.0) + 0.25 * np.abs(t - p) / (np.abs(p) + 2.0)))


class MetricSpy:
    """asymmetric callable metric that remembers what it was called with"""

    name = "PinballSpy"

    def __init__(self):
        self.calls = []

    def __call__(self, y_true, y_pred):
        self.calls.append((y_true.copy() if hasattr(y_true, "copy") else y_true,
                           y_pred.copy() if hasattr(y_pred, "copy") else y_pred))
        return _pinball(np.asarray(y_true, dtype=float), np.asarray(y_pred, dtype=float))


def _wrapped_overunder(y_true, y_pred):
    return _overunder(np.asarray(y_true, dtype=float), np.asarray(y_pred, dtype=float))


def make_metric(key):
    import sktime.performance_metrics.forecasting as pm
    if key == "default-sMAPE":
        return None, lambda t, p: float(np.mean(2 * np.abs(t - p) / (np.abs(t) + np.abs(p))))
    if key == "sMAPE":
        return pm.MeanAbsolutePercentageError(), lambda t, p: float(np.mean(2 * np.abs(t - p) / (np.abs(t) + np.abs(p))))
    if key == "MAPE":
        return pm.MeanAbsolutePercentageError(symmetric=False), lambda t, p: float(np.mean(np.abs(t - p) / np.abs(t)))
    if key == "MdAPE":
        return pm.MedianAbsolutePercentageError(symmetric=False), lambda t, p: float(np.median(np.abs(t - p) / np.abs(t)))
    if key == "MSPE":
        return pm.MeanSquaredPercentageError(symmetric=False), lambda t, p: float(np.mean(((t - p) / t) ** 2))
    if key == "MSE":
        return pm.MeanSquaredError(), lambda t, p: float(np.mean((t - p) ** 2))
    if key == "RMSE":
        return pm.MeanSquaredError(square_root=True), lambda t, p: float(np.sqrt(np.mean((t - p) ** 2)))
    if key == "MAE":
        return pm.MeanAbsoluteError(), lambda t, p: float(np.mean(np.abs(t - p)))
    if key == "pinball-spy":
        return MetricSpy(), _pinball
    if key == "scorer-overunder":
        return pm.make_forecasting_scorer(_wrapped_overunder, name="OverUnder"), _overunder
    raise ValueError(key)


SYMMETRIC = ("default-sMAPE", "sMAPE", "MSE", "RMSE", "MAE")
ASYMMETRIC = ("MAPE", "MdAPE", "MSPE", "pinball-spy", "scorer-overunder")

# --------------------------------------------------------------------------------------------------------------
# forecasters
# --------------------------------------------------------------------------------------------------------------


def spy_value(ys, xs, steps, xt):
    """forecast of the spy: ys = observations it holds in time order, xs = exogenous row sums it holds,
    steps = steps ahead of its cutoff, xt = exogenous row sum given for the forecasted time point"""
    ys = [float(v) for v in ys]
    return (sum(ys) / len(ys) + 0.05 * len(ys) + 0.07 * ys[-1] + 0.03 * ys[0] + 0.3 * steps
            + 0.01 * float(sum(xs)) + 0.1 * float(xt))


_CLS = {}


def _classes():
    """classes that need sktime are created on first use"""
    if _CLS:
        return _CLS
    from sktime.forecasting.base._base import BaseForecaster
    from sktime.forecasting.naive import NaiveForecaster
    from sktime.forecasting.trend import PolynomialTrendForecaster

    class Spy(BaseForecaster):
        """duck-typed forecaster with its own (trivial) logic; records every call"""

        def __init__(self):
            super(Spy, self).__init__()
            self.log = []
            self.full_index = None
            self._held, self._heldX, self._cut, self._fh0 = {}, {}, None, None

        def _pos(self, label):
            return self.full_index.get_loc(label)

        def _take(self, y, X, reset):
            if reset:
                self._held, self._heldX = {}, {}
            for lab, v in zip(y.index, np.asarray(y, dtype=float)):
                self._held[lab] = v
            if X is not None:
                for lab, row in zip(X.index, np.asarray(X, dtype=float)):
                    self._heldX[lab] = float(np.sum(row))
            if len(y):
                self._cut = y.index[-1]

        def _rec(self, op, y, X, fh=None):
            self.log.append({"op": op, "y_index": list(y.index), "y_vals": np.asarray(y, dtype=float).copy(),
                             "X_index": None if X is None else list(X.index),
                             "X_vals": None if X is None else np.asarray(X, dtype=float).copy()})

        def fit(self, y, X=None, fh=None):
            self._rec("fit", y, X)
            self._take(y, X, True)
            if fh is not None:
                self._fh0 = fh
            self._is_fitted = True
            return self

        def update(self, y, X=None, update_params=True):
            self.check_is_fitted()
            self._rec("update", y, X)
            self._take(y, X, False)
            return self

        @property
        def cutoff(self):
            return self._cut

        def _labels(self, fh):
            if hasattr(fh, "to_pandas"):
                vals, rel = list(fh.to_pandas()), bool(fh.is_relative)
            else:
                vals, rel = list(np.atleast_1d(fh)), True
            if rel:
                c = self._pos(self._cut)
                return [self.full_index[c + int(v)] for v in vals]
            return vals

        def predict(self, fh=None, X=None, return_pred_int=False, alpha=0.05):
            self.check_is_fitted()
            labels = self._labels(self._fh0 if fh is None else fh)
            held = sorted(self._held, key=self._pos)
            ys = [self._held[k] for k in held]
            xs = [self._heldX[k] for k in sorted(self._heldX, key=self._pos)]
            c = self._pos(self._cut)
            out = []
            for lab in labels:
                if X is None:
                    xt = 0.0
                elif lab in X.index:
                    xt = float(np.sum(np.asarray(X.loc[lab], dtype=float)))
                else:
                    xt = float("nan")
                out.append(spy_value(ys, xs, self._pos(lab) - c, xt))
            res = pd.Series(out, index=pd.Index(labels))
            self.log.append({"op": "predict", "labels": labels, "held": held,
                             "X_index": None if X is None else list(X.index), "out": res.copy()})
            return res

    def spied(cls):
        """real forecaster that additionally records its top-level fit / update / predict calls"""

        class Spied(cls):
            log = None
            _depth = 0

            def fit(self, y, X=None, fh=None, **kw):
                if self.log is not None and self._depth == 0:
                    self.log.append({"op": "fit", "y_index": list(y.index), "y_vals": np.asarray(y, dtype=float).copy(),
                                     "X_index": None if X is None else list(X.index),
                                     "X_vals": None if X is None else np.asarray(X, dtype=float).copy()})
                self._depth += 1
                try:
                    return super(Spied, self).fit(y, X=X, fh=fh, **kw)
                finally:
                    self._depth -= 1

            def update(self, y, X=None, update_params=True):
                if self.log is not None and self._depth == 0:
                    self.log.append({"op": "update", "y_index": list(y.index), "y_vals": np.asarray(y, dtype=float).copy(),
                                     "X_index": None if X is None else list(X.index),
                                     "X_vals": None if X is None else np.asarray(X, dtype=float).copy()})
                self._depth += 1
                try:
                    return super(Spied, self).update(y, X=X, update_params=update_params)
                finally:
                    self._depth -= 1

            def predict(self, fh=None, X=None, **kw):
                top = self.log is not None and self._depth == 0
                held = list(self._y.index) if getattr(self, "_y", None) is not None else []
                self._depth += 1
                try:
                    res = super(Spied, self).predict(fh, X, **kw)
                finally:
                    self._depth -= 1
                if top:
                    self.log.append({"op": "predict", "labels": list(res.index), "held": held,
                                     "X_index": None if X is None else list(X.index), "out": res.copy()})
                return res

        Spied.__name__ = cls.__name__
        return Spied

    _CLS["Spy"] = Spy
    _CLS["Naive"] = (NaiveForecaster, spied(NaiveForecaster))
    _CLS["Poly"] = (PolynomialTrendForecaster, spied(PolynomialTrendForecaster))
    try:
        from sktime.forecasting.exp_smoothing import ExponentialSmoothing
        _CLS["ES"] = (ExponentialSmoothing, spied(ExponentialSmoothing))
    except Exception:       # statsmodels missing: not covered
        _CLS["ES"] = None
    return _CLS


# key -> (class key, constructor kwargs, accepts exogenous data)
FORECASTERS = {
    "spy": ("Spy", {}, True),
    "naive-last": ("Naive", {"strategy": "last"}, True),
    "naive-drift": ("Naive", {"strategy": "drift"}, True),
    "naive-mean-w2": ("Naive", {"strategy": "mean", "window_length": 2}, True),
    "naive-seasonal-last": ("Naive", {"strategy": "last", "sp": 2}, True),
    "poly1": ("Poly", {"degree": 1}, False),
    "expsmooth": ("ES", {}, False),
}


def build(fkey, spy=True):
    ckey, kw, _ = FORECASTERS[fkey]
    c = _classes()[ckey]
    if ckey == "Spy":
        return c()
    if c is None:
        return None
    f = c[1 if spy else 0](**kw)
    if spy:
        f.log = []
    return f


# --------------------------------------------------------------------------------------------------------------
# one scenario
# --------------------------------------------------------------------------------------------------------------


def _series(idx_kind, l0, n, seed, ncols=2):
    rng = np.random.RandomState(1000 * seed + 17 * n + l0)
    yv = np.round(5.0 + 0.6 * np.arange(n) + 3.0 * rng.rand(n), 3)
    idx = make_index(idx_kind, l0, n)
    y = pd.Series(yv, index=idx)
    X = pd.DataFrame(np.round(rng.rand(n, ncols) * 4.0 + 0.5, 3), index=idx, columns=["a", "b"][:ncols])
    return y, X


def _same_index(a, labels):
    return len(a) == len(labels) and all(x == z for x, z in zip(list(a), labels))


def _fl(a):
    return [round(float(v), 4) for v in np.asarray(a, dtype=float).ravel()]


def _close(a, b):
    try:
        return bool(np.isclose(float(a), float(b), rtol=1e-9, atol=1e-12, equal_nan=True))
    except (TypeError, ValueError):
        return False


def honest_spy(splits, yv, Xsum, strategy, met):
    """plain-python simulation of fit / update / predict of the spy on the given splits"""
    held, heldX, rows = {}, {}, []
    for i, (tr, te) in enumerate(splits):
        if i == 0 or strategy == "refit":
            held, heldX = {}, {}
        for p in tr:
            held[p] = yv[p]
            if Xsum is not None:
                heldX[p] = Xsum[p]
        cut = tr[-1]
        ys = [held[p] for p in sorted(held)]
        xs = [heldX[p] for p in sorted(heldX)]
        pred = np.array([spy_value(ys, xs, t - cut, 0.0 if Xsum is None else Xsum[t]) for t in te])
        rows.append({"pred": pred, "score": met(yv[te], pred), "held": sorted(held)})
    return rows


def honest_real(fkey, splits, y, X, strategy, fh, met):
    """fresh real forecaster driven by hand with a relative horizon"""
    rows, f = [], None
    for i, (tr, te) in enumerate(splits):
        y_tr = y.iloc[tr]
        X_tr = None if X is None else X.iloc[tr]
        X_te = None if X is None else X.iloc[tr[-1] + 1: te[-1] + 1]
        if isinstance(y.index, pd.PeriodIndex):
            # relative horizons on a PeriodIndex hit Period arithmetic that pandas 2 changed (sandbox limit): name the time points
            from sktime.forecasting.base import ForecastingHorizon
            hz = ForecastingHorizon(y.index[te], is_relative=False)
        else:
            hz = [int(h) for h in fh]
        if i == 0 or strategy == "refit":
            f = build(fkey, spy=False)
            f.fit(y_tr, X_tr, fh=hz)
        else:
            f.update(y_tr, X_tr)
        p = f.predict(hz, X=X_te)
        pred = np.asarray(p, dtype=float)
        rows.append({"pred": pred, "score": met(y.values[te], pred), "pred_index": list(p.index)})
    return rows


def run_case(R, c, seed=0):
    """c: dict(idx, l0, n, kind, w, step, iw, fh, fh_form, strategy, useX, return_data, metric, fc, state)"""
    from sktime.forecasting.model_evaluation import evaluate
    fkey = c["fc"]
    useX = bool(c["useX"]) and FORECASTERS[fkey][2]
    fh = tuple(sorted(c["fh"]))
    n, kind, w, step, iw = c["n"], c["kind"], c["w"], c["step"], c.get("iw")
    desc = (f"{fkey} state={c['state']} strategy={c['strategy']} metric={c['metric']} {kind}(w={w},step={step},iw={iw}) "
            f"fh={list(fh)}({c['fh_form']}) n={n} index={c['idx']} from {c['l0']} X={'yes' if useX else 'no'} "
            f"return_data={c['return_data']} seed={seed}")
    y, Xfull = _series(c["idx"], c["l0"], n, seed)
    X = Xfull if useX else None
    yv = y.values
    labels = list(y.index)
    Xsum = Xfull.values.sum(axis=1) if useX else None

    def fh_arg():
        if c["fh_form"] == "int" and len(fh) == 1:
            return int(fh[0])
        if c["fh_form"] == "array":
            return np.array(fh)
        return list(fh)

    # ---- the splits: closed formula, cross-checked with the splitter itself
    splits = expected_splits(kind, n, fh, w, step, iw)
    try:
        own = [(list(map(int, tr)), list(map(int, te))) for tr, te in make_cv(kind, fh_arg(), w, step, iw).split(y)]
    except Exception as e:
        R.check("splitter-yields-documented-windows", False, f"{desc}: split raised {type(e).__name__}: {e}")
        return
    ok = own == splits
    R.check("splitter-yields-documented-windows", ok, f"{desc}: splitter gives {own[:3]}.. ({len(own)}), documented windows are {splits[:3]}.. ({len(splits)})")
    if not ok:
        splits = own        # evaluate is only held to the splits of its splitter
    if not splits:
        return

    scoring, met = make_metric(c["metric"])
    cv = make_cv(kind, fh_arg(), w, step, iw)
    f = build(fkey)
    if f is None:
        return
    is_spy = fkey == "spy"
    if is_spy:
        f.full_index = y.index

    # ---- honest expectation
    honest_err = None
    try:
        with warnings.catch_warnings():
            warnings.simplefilter("ignore")
            hon = honest_spy(splits, yv, Xsum, c["strategy"], met) if is_spy else honest_real(fkey, splits, y, X, c["strategy"], fh, met)
    except Exception as e:
        honest_err, hon = e, None
    if hon is not None and any(np.isnan(r["pred"]).any() for r in hon):
        return      # the forecaster itself forecasts NaN here (e.g. drift on one point): what a metric does with NaN is not part of the property

    # ---- earlier life of the forecaster object (must not matter)
    try:
        with warnings.catch_warnings():
            warnings.simplefilter("ignore")
            if c["state"] == "prefit-all":
                f.fit(y, X, fh=list(fh))
            elif c["state"] == "prefit-update":
                f.fit(y.iloc[: max(2, n // 2)], None if X is None else X.iloc[: max(2, n // 2)], fh=list(fh))
                f.update(y, X)
            elif c["state"] == "reused-refit":
                evaluate(f, make_cv(kind, fh_arg(), w, step, iw), y, X=X, strategy="refit", scoring=make_metric(c["metric"])[0])
            elif c["state"] == "reused-update":
                evaluate(f, make_cv(kind, fh_arg(), w, step, iw), y, X=X, strategy="update", scoring=make_metric(c["metric"])[0])
    except Exception:
        pass        # the earlier use of the object failed by itself (e.g. window too short to refit): carry on with the object as it is
    f.log = []

    # ---- the call under test
    try:
        with warnings.catch_warnings():
            warnings.simplefilter("ignore")
            res = evaluate(f, cv, y, X=X, strategy=c["strategy"], scoring=scoring, return_data=c["return_data"])
        err = None
    except Exception as e:
        res, err = None, e
    if honest_err is not None or err is not None:
        R.check("error-iff-honest-errors", honest_err is not None and err is not None,
                f"{desc}: evaluate {'raised ' + type(err).__name__ + ': ' + str(err)[:150] if err is not None else 'returned'} but the honest per-fold run "
                f"{'raised ' + type(honest_err).__name__ + ': ' + str(honest_err)[:150] if honest_err is not None else 'succeeded'}")
        return

    # ---- table shape
    R.check("one-row-per-split", len(res) == len(splits), f"{desc}: {len(res)} rows for {len(splits)} splits")
    name = "test_" + (scoring.name if scoring is not None else "MeanAbsolutePercentageError")
    cols = [k for k in res.columns if str(k).startswith("test_")]
    score_col = name if name in res.columns else (cols[0] if cols else None)
    has_data = all(k in res.columns for k in ("y_train", "y_test", "y_pred"))
    if c["return_data"]:
        R.check("returned-data-is-the-folds-data", has_data, f"{desc}: return_data=True but columns are {list(res.columns)}")
    nrows = min(len(res), len(splits))
    for i in range(nrows):
        tr, te = splits[i]
        row = res.iloc[i]
        fold = f"{desc}: fold {i} train {labels[tr[0]]}..{labels[tr[-1]]} test {[labels[t] for t in te]}"
        got = row[score_col] if score_col is not None else None
        R.check("score-equals-honest-score", score_col is not None and _close(got, hon[i]["score"]),
                f"{fold}: reported score {got}, honest metric(y_true, y_pred) = {hon[i]['score']}")
        R.check("cutoff-is-end-of-training-window", "cutoff" in res.columns and row["cutoff"] == labels[tr[-1]],
                f"{fold}: reported cutoff {row.get('cutoff')}, end of the training window is {labels[tr[-1]]}")
        R.check("len-train-window", "len_train_window" in res.columns and int(row["len_train_window"]) == len(tr),
                f"{fold}: reported len_train_window {row.get('len_train_window')}, window has {len(tr)} points")
        if c["return_data"] and has_data:
            a, b, p = row["y_train"], row["y_test"], row["y_pred"]
            ok = (isinstance(a, pd.Series) and _same_index(a.index, [labels[k] for k in tr]) and np.allclose(a.values, yv[tr])
                  and isinstance(b, pd.Series) and _same_index(b.index, [labels[k] for k in te]) and np.allclose(b.values, yv[te])
                  and isinstance(p, pd.Series) and _same_index(p.index, [labels[k] for k in te])
                  and np.allclose(np.asarray(p, dtype=float), hon[i]["pred"], rtol=1e-9, equal_nan=True))
            R.check("returned-data-is-the-folds-data", ok,
                    f"{fold}: cells have y_train {list(getattr(a, 'index', []))[:1]}..{list(getattr(a, 'index', []))[-1:]}, "
                    f"y_test {list(getattr(b, 'index', []))}, y_pred {list(getattr(p, 'index', []))} = {_fl(p) if isinstance(p, pd.Series) else p}; "
                    f"honest forecast {_fl(hon[i]['pred'])}")
    if not c["return_data"]:
        R.check("returned-data-is-the-folds-data", not any(k in res.columns for k in ("y_train", "y_test", "y_pred")),
                f"{desc}: return_data=False but columns are {list(res.columns)}")

    # ---- what the forecaster was given, fold by fold
    log = f.log
    ops = [e["op"] for e in log]
    want_ops = []
    for i in range(len(splits)):
        want_ops += ["fit" if (i == 0 or c["strategy"] == "refit") else "update", "predict"]
    key_seq = "refit-fits-every-fold" if c["strategy"] == "refit" else "update-fits-once-then-updates"
    R.check(key_seq, ops == want_ops, f"{desc}: forecaster calls were {ops}, honest sequence is {want_ops}")
    preds = [e for e in log if e["op"] == "predict"]
    trains = [e for e in log if e["op"] != "predict"]
    for i in range(min(len(splits), len(trains))):
        tr, te = splits[i]
        e = trains[i]
        ok = _same_index(e["y_index"], [labels[k] for k in tr]) and np.allclose(e["y_vals"], yv[tr])
        if useX:
            ok = ok and e["X_index"] is not None and _same_index(e["X_index"], [labels[k] for k in tr]) and np.allclose(e["X_vals"], Xfull.values[tr])
        else:
            ok = ok and e["X_index"] is None
        R.check("fit-or-update-on-exact-training-window", ok,
                f"{desc}: fold {i}: {e['op']} got y over {e['y_index'][:1]}..{e['y_index'][-1:]} ({len(e['y_index'])} points), "
                f"X over {(e['X_index'] or [None])[0]}..{(e['X_index'] or [None])[-1]}; training window is {labels[tr[0]]}..{labels[tr[-1]]} ({len(tr)} points)")
    pos = {lab: k for k, lab in enumerate(labels)}
    for i in range(min(len(splits), len(preds))):
        tr, te = splits[i]
        e = preds[i]
        R.check("predicts-exact-test-points", _same_index(e["labels"], [labels[k] for k in te]),
                f"{desc}: fold {i}: forecaster was asked for {e['labels']}, the split's test points are {[labels[k] for k in te]}")
        late = [lab for lab in e["held"] if pos.get(lab, n) >= te[0]]
        R.check("no-observation-from-test-period-before-predict", not late,
                f"{desc}: fold {i}: when predicting (first test point {labels[te[0]]}) the forecaster already held observations at {late[:4]}")
        if useX:
            have = set(e["X_index"] or [])
            R.check("predict-gets-exog-for-test-points", all(labels[k] in have for k in te),
                    f"{desc}: fold {i}: X given to predict covers {e['X_index']}, test points are {[labels[k] for k in te]}")
    if isinstance(scoring, MetricSpy):
        for i in range(min(len(splits), len(scoring.calls), len(preds))):
            tr, te = splits[i]
            a, b = scoring.calls[i]
            ok = (isinstance(a, pd.Series) and _same_index(a.index, [labels[k] for k in te]) and np.allclose(np.asarray(a, dtype=float), yv[te])
                  and len(b) == len(te) and np.allclose(np.asarray(b, dtype=float), np.asarray(preds[i]["out"], dtype=float), equal_nan=True))
            R.check("metric-called-as-y-true-y-pred", ok,
                    f"{desc}: fold {i}: metric got first argument {_fl(a)} second {_fl(b)}; "
                    f"y_true is {_fl(yv[te])}, the forecast was {_fl(preds[i]['out'])}")
        R.check("metric-called-as-y-true-y-pred", len(scoring.calls) == len(splits), f"{desc}: metric called {len(scoring.calls)} times for {len(splits)} splits")


# --------------------------------------------------------------------------------------------------------------
# enumeration
# --------------------------------------------------------------------------------------------------------------

FHS = [(1,), (1, 2, 3), (2,), (3,), (2, 5), (1, 4), (2, 4, 6), (1, 2)]
STATES = ["fresh", "prefit-all", "reused-refit", "reused-update", "prefit-update"]


def splitter_specs(tier):
    specs = []
    ws = (2, 3, 5) if tier == "quick" else (1, 2, 3, 4, 5)
    steps = (1, 2, 4) if tier == "quick" else (1, 2, 3, 4, 6)
    for w in ws:
        for s in steps:
            specs.append(("expanding", w, s, None))
            specs.append(("sliding", w, s, None))
    for w, iw, s in ((2, 4, 2), (1, 3, 1), (3, 5, 3)) if tier == "quick" else ((2, 4, 2), (1, 3, 1), (3, 5, 3), (2, 3, 1), (3, 6, 2), (1, 2, 4)):
        specs.append(("sliding", w, s, iw))
    for w in (None, 1, 3):
        specs.append(("single", w, 1, None))
    return specs


def _valid(kind, n, fh, w, iw):
    last = n - max(fh)
    if kind == "single":
        return last >= 1 and (w is None or w <= last)
    if iw is not None:
        return iw <= last and iw > w
    return w <= last


def side_combos(tier):
    """(forecaster, metric, state, return_data, fh_form) combinations rotated over the core enumeration"""
    fcs = ["spy", "naive-last", "spy", "poly1", "naive-drift", "spy", "naive-mean-w2", "naive-seasonal-last", "spy"]
    if tier != "quick":
        fcs.append("expsmooth")      # numerical optimisation per fit: too slow for the quick budget
    mets = list(ASYMMETRIC) + list(SYMMETRIC)
    out = []
    for k, (fc, state) in enumerate(itertools.product(fcs, STATES)):
        for j, m in enumerate(mets):
            out.append((fc, m, state, bool((k + j) % 2), ("list", "array", "int")[(k + 2 * j) % 3]))
    # spread: neighbours in the list should differ in every coordinate
    stride = 37
    while np.gcd(stride, len(out)) != 1:
        stride += 1
    return [out[(i * stride) % len(out)] for i in range(len(out))]


def bounded(tier, seed):
    quick = tier == "quick"
    # (series length, first index value)
    sizes = ((10, 4), (13, 0)) if quick else ((9, 0), (9, 4), (11, 4), (12, 0), (14, 0), (14, 4))
    per_core = 1 if quick else 2
    R = Recorder(
        "evaluate vs honest per-fold run: (series length, first index value) in " + str([list(z) for z in sizes]) + " on an integer RangeIndex (every 7th case a monthly "
        "PeriodIndex, every 11th an Int64Index and, for the spy forecaster only, every 13th a daily DatetimeIndex); Expanding/Sliding splitters with window "
        + ("2,3,5" if quick else "1..5") + " x step " + ("1,2,4" if quick else "1,2,3,4,6") + ", Sliding with initial_window, SingleWindowSplitter (window None/1/3); horizons "
        + str(FHS) + " given as list/array/int; strategies refit and update; with and without 2-column X; return_data on/off; metrics " + str(list(ASYMMETRIC + SYMMETRIC))
        + "; forecasters " + str([f for f in FORECASTERS if not (quick and f == "expsmooth")]) + " (recording spy with its own logic and recording subclasses of the real ones); forecaster object fresh / "
        "fitted on the whole series before / fitted and updated before / re-used after an earlier evaluate(refit) or evaluate(update); every core configuration "
        f"(size, splitter, horizon, strategy, X) is run with {per_core} of the rotating (forecaster, metric, state, return_data, fh-form) combinations; data from RandomState(seed.."
        + ("seed" if quick else "seed+2") + "). Not covered: in-sample horizons, fit_params, start_with_window=False, CutoffSplitter, forecasters that do not run under the "
        "shim (reduction with sklearn regressors, ARIMA/pmdarima), real forecasters on DatetimeIndex (positional slicing drops freq under pandas 2), relative horizons handed to real "
        "forecasters on a PeriodIndex (Period arithmetic under pandas 2; the honest run names the time points there)."
    )
    combos = side_combos(tier)
    k = seed % len(combos)
    specs = splitter_specs(tier)
    for n, l0 in sizes:
        for (kind, w, step, iw) in specs:
            for fh in FHS:
                if not _valid(kind, n, fh, w, iw):
                    continue
                for strategy in ("refit", "update"):
                    for useX in (False, True):
                        for _ in range(per_core):
                            fc, m, state, rd, form = combos[k % len(combos)]
                            k += 1
                            idx = "int"
                            if k % 7 == 0:
                                idx = "period"
                            elif k % 11 == 0:
                                idx = "int64"
                            elif k % 13 == 0 and fc == "spy":
                                idx = "datetime"
                            run_case(R, dict(idx=idx, l0=l0, n=n, kind=kind, w=w, step=step, iw=iw, fh=fh, fh_form=form, strategy=strategy,
                                             useX=useX, return_data=rd, metric=m, fc=fc, state=state), seed if quick else seed + k % 3)
    return R.result()


def replay(rec):
    m = rec.get("model") or {}
    target, case = str(rec.get("target", "")), str(rec.get("case", ""))
    R = Recorder("replay")
    n = min(max(mint(m, "n", 12), 6), 40)
    w = min(max(mint(m, "w", mint(m, "window_length", 3)), 1), n - 2)
    step = max(mint(m, "step", mint(m, "step_length", 2)), 1)
    nf = max(mint(m, "len(fh)", 0), 0)
    fh = ints_from_model(m, "fh", nf) if (nf and "fh" in m) else [mint(m, f"fh{i}", 0) for i in range(4) if f"fh{i}" in m]
    fh = tuple(sorted(set(h for h in fh if 1 <= h <= n - w - 1)))
    fhs = ([fh] if fh else []) + [(2, 5), (1, 2, 3), (3,)]
    inp = {"n": n, "w": w, "step": step, "fh": [list(h) for h in fhs]}
    text = (target + " " + case + " " + str(rec.get("obligation", ""))).lower()
    strategies = ["update"] if "update" in text and "refit" not in text else (["refit"] if "refit" in text and "update" not in text else ["refit", "update"])
    kinds = [kd for kd in ("expanding", "sliding", "single") if kd in text] or ["expanding", "sliding", "single"]
    for fh in fhs:
        for kind in kinds:
            ww = min(w, n - max(fh) - 1)
            if ww < 1 or not _valid(kind, n, fh, ww, None):
                continue
            for strategy in strategies:
                for useX in (False, True):
                    for fc, metric, state in (("spy", "pinball-spy", "fresh"), ("spy", "MAPE", "prefit-all"), ("poly1", "MAPE", "reused-refit"),
                                              ("naive-drift", "scorer-overunder", "fresh"), ("spy", "default-sMAPE", "reused-update")):
                        run_case(R, dict(idx="int", l0=3, n=n, kind=kind, w=ww, step=step, iw=None, fh=fh, fh_form="list", strategy=strategy,
                                         useX=useX, return_data=True, metric=metric, fc=fc, state=state), 0)
    f = R.failures
    return {"reproduced": bool(f), "detail": f[:3], "input": inp}
