"""C04 native oracle: every estimator class obeys the scikit-learn protocol (parameters, clone, fitted state).

The estimator classes are found by walking the real package (every importable module outside the test directories);
nothing below is written per class except the table of stand-in values for constructor arguments that have no default
and the catalogue of compositions.  Four families of checks, all evaluated on the real objects:

* constructor  -- every constructor argument in turn (and all at once) is given a unique sentinel object; reading it
  back with get_params / getattr must give that very object, clone must rebuild an equal estimator.
* parameters   -- on default instances and on the compositions: set_params(**get_params()) and clone reproduce the
  parameters, unknown names are rejected, every nested key `component__param` reads the attribute of the component
  object and writes to it (and to nothing else), components are replaced by name, also together with a replacement of
  the whole component list (the expectation is a small model of "a list of named components" kept here).
* fitted state -- fresh / cloned / cloned-after-fit estimators report is_fitted False and every apply-type method
  called with valid data (ordinary, empty where the method accepts it, with/without optional arguments) raises
  NotFittedError.
* fit          -- returns self, sets is_fitted, leaves every constructor parameter (deep get_params, list contents,
  component objects and their own state) as it was; also with one numeric / boolean constructor argument at a time
  moved off its default, a second fit, a fit without horizon, components that are already fitted.

Compositions: a hand-written catalogue (depth <= 3) plus generated nestings (every wrapper kind around every leaf and
around every wrapper kind, a seeded sample of depth 3).

Defects of the unchanged tree are reported under `KF:` keys; each of them only fires for the named class family and the
named symptom, any other violation of the same clause goes to the ordinary key.
"""
import copy
import importlib
import inspect
import pkgutil
import random
import warnings

import numpy as np
import pandas as pd
from sklearn.base import BaseEstimator as SkBase
from sklearn.base import RegressorMixin, clone

from .common import Recorder, ints_from_model, mint  # noqa: F401

KF_COLUMN_SET = "KF:column-composites-set-params-list-together-with-component-key-loses-the-component-write"
KF_WRAPPER = "KF:metric-function-wrapper-bases-keep-func-private-and-rewrite-name"
KF_FEATURE_UNION = "KF:feature-union-fit-fits-and-replaces-the-given-transformers"
KF_CBOSS = "KF:cboss-fit-overwrites-time-limit-and-n-parameter-samples"
KF_STRATEGY = "KF:benchmarking-strategy-parameters-are-read-only-properties"

# constructor arguments that only make the (otherwise very long) fit short
FAST = {
    "ContractedShapeletTransform": {"time_contract_in_mins": 0.004, "max_shapelets_to_store_per_class": 2},
    "ShapeletTransform": {"max_shapelet_length": 4, "max_shapelets_to_store_per_class": 2},
}

APPLY_METHODS = ("predict", "predict_proba", "transform", "inverse_transform", "update", "update_predict", "score")
SKIP_MODULE_PARTS = ("tests", "setup", "_build_utils", "__check_build")


# ----------------------------------------------------------------------------------------------------------------
# helpers
# ----------------------------------------------------------------------------------------------------------------
class Sentinel:
    """unique, copyable, comparable stand-in for 'the value that was passed'"""

    def __init__(self, tag):
        self.tag = tag

    def __eq__(self, other):
        return isinstance(other, Sentinel) and other.tag == self.tag

    def __hash__(self):
        return hash(("Sentinel", self.tag))

    def __repr__(self):
        return f"<S:{self.tag}>"


class StubReg(RegressorMixin, SkBase):
    """tabular regressor; a single row gives a python float (numpy 2 refuses `a[i] = array([v])` in the reducers)"""

    def __init__(self, a=0.5):
        self.a = a

    def fit(self, X, y):
        y = np.asarray(y, dtype=float)
        self.k_ = 0 if y.ndim == 1 else y.shape[1]
        self.m_ = float(np.mean(y))
        return self

    def predict(self, X):
        X = np.asarray(X, dtype=float)
        out = self.a * X.reshape(X.shape[0], -1).mean(axis=1) + (1 - self.a) * self.m_
        if self.k_ > 0:
            return np.tile(out[:, None], (1, self.k_))
        if out.shape[0] == 1:
            return float(out[0])
        return out


def _is_est(v):
    return hasattr(v, "get_params") and not isinstance(v, type)


def same(a, b, depth=0):
    """structural equality of parameter values (estimators: same class and equal parameters)"""
    if a is b:
        return True
    if depth > 60:
        return False
    if _is_est(a) or _is_est(b):
        if type(a) is not type(b):
            return False
        try:
            pa, pb = a.get_params(deep=False), b.get_params(deep=False)
        except Exception:
            return False
        return pa.keys() == pb.keys() and all(same(pa[k], pb[k], depth + 1) for k in pa)
    if type(a) is not type(b):
        return False
    if isinstance(a, (list, tuple)):
        return len(a) == len(b) and all(same(x, y, depth + 1) for x, y in zip(a, b))
    if isinstance(a, dict):
        return a.keys() == b.keys() and all(same(a[k], b[k], depth + 1) for k in a)
    if isinstance(a, np.ndarray):
        return a.shape == b.shape and bool(np.all((a == b) | ((a != a) & (b != b))))
    if isinstance(a, (pd.Series, pd.DataFrame, pd.Index)):
        return bool(a.equals(b))
    if isinstance(a, float) and a != a:
        return b != b
    try:
        r = a == b
        if isinstance(r, (bool, np.bool_)):
            if r:
                return True
        elif bool(np.all(r)):
            return True
    except Exception:
        pass
    da, db = getattr(a, "__dict__", None), getattr(b, "__dict__", None)
    if isinstance(da, dict) and isinstance(db, dict):   # plain objects (splitters, random states, ...)
        return same(da, db, depth + 1)
    return False


def digest(v, depth=0):
    """content snapshot of a parameter value including the state of component objects (identity of the leaves)"""
    if depth > 40:
        return ("...",)
    if _is_est(v):
        return ("est", id(v), tuple(sorted((k, digest(x, depth + 1)) for k, x in vars(v).items())))
    if isinstance(v, (list, tuple)):
        return (type(v).__name__, tuple(digest(x, depth + 1) for x in v))
    if isinstance(v, dict):
        return ("dict", tuple((repr(k), digest(x, depth + 1)) for k, x in v.items()))
    if isinstance(v, np.ndarray):
        return ("nd", v.shape, v.tobytes() if v.dtype != object else repr(v.tolist()))
    if isinstance(v, (pd.Series, pd.DataFrame, pd.Index)):
        return ("pd", id(v), v.shape, repr(v.values.tolist()))
    if v is None or isinstance(v, (bool, int, float, str, np.generic)):
        return ("v", type(v).__name__, repr(v))
    return ("o", id(v))


def short(v, n=90):
    try:
        s = repr(v)
    except Exception:
        s = f"<{type(v).__name__}>"
    s = " ".join(s.split())
    return s if len(s) <= n else s[:n] + "..."


def err(e):
    return f"{type(e).__name__}: {short(str(e), 160)}"


# ----------------------------------------------------------------------------------------------------------------
# discovery of the estimator classes
# ----------------------------------------------------------------------------------------------------------------
_DISCOVERED = None


def discover():
    """{qualified name: class} for every sklearn-protocol class defined in an importable sktime module, and the
    list of modules that cannot be imported in the sandbox"""
    global _DISCOVERED
    if _DISCOVERED is not None:
        return _DISCOVERED
    import sktime
    import contextlib
    import io
    classes, broken = {}, []
    with warnings.catch_warnings(), contextlib.redirect_stdout(io.StringIO()):
        warnings.simplefilter("ignore")
        for _, name, _ in pkgutil.walk_packages(sktime.__path__, prefix="sktime."):
            parts = name.split(".")
            if any(p in SKIP_MODULE_PARTS for p in parts):
                continue
            try:
                mod = importlib.import_module(name)
            except Exception:
                broken.append(name)
                continue
            for k in list(vars(mod).values()):
                if inspect.isclass(k) and issubclass(k, SkBase) and (k.__module__ or "").startswith("sktime."):
                    classes[k.__module__ + "." + k.__name__] = k
    _DISCOVERED = (dict(sorted(classes.items())), broken)
    return _DISCOVERED


def init_params(cls):
    """constructor argument names with their defaults (inspect.Parameter.empty when there is none)"""
    init = cls.__init__
    if init is object.__init__:
        return {}
    out = {}
    for p in list(inspect.signature(init).parameters.values())[1:]:
        if p.kind in (p.VAR_POSITIONAL, p.VAR_KEYWORD):
            continue
        out[p.name] = p.default
    return out


def is_public_concrete(cls):
    n = cls.__name__
    return not (n.startswith("_") or n.startswith("Base") or getattr(cls, "__abstractmethods__", None))


def standins(cls):
    """values for the constructor arguments without default: small real estimators"""
    from sklearn.preprocessing import StandardScaler
    from sktime.forecasting.model_selection import SingleWindowSplitter
    from sktime.forecasting.naive import NaiveForecaster
    from sktime.transformations.panel.compose import SeriesToSeriesRowTransformer
    from sktime.transformations.series.boxcox import LogTransformer
    from sktime.transformations.series.detrend import Detrender
    name = cls.__name__
    fcs = [("a", NaiveForecaster("last")), ("b", NaiveForecaster("mean"))]

    def clf():
        from sktime.classification.dictionary_based import IndividualBOSS
        return IndividualBOSS(window_size=6, word_length=2, alphabet_size=2)

    def row():
        return SeriesToSeriesRowTransformer(StandardScaler(), check_transformer=False)

    by_class = {
        "OptionalPassthrough": {"transformer": LogTransformer},
        "TSCStrategy": {"estimator": clf},
        "TSRStrategy": {"estimator": StubReg},
        "BaseSupervisedLearningStrategy": {"estimator": StubReg},
        "BaseStrategy": {"estimator": StubReg},
        "ColumnEnsembleClassifier": {"estimators": lambda: [("c0", clf(), [0])]},
        "BaseColumnEnsembleClassifier": {"estimators": lambda: [("c0", clf(), [0])]},
        "FittedParamExtractor": {"forecaster": NaiveForecaster, "param_names": lambda: ["window_length"]},
    }
    by_name = {
        "forecasters": lambda: fcs,
        "steps": lambda: [("t", Detrender()), ("f", NaiveForecaster("last"))],
        "estimator": StubReg,
        "final_regressor": StubReg,
        "forecaster": lambda: NaiveForecaster("mean"),
        "cv": lambda: SingleWindowSplitter(fh=1),
        "param_grid": lambda: {"window_length": [2, 5]},
        "param_distributions": lambda: {"window_length": [2, 5]},
        "transformer_list": lambda: [("t1", row()), ("t2", row())],
        "transformers": lambda: [("t1", row(), [0])],
        "transformer": StandardScaler,
        "func": lambda: np.mean,
    }
    out = {}
    for p, d in init_params(cls).items():
        if p in by_class.get(name, {}):
            out[p] = by_class[name][p]()
        elif d is inspect.Parameter.empty:
            out[p] = by_name[p]() if p in by_name else Sentinel("req-" + p)
    return out


def alt_value(default, p):
    """a second, type-compatible value for an argument whose constructor refuses an arbitrary object"""
    if isinstance(default, bool):
        return not default
    if isinstance(default, int):
        return default + 1
    if isinstance(default, float):
        return default / 2 + 0.125
    if isinstance(default, str):
        return default + "_" + p
    if isinstance(default, (list, tuple)):
        return type(default)(list(default) + [1])
    return Sentinel("alt-" + p)


# ----------------------------------------------------------------------------------------------------------------
# family 1: the constructor stores every argument under its own name
# ----------------------------------------------------------------------------------------------------------------
def _is_wrapper_base(est):
    n = type(est).__name__
    return n.startswith("_") and n.endswith("MetricFunctionWrapper") and "func" in init_params(type(est))


def _is_strategy(est):
    return (type(est).__module__ or "") == "sktime.benchmarking.strategies"


def known_param_defect(est, p, passed_value, got):
    """the two known families whose constructor rewrites an argument (narrow: this argument, this rewrite only)"""
    if p == "name" and passed_value is None and isinstance(got, str):
        if _is_strategy(est) and got == type(getattr(est, "estimator", None)).__name__:
            return KF_STRATEGY
        if _is_wrapper_base(est) and got == getattr(getattr(est, "_func", None), "__name__", None):
            return KF_WRAPPER
    return None


def read_back(R, est, cname, passed, desc):
    """get_params(deep=False) has exactly the constructor arguments and returns what was passed"""
    names = set(init_params(type(est)))
    try:
        got = est.get_params(deep=False)
    except Exception as e:
        if _is_wrapper_base(est) and isinstance(e, AttributeError) and "'func'" in str(e) and getattr(est, "_func", None) is passed.get("func"):
            R.check(KF_WRAPPER, False, f"{desc}: get_params(deep=False) raised {err(e)} (the argument func is kept as _func)")
        else:
            R.check("get-params-returns-constructor-arguments", False, f"{desc}: get_params(deep=False) raised {err(e)}")
        # still read the other arguments the way get_params would
        got = {}
        for p in names:
            try:
                got[p] = getattr(est, p)
            except Exception:
                if not (_is_wrapper_base(est) and p == "func"):
                    R.check("argument-stored-under-own-name", False, f"{desc}: no attribute {p!r}")
    else:
        R.check("get-params-lists-constructor-arguments", set(got) == names,
                f"{desc}: get_params(deep=False) has keys {sorted(got)}, the constructor has {sorted(names)}")
    for p, v in passed.items():
        if p not in got:
            continue
        g = got[p]
        ok = g is v or (not isinstance(v, Sentinel) and type(g) is type(v) and same(g, v))
        kf = None if ok else known_param_defect(est, p, v, g)
        R.check(kf or "get-params-returns-constructor-arguments", ok, f"{desc}: get_params()[{p!r}] is {short(g)}, passed {short(v)}")
        try:
            a = getattr(est, p)
            R.check("argument-stored-under-own-name", a is g, f"{desc}: attribute {p!r} is {short(a)} but get_params gives {short(g)}")
        except Exception as e:
            R.check("argument-stored-under-own-name", False, f"{desc}: getattr({p!r}) raised {err(e)}")


def check_clone(R, est, desc):
    try:
        with warnings.catch_warnings():
            warnings.simplefilter("ignore")
            c = clone(est)
    except Exception as e:
        if _is_wrapper_base(est) and isinstance(e, AttributeError) and "'func'" in str(e):
            R.check(KF_WRAPPER, False, f"{desc}: clone raised {err(e)}")
        else:
            R.check("clone-reproduces-parameters", False, f"{desc}: clone raised {err(e)}")
        return None
    ok = c is not est and type(c) is type(est)
    bad = ""
    if ok:
        pa, pb = est.get_params(deep=False), c.get_params(deep=False)
        for k in pa:
            if k not in pb or not same(pa[k], pb[k]):
                ok, bad = False, f" parameter {k!r}: {short(pa[k])} vs clone {short(pb.get(k))}"
                break
    R.check("clone-reproduces-parameters", ok, f"{desc}: clone is {short(c)}{bad}")
    if hasattr(c, "is_fitted"):
        R.check("clone-is-unfitted", c.is_fitted is False, f"{desc}: clone reports is_fitted={c.is_fitted!r}")
        try:
            inner = [k for k, v in deep_params(c).items() if _is_est(v) and getattr(v, "is_fitted", False) is not False]
            R.check("clone-is-unfitted", not inner, f"{desc}: components {inner[:4]} of the clone report is_fitted True")
        except Exception:
            pass
    return c


def construct_checks(R, qual, cls, stats):
    """sentinel in every argument in turn, then in all arguments at once"""
    cname = cls.__name__
    try:
        params = init_params(cls)
        base = standins(cls)
    except Exception:
        stats["not-constructible"].append(cname)
        return None
    try:
        with warnings.catch_warnings():
            warnings.simplefilter("ignore")
            default = cls(**base)
    except Exception:
        stats["not-constructible"].append(cname)
        return None
    if is_abstract(cls, default):
        stats["abstract"].append(cname)
        return None
    stats["constructed"] += 1
    passed = {p: (base[p] if p in base else d) for p, d in params.items()}
    read_back(R, default, cname, passed, f"{cname}({', '.join(f'{k}={short(v, 30)}' for k, v in base.items())})")
    if hasattr(default, "is_fitted"):
        R.check("fresh-is-unfitted", default.is_fitted is False, f"fresh {cname} reports is_fitted={default.is_fitted!r}")
    check_clone(R, default, f"default {cname}")

    def build(kw):
        with warnings.catch_warnings():
            warnings.simplefilter("ignore")
            return cls(**kw)

    for p, d in params.items():
        d = None if d is inspect.Parameter.empty else d
        for v in (Sentinel(p), alt_value(d, p)):
            kw = dict(base)
            kw[p] = v
            try:
                est = build(kw)
            except Exception:
                continue            # the constructor validates this argument: nothing is claimed
            desc = f"{cname}({p}={short(v, 40)})"
            read_back(R, est, cname, kw, desc)
            if hasattr(est, "is_fitted"):
                R.check("fresh-is-unfitted", est.is_fitted is False, f"{desc} reports is_fitted={est.is_fitted!r}")
            check_clone(R, est, desc)
            break
    if len(params) > 1:
        kw = {p: Sentinel("all-" + p) for p in params}
        try:
            est = build(kw)
        except Exception:
            est = None
        if est is not None:
            read_back(R, est, cname, kw, f"{cname}(every argument a distinct object)")
    return default


# ----------------------------------------------------------------------------------------------------------------
# family 2: get_params / set_params / nested parameters / replacement of components
# ----------------------------------------------------------------------------------------------------------------
def fresh_value(v, tag):
    """a new value, different from v, that keeps deep get_params working"""
    if _is_est(v):
        c = clone(v)
        return c
    if isinstance(v, list):
        return list(v)
    if isinstance(v, tuple):
        return tuple(v)
    if isinstance(v, dict):
        return dict(v)
    if v is None or isinstance(v, (bool, int, float, str, np.generic)):
        return Sentinel(tag)
    return copy.copy(v)


def component_lists(est):
    """{parameter name: [(name, component, ...)]} for the list-of-named-components parameters"""
    out = {}
    for k, v in est.get_params(deep=False).items():
        if isinstance(v, list) and v and all(isinstance(t, tuple) and len(t) >= 2 and isinstance(t[0], str) for t in v):
            out[k] = v
    return out


def lookup(owner, leaf):
    """what `leaf` means on the component object: one of its named components, otherwise its attribute"""
    for items in component_lists(owner).values():
        for t in items:
            if t[0] == leaf:
                return t[1]
    return getattr(owner, leaf)


def deep_params(est):
    with warnings.catch_warnings():
        warnings.simplefilter("ignore")
        return est.get_params(deep=True)


def _rebuilt_list(old, now, replaced):
    if not (isinstance(old, list) and isinstance(now, list) and len(old) == len(now)):
        return False
    for a, b in zip(old, now):
        if not (isinstance(a, tuple) and isinstance(b, tuple) and len(a) == len(b) and len(a) >= 2 and a[0] == b[0]):
            return False
        if not (a[1] is b[1] or b[1] is replaced) or any(x is not y and not same(x, y) for x, y in zip(a[2:], b[2:])):
            return False
    return True


def _strategy_key(est, ex, default):
    """benchmarking strategies expose estimator / name as properties without setter"""
    if _is_strategy(est) and isinstance(ex, AttributeError) and ("no setter" in str(ex) or "can't set attribute" in str(ex)):
        return KF_STRATEGY
    return default


def param_checks(R, est, label, rng, limit):
    """est is a valid (fittable) instance; everything is done on clones"""
    try:
        p = deep_params(est)
    except Exception as e:
        R.check("get-params-deep", False, f"{label}: get_params(deep=True) raised {err(e)}")
        return
    shallow = est.get_params(deep=False)
    R.check("get-params-deep", all(k in p and p[k] is shallow[k] for k in shallow),
            f"{label}: deep get_params does not contain the constructor arguments {sorted(shallow)} unchanged")

    # --- set_params(**get_params()) ---------------------------------------------------------------------------
    for deep in (True, False):
        try:
            e = clone(est)
            before = e.get_params(deep=deep)
            snap = {k: digest(v) for k, v in before.items()}
            ret = e.set_params(**before)
            after = e.get_params(deep=deep)
            ok = ret is e and after.keys() == before.keys() and all(same(after[k], before[k]) for k in before)
            bad = [k for k in before if k not in after or not same(after[k], before[k])]
            R.check("set-params-get-params-roundtrip", ok,
                    f"{label}: set_params(**get_params(deep={deep})) returned {short(ret, 40)}; changed/missing keys {bad[:4]}")
            R.check("set-params-get-params-roundtrip", all(digest(after[k]) == snap[k] for k in before if k in after and "__" not in k)
                    or not ok, f"{label}: set_params(**get_params(deep={deep})) altered the content of a parameter value")
        except Exception as ex:
            R.check(_strategy_key(est, ex, "set-params-get-params-roundtrip"), False, f"{label}: set_params(**get_params(deep={deep})) raised {err(ex)}")
    try:
        e = clone(est)
        R.check("set-params-get-params-roundtrip", e.set_params() is e, f"{label}: set_params() without arguments did not return self")
    except Exception as ex:
        R.check("set-params-get-params-roundtrip", False, f"{label}: set_params() raised {err(ex)}")

    # --- every own (non-component) parameter can be written and read back -------------------------------------------
    lists = component_lists(est)
    for k, v in shallow.items():
        if k in lists or _is_est(v) or (isinstance(v, list) and v and isinstance(v[0], tuple)):
            continue
        try:
            e = clone(est)
            ids = {a: id(b) for a, b in e.get_params(deep=False).items()}
            new = Sentinel("set-" + k)
            ret = e.set_params(**{k: new})
            q = e.get_params(deep=False)
            ok = ret is e and q.get(k) is new and getattr(e, k) is new
            R.check("set-params-then-get-params", ok, f"{label}: after set_params({k}={new!r}) get_params()[{k!r}] is {short(q.get(k), 40)}")
            moved = [a for a in ids if a != k and id(q.get(a)) != ids[a]]
            R.check("set-params-leaves-other-parameters", not moved, f"{label}: set_params({k}=...) also changed {moved[:4]}")
        except Exception as ex:
            R.check(_strategy_key(est, ex, "set-params-then-get-params"), False, f"{label}: set_params({k}=<object>) raised {err(ex)}")

    # --- unknown names ------------------------------------------------------------------------------------------
    comp_keys = [k for k, v in p.items() if _is_est(v)]
    unknown = ["no_such_parameter", "no_such__parameter"] + [k + "__no_such_parameter" for k in comp_keys[:limit]]
    for k in unknown:
        e = clone(est)
        before = {a: id(b) for a, b in deep_params(e).items()}
        try:
            e.set_params(**{k: 1})
            R.check("unknown-parameter-rejected", False, f"{label}: set_params({k}=1) was accepted")
        except ValueError:
            now = {a: id(b) for a, b in deep_params(e).items()}
            R.check("unknown-parameter-rejected", now == before, f"{label}: rejected set_params({k}=1) changed parameters")
        except Exception as ex:
            R.check("unknown-parameter-rejected", False, f"{label}: set_params({k}=1) raised {err(ex)} (not ValueError)")
    if hasattr(est, "__dict__") and "no_such_parameter" in vars(est):
        R.check("unknown-parameter-rejected", False, f"{label}: stray attribute after rejected set_params")

    # --- nested keys read and write the component's attribute ----------------------------------------------------
    nested = [k for k in p if "__" in k]
    for k in nested:
        owner_key, leaf = k.rsplit("__", 1)
        owner = p.get(owner_key)
        if owner is None or not _is_est(owner):
            R.check("nested-key-reads-component-parameter", False, f"{label}: key {k!r} listed but {owner_key!r} is {short(owner)}")
            continue
        try:
            R.check("nested-key-reads-component-parameter", lookup(owner, leaf) is p[k],
                    f"{label}: get_params()[{k!r}] is {short(p[k])}, the component itself has {short(lookup(owner, leaf))}")
        except Exception as ex:
            R.check("nested-key-reads-component-parameter", False, f"{label}: component {owner_key!r} has no attribute {leaf!r}: {err(ex)}")
    pick = nested if len(nested) <= limit else rng.sample(nested, limit)
    for k in pick:
        owner_key, leaf = k.rsplit("__", 1)
        try:
            e = clone(est)
            q = deep_params(e)
            owner = q[owner_key]
            new = fresh_value(q[k], "w-" + k)
            ids = {a: id(b) for a, b in q.items()}
            ret = e.set_params(**{k: new})
            q2 = deep_params(e)
            ok = ret is e and lookup(owner, leaf) is new and q2.get(k) is new and q2.get(owner_key) is owner
            R.check("nested-key-writes-component-parameter", ok,
                    f"{label}: after set_params({k}={short(new, 40)}) the component has {short(lookup(owner, leaf), 40)}, "
                    f"get_params gives {short(q2.get(k), 40)}, component object kept: {q2.get(owner_key) is owner}")
            # frame: nothing outside the written key (and the keys below it) moved
            moved = [a for a, b in ids.items() if a != k and not a.startswith(k + "__") and (a not in q2 or id(q2[a]) != b)]
            # a list of named components may be rebuilt when one entry is replaced: same names, other entries kept
            moved = [a for a in moved if not _rebuilt_list(q[a], q2.get(a), new)]
            R.check("nested-write-leaves-other-parameters", not moved, f"{label}: set_params({k}=...) also changed {moved[:4]}")
        except Exception as ex:
            R.check("nested-key-writes-component-parameter", False, f"{label}: set_params({k}=<new value>) raised {err(ex)}")

    # --- single components are replaced by name -------------------------------------------------------------------
    for k in [k for k in shallow if _is_est(shallow[k])][:limit]:
        try:
            e = clone(est)
            new = clone(e.get_params(deep=False)[k])
            e.set_params(**{k: new})
            q = deep_params(e)
            ok = getattr(e, k) is new and q[k] is new
            for a, b in new.get_params(deep=False).items():
                ok = ok and q.get(k + "__" + a) is b
            R.check("component-replaced-by-name", ok, f"{label}: set_params({k}=<new estimator>) did not install the new component")
        except Exception as ex:
            R.check(_strategy_key(est, ex, "component-replaced-by-name"), False, f"{label}: set_params({k}=<new estimator>) raised {err(ex)}")

    # --- lists of named components -----------------------------------------------------------------------------------
    for attr in component_lists(est):
        named_list_checks(R, est, attr, label, rng, limit)


def _entries(est, attr):
    return [(t[0], t[1]) for t in est.get_params(deep=False)[attr]]


def named_list_checks(R, est, attr, label, rng, limit):
    """model: the parameter `attr` is a list of (name, component[, extra]); set_params may replace the whole list,
    a component by name and a parameter of a component"""
    items0 = est.get_params(deep=False)[attr]
    names0 = [t[0] for t in items0]
    p0 = deep_params(est)
    R.check("components-listed-by-name", all(n in p0 and p0[n] is t[1] for n, t in zip(names0, items0)),
            f"{label}: get_params does not map the names {names0} to the components of {attr!r}")

    def rebuilt(e, renames=None, swap=None):
        """a new list for `attr` made of clones, optionally with other names"""
        out = []
        for t in e.get_params(deep=False)[attr]:
            n = (renames or {}).get(t[0], t[0])
            c = clone(t[1]) if _is_est(t[1]) else t[1]
            out.append((n, c) + tuple(t[2:]))
        return out

    # 1. replace one component by name
    for i, n in enumerate(names0[:limit]):
        try:
            e = clone(est)
            before = _entries(e, attr)
            new = clone(before[i][1]) if _is_est(before[i][1]) else before[i][1]
            e.set_params(**{n: new})
            after = _entries(e, attr)
            want = [(a, new if j == i else b) for j, (a, b) in enumerate(before)]
            ok = len(after) == len(want) and all(x[0] == y[0] and x[1] is y[1] for x, y in zip(after, want))
            ok = ok and deep_params(e).get(n) is new
            wrong = [y[0] for x, y in zip(after, want) if x[0] != y[0] or x[1] is not y[1]]
            R.check("component-replaced-by-name", ok,
                    f"{label}: set_params({n}=<new estimator>): {attr} has the names {[x[0] for x in after]}; expected the new object at {n!r} and "
                    f"the other entries kept, wrong entries: {wrong}; get_params()[{n!r}] is the new object: {deep_params(e).get(n) is new}")
            extras_ok = [tuple(t[2:]) for t in e.get_params(deep=False)[attr]] == [tuple(t[2:]) for t in items0] or \
                all(same(a[2:], b[2:]) for a, b in zip(e.get_params(deep=False)[attr], items0))
            R.check("component-replaced-by-name", extras_ok, f"{label}: set_params({n}=...) changed the extra entries of {attr!r}")
        except Exception as ex:
            R.check("component-replaced-by-name", False, f"{label}: set_params({n}=<new estimator>) raised {err(ex)}")

    # 2. replace the whole list, alone and together with by-name / nested keys
    renames_all = {n: "r" + str(i) + n for i, n in enumerate(names0)}
    plans = []
    for ren_tag, ren in (("same names", {}), ("new names", renames_all)):
        new_names = [ren.get(n, n) for n in names0]
        plans.append((ren_tag, ren, None, None))
        for target in sorted(set(new_names[:2] + new_names[-1:])):
            plans.append((ren_tag, ren, ("name", target), None))
            plans.append((ren_tag, ren, None, target))
            plans.append((ren_tag, ren, ("name", target), target))
        if ren:
            for target in sorted(set(names0[:1] + names0[-1:])):
                plans.append((ren_tag, ren, ("old", target), None))
                plans.append((ren_tag, ren, None, "OLD:" + target))
    if len(plans) > 4 * limit:
        plans = plans[:2] + rng.sample(plans[2:], 4 * limit - 2)
    for ren_tag, ren, by_name, nested_of in plans:
        try:
            e = clone(est)
            new_list = rebuilt(e, ren)
            model = [(t[0], t[1]) for t in new_list]
            model_names = [n for n, _ in model]
            kw = {attr: new_list}
            expect_error = False
            if by_name:
                tgt = by_name[1]
                idx = model_names.index(tgt) if tgt in model_names else None
                src = model[idx][1] if idx is not None else _entries(e, attr)[names0.index(tgt)][1]
                comp = clone(src) if _is_est(src) else src
                kw[tgt] = comp
                if idx is None:
                    expect_error = True
                else:
                    model[idx] = (tgt, comp)
            if nested_of:
                old = nested_of.startswith("OLD:")
                tgt = nested_of[4:] if old else nested_of
                holder = _entries(e, attr)[names0.index(tgt)][1] if old else model[model_names.index(tgt)][1]
                leafs = sorted(holder.get_params(deep=False)) if _is_est(holder) else []
                leafs = [a for a in leafs if not _is_est(holder.get_params(deep=False)[a])
                         and not isinstance(holder.get_params(deep=False)[a], (list, tuple, dict))]
                if not leafs:
                    continue
                leaf = leafs[rng.randrange(len(leafs))]
                val = Sentinel("n-" + tgt + "-" + leaf)
                kw[tgt + "__" + leaf] = val
                if old and tgt not in model_names:
                    expect_error = True
            call = f"set_params({', '.join(k + '=' + (short([t[0] for t in v], 40) + ' (list with ' + ren_tag + ')' if k == attr else short(v, 30)) for k, v in kw.items())})"
            try:
                e.set_params(**kw)
                raised = None
            except ValueError as ex:
                raised = ex
            after = _entries(e, attr) if raised is None else []
            # known: the column composites route set_params through a derived attribute, so the component keys are
            # applied to the old list and the list is replaced afterwards -- symptom: exactly the given list is installed
            lost = (type(est).__name__ in ("ColumnEnsembleClassifier", "ColumnTransformer") and raised is None and len(kw) > 1
                    and len(after) == len(new_list) and all(x[1] is t[1] for x, t in zip(after, new_list)))

            def chk(key, ok, detail):
                R.check(KF_COLUMN_SET if (lost and not ok) else key, ok, detail)

            if expect_error:
                # a key naming a component that is not in the list being installed: either rejected, or the value
                # must be readable afterwards under that key
                if raised is None:
                    q = deep_params(e)
                    bad = [k for k in kw if k != attr and q.get(k, None) is not kw[k]]
                    chk("unknown-parameter-rejected", not bad,
                        f"{label}: {call} was accepted but afterwards get_params() does not give the value passed for {bad}")
                else:
                    R.check("unknown-parameter-rejected", True, "")
                continue
            if raised is not None:
                if ren and (by_name or nested_of):
                    # keys of the list being installed are not yet listed by get_params(): refusing is also consistent
                    R.check("component-list-replaced", True, "")
                else:
                    R.check("component-list-replaced", False, f"{label}: {call} raised {err(raised)}")
                continue
            ok = len(after) == len(model) and all(x[0] == y[0] and x[1] is y[1] for x, y in zip(after, model))
            wrong = [y[0] for x, y in zip(after, model) if x[0] != y[0] or x[1] is not y[1]]
            chk("component-list-replaced" if not by_name else "component-replaced-by-name", ok,
                f"{label}: {call}: {attr} has the names {[x[0] for x in after]} (expected {[y[0] for y in model]}); the entries {wrong} are not "
                f"the objects that were passed (list entries first, then components written by name)")
            q = deep_params(e)
            bad = [k for k in kw if k != attr and q.get(k, None) is not kw[k]]
            chk("set-params-then-get-params", not bad, f"{label}: {call}: get_params() does not return the value written for {bad}")
            if nested_of:
                tgt = nested_of
                holder = dict(after).get(tgt)
                leaf = [k for k in kw if k.startswith(tgt + "__")][0].split("__", 1)[1]
                chk("nested-key-writes-component-parameter", holder is not None and getattr(holder, leaf, None) is kw[tgt + "__" + leaf],
                    f"{label}: {call}: component {tgt!r} has {leaf}={short(getattr(holder, leaf, None), 40)}")
            stray = [k for k in kw if k != attr and "__" not in k and k in vars(e)]
            R.check("component-replaced-by-name", not stray, f"{label}: {call} created the instance attribute(s) {stray} instead of replacing the component")
        except Exception as ex:
            R.check("component-list-replaced", False, f"{label}: replacing {attr!r} ({ren_tag}, by_name={by_name}, nested={nested_of}) raised {err(ex)}")


# ----------------------------------------------------------------------------------------------------------------
# families 3 and 4: fitted state
# ----------------------------------------------------------------------------------------------------------------
def make_data(seed, l0=0):
    rng = np.random.RandomState(seed)
    n = 24
    v = 20.0 + 0.5 * np.arange(n + 8) + np.tile([1.5, -0.5, -1.5, 0.5], (n + 8) // 4) + rng.uniform(0.0, 0.5, n + 8)
    y = pd.Series(v[:n], index=pd.RangeIndex(l0, l0 + n))
    y_new = pd.Series(v[n:n + 5], index=pd.RangeIndex(l0 + n, l0 + n + 5))
    m, length = 8, 16
    cells = []
    labels = np.array([0, 1] * (m // 2))
    for i in range(m):
        base = np.sin(np.arange(length) * (0.4 + 0.9 * labels[i])) * 3 + 10 + rng.uniform(0.0, 0.3, length)
        cells.append(pd.Series(base))
    Xp = pd.DataFrame({"dim_0": cells})
    return {"y": y, "y_new": y_new, "y_empty": y.iloc[:0], "Xp": Xp, "labels": labels.astype(str), "target": rng.uniform(0, 1, m)}


def kind_of(est):
    from sktime.classification.base import BaseClassifier
    from sktime.forecasting.base import BaseForecaster
    from sktime.regression.base import BaseRegressor
    from sktime.transformations.base import (BaseTransformer, _PanelToPanelTransformer, _PanelToTabularTransformer,
                                             _SeriesToPrimitivesTransformer, _SeriesToSeriesTransformer)
    if isinstance(est, BaseForecaster):
        return "forecaster"
    if isinstance(est, BaseClassifier):
        return "classifier"
    if isinstance(est, BaseRegressor):
        return "regressor"
    if isinstance(est, (_SeriesToSeriesTransformer, _SeriesToPrimitivesTransformer)):
        return "series-transformer"
    if isinstance(est, (_PanelToPanelTransformer, _PanelToTabularTransformer)):
        return "panel-transformer"
    if isinstance(est, BaseTransformer) or (hasattr(est, "transform") and hasattr(est, "is_fitted")):
        return "panel-transformer"
    return None


def fit_call(est, kind, D):
    if kind == "forecaster":
        return est.fit(D["y"], fh=D.get("fh", [1, 2, 3]))
    if kind == "classifier":
        return est.fit(D["Xp"], D["labels"])
    if kind == "regressor":
        return est.fit(D["Xp"], D["target"])
    if kind == "series-transformer":
        return est.fit(D["y"])
    return est.fit(D["Xp"], D["labels"])


def apply_calls(est, kind, D):
    """(description, thunk) for every apply-type method with valid arguments"""
    from sktime.forecasting.model_selection import SlidingWindowSplitter
    y, y_new, y_empty, Xp = D["y"], D["y_new"], D["y_empty"], D["Xp"]
    calls = []

    def add(name, desc, *a, **k):
        m = getattr(est, name, None)
        if not callable(m):
            return
        try:
            inspect.signature(m).bind(*a, **k)      # only calls the method's own signature accepts
        except TypeError:
            return
        except ValueError:
            pass
        calls.append((name, f"{name}({desc})", lambda: m(*a, **k)))

    if kind == "forecaster":
        add("predict", "")
        add("predict", "fh=[1, 2]", fh=[1, 2])
        add("predict", "fh=3", fh=3)
        for up in (True, False):
            add("update", f"y_new, update_params={up}", y_new, update_params=up)
            add("update", f"empty series, update_params={up}", y_empty, update_params=up)
        add("update", "y_new", y_new)
        cv = SlidingWindowSplitter(fh=[1], window_length=1, start_with_window=False)
        add("update_predict", "y_new, cv=SlidingWindowSplitter(fh=[1], window_length=1, start_with_window=False)", y_new, cv)
        add("update_predict", "y_new, cv=..., update_params=False", y_new, cv, update_params=False)
        add("update_predict", "y_new", y_new)
        add("score", "y_new, fh=[1..5]", y_new, fh=[1, 2, 3, 4, 5])
        add("score", "y_new[:2], fh=[1, 2]", y_new.iloc[:2], fh=[1, 2])
        add("transform", "y", y)                       # pipelines and tuners over pipelines
        add("inverse_transform", "y", y)
    elif kind in ("classifier", "regressor"):
        add("predict", "X", Xp)
        add("predict_proba", "X", Xp)
        add("score", "X, y", Xp, D["labels"] if kind == "classifier" else D["target"])
    elif kind == "series-transformer":
        add("transform", "z", y)
        add("transform", "z_new", y_new)
        add("inverse_transform", "z", y)
        add("inverse_transform", "z_new", y_new)
        for up in (True, False):
            add("update", f"z_new, update_params={up}", y_new, update_params=up)
            add("update", f"empty series, update_params={up}", y_empty, update_params=up)
        add("update", "z_new", y_new)
        add("update", "empty series", y_empty)
    else:
        add("transform", "X", Xp)
        add("inverse_transform", "X", Xp)
    return [c for c in calls if c[0] in APPLY_METHODS]


def not_fitted_checks(R, est, kind, D, label, state):
    from sktime.exceptions import NotFittedError
    for name, desc, thunk in apply_calls(est, kind, D):
        try:
            with warnings.catch_warnings():
                warnings.simplefilter("ignore")
                out = thunk()
            R.check("not-fitted-raises", False, f"{state} {label}.{desc} returned {short(out, 60)} instead of raising NotFittedError")
        except NotFittedError:
            R.check("not-fitted-raises", True, "")
        except NotImplementedError:
            continue                 # the class does not offer this operation at all
        except Exception as ex:
            R.check("not-fitted-raises", False, f"{state} {label}.{desc} raised {err(ex)} instead of NotFittedError")
        R.check("not-fitted-call-keeps-unfitted", est.is_fitted is False, f"{state} {label}.{desc} left is_fitted={est.is_fitted!r}")


class _Timeout(BaseException):
    pass


def guarded(seconds, thunk):
    """run thunk(); give up (raise _Timeout) after `seconds` when an interval timer is available"""
    import signal
    import threading
    if not hasattr(signal, "setitimer") or threading.current_thread() is not threading.main_thread():
        return thunk()

    def handler(*a):
        raise _Timeout()

    old = signal.signal(signal.SIGALRM, handler)
    signal.setitimer(signal.ITIMER_REAL, seconds)
    try:
        return thunk()
    finally:
        signal.setitimer(signal.ITIMER_REAL, 0)
        signal.signal(signal.SIGALRM, old)


def _plain(v):
    return v is None or isinstance(v, (bool, int, float, str, np.generic))


def frame_snapshot(est):
    before = deep_params(est)
    return {"before": before, "ids": {k: id(v) for k, v in before.items()}, "digest": {k: digest(v) for k, v in before.items()},
            "copies": {k: copy.deepcopy(v) for k, v in est.get_params(deep=False).items() if not _is_est(v)}}


def frame_check(R, est, label, snap, when):
    """every constructor parameter (deep) is the object it was, with the content and state it had"""
    before, ids = snap["before"], snap["ids"]
    try:
        after = deep_params(est)
    except Exception as ex:
        R.check("fit-leaves-parameters", False, f"{label}: get_params after {when} raised {err(ex)}")
        return
    changed = [k for k in before if k not in after or (id(after[k]) != ids[k] and not (
        _plain(before[k]) and type(after[k]) is type(before[k]) and same(after[k], before[k])))]
    changed += [k for k in after if k not in before]
    mutated = [k for k in before if k in after and k not in changed and digest(after[k]) != snap["digest"][k]
               and not _plain(before[k])]
    shallow = est.get_params(deep=False)
    mutated += [k for k, v in snap["copies"].items() if k not in changed and k not in mutated and not same(shallow.get(k), v)]
    cname = type(est).__name__
    ex_txt = ""
    if changed:
        b0, a0 = short(before.get(changed[0]), 50), short(after.get(changed[0]), 50)
        ex_txt = f" (e.g. {changed[0]}: {b0} -> {a0}{', a different object' if a0 == b0 else ''})"
    if cname == "FeatureUnion" and (changed or mutated):
        # sklearn's FeatureUnion.fit fits the given transformers in place and writes them back into transformer_list
        names = {t[0] for t in before.get("transformer_list", [])}
        if all(k == "transformer_list" or k.split("__")[0] in names for k in changed + mutated):
            R.check(KF_FEATURE_UNION, False, f"{label}: {when} fitted/replaced the transformers given in transformer_list: {(changed + mutated)[:5]}")
            return
    if cname == "ContractableBOSS" and changed and set(changed) <= {"time_limit", "n_parameter_samples"} and not mutated:
        # fit does `self.time_limit = self.time_limit * 60` and, under a time limit, `self.n_parameter_samples = 0`
        R.check(KF_CBOSS, False, f"{label}: {when} changed " + ", ".join(f"{k} {short(before[k])} -> {short(after[k])}" for k in changed))
        return
    R.check("fit-leaves-parameters", not changed, f"{label}: after {when} get_params() gives other values for {changed[:5]}{ex_txt}")
    R.check("fit-leaves-parameter-contents", not mutated, f"{label}: {when} changed the content/state of the parameter value(s) {mutated[:5]}")


def fitted_state_checks(R, est, label, D, stats, budget, refit=True, note=True):
    """est: a fresh valid instance (is consumed); returns the wall time of the first fit (None when it did not run)"""
    import time
    kind = kind_of(est)
    if kind is None or not hasattr(est, "is_fitted"):
        return None
    R.check("fresh-is-unfitted", est.is_fitted is False, f"fresh {label} reports is_fitted={est.is_fitted!r}")
    not_fitted_checks(R, est, kind, D, label, "fresh")
    c0 = clone(est)
    R.check("clone-is-unfitted", c0.is_fitted is False, f"clone of fresh {label} reports is_fitted={c0.is_fitted!r}")
    not_fitted_checks(R, c0, kind, D, label, "clone of fresh")

    snap = frame_snapshot(est)
    t0 = time.time()
    try:
        with warnings.catch_warnings():
            warnings.simplefilter("ignore")
            ret = guarded(budget, lambda: fit_call(est, kind, D))
    except _Timeout:
        if note:
            stats["fit-failed"].append(f"{label} (fit longer than {budget}s)")
        return None
    except Exception as ex:
        if note:
            stats["fit-failed"].append(f"{label} ({type(ex).__name__})")
        return None
    took = time.time() - t0
    stats["fitted"] += 1
    R.check("fit-returns-self", ret is est, f"{label}.fit returned {short(ret, 60)}")
    R.check("fit-sets-is-fitted", est.is_fitted is True, f"{label}: is_fitted={est.is_fitted!r} after fit")
    frame_check(R, est, label, snap, "fit")

    # clone of the fitted estimator is unfitted again and behaves like a fresh one
    c = check_clone(R, est, f"fitted {label}")
    if c is not None:
        not_fitted_checks(R, c, kind, D, label, "clone of fitted")
    if refit and took < budget / 3:
        try:
            with warnings.catch_warnings():
                warnings.simplefilter("ignore")
                ret = guarded(budget, lambda: fit_call(est, kind, D))
            R.check("fit-returns-self", ret is est and est.is_fitted is True, f"second {label}.fit returned {short(ret, 60)}, is_fitted={est.is_fitted!r}")
            frame_check(R, est, label, snap, "the second fit")
        except _Timeout:
            pass
        except Exception as ex:
            if note:
                stats["fit-failed"].append(f"{label} second fit ({type(ex).__name__})")
    return took


OPTION_VARIANTS = {
    "NaiveForecaster": [{"strategy": "mean"}, {"strategy": "drift"}, {"strategy": "mean", "sp": 2, "window_length": 4},
                        {"strategy": "last", "sp": 3}, {"strategy": "drift", "window_length": 5}],
    "Imputer": [{"method": m} for m in ("mean", "median", "ffill", "bfill", "linear", "nearest", "random", "drift")] +
               [{"method": "constant", "value": 1.5}],
    "Deseasonalizer": [{"model": "multiplicative"}],
    "PolynomialTrendForecaster": [{"degree": 2}, {"with_intercept": False}],
    "EnsembleForecaster": [{"aggfunc": a} for a in ("median", "min", "max")],
    "Detrender": [],
}


def perturbed_fit_checks(R, cls, base, D, stats, rng, how_many, budget):
    """fit with one numeric constructor argument moved off its default: the frame must hold for every assignment"""
    numeric = [p for p, d in init_params(cls).items() if p not in base and isinstance(d, (bool, int, float))
               and d == d and abs(d) != float("inf") and p not in ("verbose", "n_jobs")]
    if len(numeric) > how_many:
        numeric = rng.sample(numeric, how_many)
    for p in numeric:
        d = init_params(cls)[p]
        try:
            with warnings.catch_warnings():
                warnings.simplefilter("ignore")
                est = cls(**dict(base, **{p: alt_value(d, p)}))
                kind = kind_of(est)
                snap = frame_snapshot(est)
                ret = guarded(budget, lambda: fit_call(est, kind, D))
        except (_Timeout, Exception):
            continue
        label = f"{cls.__name__}({p}={alt_value(d, p)!r})"
        stats["fitted"] += 1
        R.check("fit-returns-self", ret is est, f"{label}.fit returned {short(ret, 60)}")
        R.check("fit-sets-is-fitted", est.is_fitted is True, f"{label}: is_fitted={est.is_fitted!r} after fit")
        frame_check(R, est, label, snap, "fit")


# ----------------------------------------------------------------------------------------------------------------
# catalogue of compositions (depth <= 3)
# ----------------------------------------------------------------------------------------------------------------
def compositions(tier):
    from sklearn.preprocessing import StandardScaler
    from sktime.classification.compose import ColumnEnsembleClassifier
    from sktime.classification.dictionary_based import IndividualBOSS
    from sktime.forecasting.compose import (DirectTabularRegressionForecaster, EnsembleForecaster, MultiplexForecaster,
                                            RecursiveTabularRegressionForecaster, StackingForecaster,
                                            TransformedTargetForecaster)
    from sktime.forecasting.exp_smoothing import ExponentialSmoothing
    from sktime.forecasting.model_selection import (ForecastingGridSearchCV, ForecastingRandomizedSearchCV,
                                                    SingleWindowSplitter, SlidingWindowSplitter)
    from sktime.forecasting.naive import NaiveForecaster
    from sktime.forecasting.online_learning import OnlineEnsembleForecaster
    from sktime.forecasting.trend import PolynomialTrendForecaster
    from sktime.series_as_features.compose import FeatureUnion
    from sktime.transformations.panel.compose import ColumnConcatenator, SeriesToSeriesRowTransformer
    from sktime.transformations.panel.reduce import Tabularizer
    from sktime.transformations.series.adapt import TabularToSeriesAdaptor
    from sktime.transformations.series.boxcox import BoxCoxTransformer, LogTransformer
    from sktime.transformations.series.compose import OptionalPassthrough
    from sktime.transformations.series.detrend import ConditionalDeseasonalizer, Deseasonalizer, Detrender

    N = NaiveForecaster
    _Y0 = pd.Series(np.arange(12, dtype=float) + 5.0)

    def pipe():
        return TransformedTargetForecaster([("detrend", Detrender(PolynomialTrendForecaster(degree=1))), ("fcst", N("mean"))])

    def ens():
        return EnsembleForecaster([("a", N("last")), ("b", N("mean", window_length=3))])

    def boss():
        return IndividualBOSS(window_size=6, word_length=2, alphabet_size=2)

    out = [
        ("Detrender(PolynomialTrendForecaster)", lambda: Detrender(PolynomialTrendForecaster(degree=1))),
        ("Detrender()", lambda: Detrender()),
        ("Detrender(Naive)", lambda: Detrender(N("drift"))),
        ("Deseasonalizer(sp=4)", lambda: Deseasonalizer(sp=4)),
        ("ConditionalDeseasonalizer(sp=4)", lambda: ConditionalDeseasonalizer(sp=4)),
        ("OptionalPassthrough(BoxCox)", lambda: OptionalPassthrough(BoxCoxTransformer(), passthrough=False)),
        ("OptionalPassthrough(Log, passthrough)", lambda: OptionalPassthrough(LogTransformer(), passthrough=True)),
        ("TabularToSeriesAdaptor(StandardScaler)", lambda: TabularToSeriesAdaptor(StandardScaler())),
        ("pipeline[detrend, fcst]", pipe),
        ("pipeline[log, deseason, detrend, fcst]", lambda: TransformedTargetForecaster(
            [("log", LogTransformer()), ("deseason", Deseasonalizer(sp=4)), ("detrend", Detrender(PolynomialTrendForecaster(degree=1))),
             ("fcst", N("drift"))])),
        ("pipeline[fcst]", lambda: TransformedTargetForecaster([("fcst", N("last"))])),
        ("ensemble[a, b]", ens),
        ("ensemble[a, b, c]", lambda: EnsembleForecaster([("a", N("last")), ("b", N("drift")), ("c", PolynomialTrendForecaster(degree=1))])),
        ("online-ensemble[a, b]", lambda: OnlineEnsembleForecaster([("a", N("last")), ("b", N("mean"))])),
        ("stacking[a, b]", lambda: StackingForecaster([("a", N("last")), ("b", N("drift"))], final_regressor=StubReg())),
        ("multiplex[x, y, z]", lambda: MultiplexForecaster([("x", N("mean")), ("y", N("last")), ("z", N("drift"))], selected_forecaster="y")),
        ("multiplex[x, y] (nothing selected)", lambda: MultiplexForecaster([("x", N("mean")), ("y", N("last"))])),
        ("grid-search(naive)", lambda: ForecastingGridSearchCV(N("mean"), SingleWindowSplitter(fh=[1, 2, 3]), {"window_length": [2, 5]})),
        ("grid-search(naive, refit=False)", lambda: ForecastingGridSearchCV(N("mean"), SingleWindowSplitter(fh=[1, 2, 3]), {"window_length": [2, 5]},
                                                                           refit=False)),
        ("randomized-search(naive)", lambda: ForecastingRandomizedSearchCV(
            N("mean"), SlidingWindowSplitter(fh=[1, 2, 3], window_length=12, step_length=4), {"window_length": [2, 3, 5]}, n_iter=2, random_state=3)),
        ("direct-reduction(stub)", lambda: DirectTabularRegressionForecaster(StubReg(), window_length=4)),
        ("recursive-reduction(stub)", lambda: RecursiveTabularRegressionForecaster(StubReg(), window_length=4)),
        # depth 2 and 3
        ("ensemble[pipeline, naive]", lambda: EnsembleForecaster([("p", pipe()), ("n", N("last"))])),
        ("pipeline[detrend, ensemble]", lambda: TransformedTargetForecaster([("detrend", Detrender(PolynomialTrendForecaster(degree=1))), ("ens", ens())])),
        ("multiplex[pipeline, ensemble]", lambda: MultiplexForecaster([("p", pipe()), ("e", ens())], selected_forecaster="p")),
        ("stacking[pipeline, naive]", lambda: StackingForecaster([("p", pipe()), ("n", N("last"))], final_regressor=StubReg())),
        ("grid-search(pipeline)", lambda: ForecastingGridSearchCV(pipe(), SingleWindowSplitter(fh=[1, 2, 3]), {"fcst__strategy": ["mean", "last"]})),
        ("grid-search(multiplex)", lambda: ForecastingGridSearchCV(
            MultiplexForecaster([("x", N("mean")), ("y", N("last"))]), SingleWindowSplitter(fh=[1, 2, 3]), {"selected_forecaster": ["x", "y"]})),
        ("ensemble[grid-search(pipeline), expsmoothing]", lambda: EnsembleForecaster(
            [("g", ForecastingGridSearchCV(pipe(), SingleWindowSplitter(fh=[1, 2, 3]), {"fcst__strategy": ["mean", "last"]})),
             ("s", ExponentialSmoothing())])),
        ("pipeline[optional(log), detrend(ensemble), multiplex]", lambda: TransformedTargetForecaster(
            [("opt", OptionalPassthrough(LogTransformer())), ("detrend", Detrender(ens())),
             ("mux", MultiplexForecaster([("x", N("mean")), ("y", N("drift"))], selected_forecaster="x"))])),
        # components that are already fitted when the composite is built: the composite itself is still unfitted
        ("ensemble[fitted a, fitted b]", lambda: EnsembleForecaster([("a", N("last").fit(_Y0)), ("b", N("mean").fit(_Y0, fh=[1]))])),
        ("pipeline[fitted detrend, fitted fcst]", lambda: TransformedTargetForecaster(
            [("detrend", Detrender(PolynomialTrendForecaster(degree=1)).fit(_Y0)), ("fcst", N("mean").fit(_Y0))])),
        ("grid-search(fitted naive)", lambda: ForecastingGridSearchCV(N("mean").fit(_Y0), SingleWindowSplitter(fh=[1, 2, 3]), {"window_length": [2, 5]})),
        ("Detrender(fitted PolynomialTrendForecaster)", lambda: Detrender(PolynomialTrendForecaster(degree=1).fit(_Y0))),
        # panel
        ("column-ensemble[c0, c1]", lambda: ColumnEnsembleClassifier([("c0", boss(), [0]), ("c1", boss(), [0])])),
        ("feature-union[t1, t2]", lambda: FeatureUnion([("t1", SeriesToSeriesRowTransformer(StandardScaler(), check_transformer=False)),
                                                        ("t2", Tabularizer())])),
        ("row-transformer(StandardScaler)", lambda: SeriesToSeriesRowTransformer(StandardScaler(), check_transformer=False)),
        ("column-concatenator", lambda: ColumnConcatenator()),
    ]
    return out


WRAPPERS = ("ensemble", "online", "pipeline", "detrend", "multiplex", "stacking", "grid")


def _wrap(kind, inner):
    """a composite forecaster of the given kind around the forecaster `inner`"""
    from sktime.forecasting.compose import EnsembleForecaster, MultiplexForecaster, StackingForecaster, TransformedTargetForecaster
    from sktime.forecasting.model_selection import ForecastingGridSearchCV, SingleWindowSplitter
    from sktime.forecasting.naive import NaiveForecaster
    from sktime.forecasting.online_learning import OnlineEnsembleForecaster
    from sktime.forecasting.trend import PolynomialTrendForecaster
    from sktime.transformations.series.detrend import Detrender
    if kind == "ensemble":
        return EnsembleForecaster([("m", inner), ("n", NaiveForecaster("last"))])
    if kind == "online":
        return OnlineEnsembleForecaster([("n", NaiveForecaster("mean")), ("m", inner)])
    if kind == "pipeline":
        return TransformedTargetForecaster([("d", Detrender(PolynomialTrendForecaster(degree=1))), ("m", inner)])
    if kind == "detrend":
        return TransformedTargetForecaster([("d", Detrender(inner)), ("n", NaiveForecaster("mean"))])
    if kind == "multiplex":
        return MultiplexForecaster([("n", NaiveForecaster("drift")), ("m", inner)], selected_forecaster="m")
    if kind == "stacking":
        return StackingForecaster([("m", inner), ("n", NaiveForecaster("drift"))], final_regressor=StubReg())
    if kind == "grid":
        plain = sorted(k for k, v in inner.get_params(deep=True).items() if isinstance(v, (str, int)) and not isinstance(v, bool))
        grid = {plain[0]: [inner.get_params(deep=True)[plain[0]]]} if plain else {}
        return ForecastingGridSearchCV(inner, SingleWindowSplitter(fh=[1, 2, 3]), grid)
    raise KeyError(kind)


def generated_compositions(tier, rng):
    """every wrapper kind around every leaf, every wrapper around every wrapper (depth 2), a sample of depth 3"""
    import itertools
    from sktime.forecasting.compose import RecursiveTabularRegressionForecaster
    from sktime.forecasting.naive import NaiveForecaster
    from sktime.forecasting.trend import PolynomialTrendForecaster
    leaves = {"naive": lambda: NaiveForecaster("last", window_length=4), "trend": lambda: PolynomialTrendForecaster(degree=1),
              "reduction": lambda: RecursiveTabularRegressionForecaster(StubReg(), window_length=3)}
    quick = tier == "quick"
    chains = [(w, leaf) for w in WRAPPERS for leaf in leaves]
    d2 = [(a, b, "naive") for a, b in itertools.product(WRAPPERS, WRAPPERS)]
    d3 = [(a, b, c, "naive") for a, b, c in itertools.product(WRAPPERS, WRAPPERS, WRAPPERS)]
    if quick:
        chains = rng.sample(chains, 6)
    chains += rng.sample(d2, 8 if quick else len(d2)) + rng.sample(d3, 3 if quick else 40)
    out = []
    for ch in chains:
        def make(ch=ch):
            est = leaves[ch[-1]]()
            for w in reversed(ch[:-1]):
                est = _wrap(w, est)
            return est
        out.append(("(".join(ch) + ")" * (len(ch) - 1), make))
    return out


# ----------------------------------------------------------------------------------------------------------------
# drivers
# ----------------------------------------------------------------------------------------------------------------
def _one_thread():
    try:
        from threadpoolctl import threadpool_limits
        return threadpool_limits(limits=1)
    except Exception:
        import contextlib
        return contextlib.nullcontext()


def is_abstract(cls, default=None):
    if getattr(cls, "__abstractmethods__", None):
        return True
    if default is not None:
        try:
            default.get_params(deep=False)
        except NotImplementedError:
            return True
        except Exception:
            return False
    return False


def _mro_names(obj_or_cls):
    cls = obj_or_cls if inspect.isclass(obj_or_cls) else type(obj_or_cls)
    return {c.__name__ for c in cls.__mro__}


def _involves(est, only):
    """does the composition contain an object of one of the named classes (or of a subclass)?"""
    if _mro_names(est) & only:
        return True
    try:
        return any(_is_est(v) and (_mro_names(v) & only) for v in deep_params(est).values())
    except Exception:
        return False


def run_all(R, tier, seed, only=None):
    rng = random.Random(seed)
    classes, broken = discover()
    stats = {"constructed": 0, "not-constructible": [], "abstract": [], "fitted": 0, "fit-failed": []}
    quick = tier == "quick"
    limit = 6 if quick else 40
    budget = 4.0 if quick else 25.0
    seeds = [seed] if quick else [seed, seed + 1]
    D = make_data(seed, 0)
    import contextlib
    import io
    with warnings.catch_warnings(), _one_thread(), contextlib.redirect_stdout(io.StringIO()):
        warnings.simplefilter("ignore")
        for qual, cls in classes.items():
            if only and not (_mro_names(cls) & only):
                continue
            if is_abstract(cls):
                stats["abstract"].append(cls.__name__)
                continue
            default = construct_checks(R, qual, cls, stats)
            if default is None:
                continue
            try:
                deep_params(default)
            except Exception:
                continue
            if any(isinstance(v, Sentinel) for v in default.get_params(deep=False).values()):
                continue
            param_checks(R, default, f"default {cls.__name__}", rng, limit)
            if is_public_concrete(cls) and hasattr(default, "is_fitted") and kind_of(default):
                try:
                    base = dict(standins(cls), **FAST.get(cls.__name__, {}))
                    fresh = cls(**base)
                except Exception:
                    continue
                took = fitted_state_checks(R, fresh, cls.__name__, D, stats, budget)
                if took is not None and took < (0.15 if quick else 1.5):
                    perturbed_fit_checks(R, cls, base, D, stats, rng, 4 if quick else 100, budget)
                # option strings select different code paths of fit: the frame must hold on each of them
                for opts in OPTION_VARIANTS.get(cls.__name__, ()):
                    try:
                        var = cls(**dict(base, **opts))
                    except Exception:
                        continue
                    fitted_state_checks(R, var, f"{cls.__name__}({', '.join(f'{k}={v!r}' for k, v in opts.items())})", D, stats, budget,
                                        refit=False, note=False)
                if not quick and kind_of(default) == "forecaster":
                    fitted_state_checks(R, cls(**base), cls.__name__ + " fitted without fh", dict(make_data(seed + 2, 5), fh=None), stats, budget,
                                        note=False)
        for label, make in compositions(tier):
            try:
                est = make()
            except Exception:
                stats["not-constructible"].append(label)
                continue
            if only and not _involves(est, only):
                continue
            param_checks(R, est, label, rng, limit)
            for i, s in enumerate(seeds):
                fitted_state_checks(R, make(), label, make_data(s, 0 if i == 0 else 3), stats, budget)
            if not quick and kind_of(est) == "forecaster":
                # the horizon is given to predict only (forecasters that need it in fit refuse: nothing is claimed then)
                fitted_state_checks(R, make(), label + " fitted without fh", dict(make_data(seed + 2, 5), fh=None), stats, budget, note=False)
        gen = generated_compositions(tier, rng)
        for label, make in gen:
            try:
                est = make()
            except Exception:
                stats["not-constructible"].append(label)
                continue
            if only and not _involves(est, only):
                continue
            param_checks(R, est, label, rng, limit if quick else 12)
            fitted_state_checks(R, make(), label, D, stats, budget, note=False)
    stats["compositions"] = len(compositions(tier))
    stats["generated"] = len(gen)
    return stats, broken


def bounded(tier, seed):
    R = Recorder("")
    stats, broken = run_all(R, tier, seed)
    classes, _ = discover()
    R.bound = (
        f"{len(classes)} classes with the sklearn parameter protocol found by walking the package ({stats['constructed']} constructed with stand-ins "
        f"for the arguments without default); constructor: each argument in turn and all at once set to a unique object; get_params/set_params/clone/"
        f"unknown names/nested keys/replacement by name on every default instance and on {stats.get('compositions')} hand-written compositions of depth <= 3 plus {stats.get('generated')} generated nestings (each of the wrappers {'/'.join(WRAPPERS)} around each leaf, depth 2 {'sample' if tier == 'quick' else 'complete'}, depth 3 sample) (pipelines, ensembles, stacking, "
        f"multiplexer, tuners, column ensemble, feature union; whole-list replacement with same/new names combined with by-name and nested keys); "
        f"fitted state: every apply-type method ({', '.join(APPLY_METHODS)}) with ordinary and empty data and option values on fresh, cloned and "
        f"cloned-after-fit instances; fit on one series of 24 points / a panel of 8x16 ({stats['fitted']} fits ran). "
        f"Not importable here (not covered): {len(broken)} modules ({', '.join(b.replace('sktime.', '') for b in broken[:40])}). "
        f"Abstract (no instance): {sorted(set(stats['abstract']))}. Not constructible here: {sorted(set(stats['not-constructible']))}. Constructed but fit does not run in the sandbox (parameter and "
        f"not-fitted checks still done): {sorted(set(stats['fit-failed']))}")
    return R.result()


def replay(rec):
    """the symbolic side reports `<path>::<Class>.<method>` with the constructor arguments of the counterexample
    (`arg_<name>`): rebuild that object with those values, then run every check that involves the class"""
    R = Recorder("replay")
    m = rec.get("model") or {}
    target = str(rec.get("target") or "")
    tail = target.split("::")[-1]
    names = {w for w in tail.replace(":", ".").split(".") if w and not w.startswith("__")}
    classes, _ = discover()
    by_name = {}
    for c in classes.values():
        by_name.setdefault(c.__name__, c)
    only = {n for n in names if n in by_name}
    built = {}
    with warnings.catch_warnings():
        warnings.simplefilter("ignore")
        for n in sorted(only):
            cls = by_name[n]
            if is_abstract(cls):
                continue
            try:
                kw = dict(standins(cls))
                for p, d in init_params(cls).items():
                    raw = m.get("arg_" + p)
                    if raw is None or p in kw:
                        continue
                    try:
                        kw[p] = float(raw) if isinstance(d, float) else int(str(raw))
                    except (TypeError, ValueError):
                        kw[p] = Sentinel("model-" + p)
                est = cls(**kw)
            except Exception:
                continue
            if is_abstract(cls, est):
                continue
            built[n] = {k: short(v, 40) for k, v in kw.items()}
            read_back(R, est, n, kw, f"{n}({', '.join(f'{k}={short(v, 30)}' for k, v in kw.items())})")
            if hasattr(est, "is_fitted"):
                R.check("fresh-is-unfitted", est.is_fitted is False, f"fresh {n} reports is_fitted={est.is_fitted!r}")
            check_clone(R, est, f"{n} built from the counterexample")
    run_all(R, "quick", 0, only=only or None)
    # findings under a KF: key count as a reproduction only when the run was restricted to the classes of the target
    # (an unrestricted run always meets the listed known findings of other classes)
    f = [x for x in R.failures if not x["key"].startswith("KF:")] + ([x for x in R.failures if x["key"].startswith("KF:")] if only else [])
    return {"reproduced": bool(f), "detail": f[:3], "input": {"classes": sorted(only) or "all", "constructed": built, "case": rec.get("case")}}
