"""C03 native oracle: forecasts of the real forecasters and their compositions are indexed by exactly the
requested horizon, counted from the true cutoff (end of the data passed to fit / to the last update).

Every scenario is a call sequence  fit -> predict -> (update | update_predict_single | refit -> predict)*  run on the
real code; the expectation (cutoff, labels) is computed here from the slices that were passed in, never from the
forecaster.  Every scenario is run on the index 0..n-1 (RangeIndex) and again on shifted RangeIndex / integer Index
series with the same values; the runs are compared stage by stage.
"""
import warnings
from collections import namedtuple

import numpy as np
import pandas as pd
from sklearn.base import BaseEstimator, RegressorMixin

from .common import Recorder, ints_from_model, mint

KF_REFIT = "KF:refitting-update-with-older-chunk-puts-cutoff-at-end-of-all-data"


class Stub(RegressorMixin, BaseEstimator):
    """deterministic regressor whose output depends on the VALUES it is given only (never on time labels).
    For a single row it returns a python float: numpy 2 refuses `y_pred[i] = array([v])` inside the reducers."""

    def __init__(self, a=0.5, scalar=True):
        self.a = a
        self.scalar = scalar

    def fit(self, X, y):
        y = np.asarray(y, dtype=float)
        self.k_ = 0 if y.ndim == 1 else y.shape[1]
        self.m_ = float(np.mean(y))
        return self

    def predict(self, X):
        X = np.asarray(X, dtype=float)
        flat = X.reshape(X.shape[0], -1)
        out = self.a * flat.mean(axis=1) + (1 - self.a) * self.m_
        if self.k_ > 0:
            return np.tile(out[:, None], (1, self.k_)) + 0.25 * np.arange(self.k_)[None, :]
        if self.scalar and out.shape[0] == 1:
            return float(out[0])
        return out


FC = namedtuple("FC", "name make req heavy alt")


def _catalogue(tier):
    """all forecasters / compositions that run in the sandbox.  req: the horizon must be given to fit (and cannot be
    changed afterwards); heavy: statsmodels optimiser inside (fewer combinations in the quick tier)"""
    from sktime.forecasting.compose import (EnsembleForecaster, MultiplexForecaster, StackingForecaster,
                                            TransformedTargetForecaster, make_reduction)
    from sktime.forecasting.ets import AutoETS
    from sktime.forecasting.exp_smoothing import ExponentialSmoothing
    from sktime.forecasting.model_selection import (ExpandingWindowSplitter, ForecastingGridSearchCV,
                                                    ForecastingRandomizedSearchCV, SlidingWindowSplitter)
    from sktime.forecasting.naive import NaiveForecaster
    from sktime.forecasting.theta import ThetaForecaster
    from sktime.forecasting.trend import PolynomialTrendForecaster
    from sktime.transformations.series.detrend import Deseasonalizer, Detrender

    Naive, Trend, ES = NaiveForecaster, PolynomialTrendForecaster, ExponentialSmoothing

    def red(strategy, sci="tabular-regressor", w=3):
        return make_reduction(Stub(), scitype=sci, strategy=strategy, window_length=w)

    c = []

    def add(name, make, req=False, heavy=False, alt=None):
        """alt: parameters given to set_params before a second fit (default: the current ones)"""
        c.append(FC(name, make, req, heavy, alt))

    # ---- plain forecasters
    add("Naive(last)", lambda: Naive(), alt={"strategy": "mean", "window_length": 6, "sp": 4})
    add("Naive(last,sp=3)", lambda: Naive("last", sp=3), alt={"sp": 5})
    add("Naive(mean,w=5)", lambda: Naive("mean", window_length=5), alt={"strategy": "drift"})
    add("Naive(mean,sp=3,w=7)", lambda: Naive("mean", sp=3, window_length=7))      # window not a multiple of sp
    add("Naive(drift)", lambda: Naive("drift"))
    add("Naive(drift,w=4)", lambda: Naive("drift", window_length=4))
    add("Trend(1)", lambda: Trend(degree=1), alt={"degree": 3})
    add("Trend(2,no-intercept)", lambda: Trend(degree=2, with_intercept=False))
    add("ExpSmoothing()", lambda: ES(), heavy=True, alt={"trend": "add"})
    add("ExpSmoothing(trend=add)", lambda: ES(trend="add"), heavy=True)
    add("Theta(sp=1)", lambda: ThetaForecaster(), heavy=True)
    add("Theta(sp=4)", lambda: ThetaForecaster(sp=4), heavy=True)
    add("AutoETS(trend=add)", lambda: AutoETS(trend="add"), heavy=True)
    if tier != "quick":
        add("ExpSmoothing(add,add,sp=4)", lambda: ES(trend="add", seasonal="add", sp=4), heavy=True)
        add("ExpSmoothing(damped)", lambda: ES(trend="add", damped_trend=True), heavy=True)
        add("Theta(sp=4,no-deseason)", lambda: ThetaForecaster(sp=4, deseasonalize=False), heavy=True)
        add("AutoETS(auto)", lambda: AutoETS(auto=True, sp=1), heavy=True)
    # ---- reductions (stub regressor)
    for strategy in ("recursive", "direct", "multioutput", "dirrec"):
        for sci in ("tabular-regressor", "time-series-regressor"):
            add(f"Reduce({strategy},{sci[:4]},w=3)", (lambda s=strategy, t=sci: red(s, t)), req=(strategy != "recursive"))
    add("Reduce(recursive,tabu,w=5)", lambda: red("recursive", w=5), alt={"window_length": 2})
    # ---- compositions
    add("Ensemble(Naive,Trend)", lambda: EnsembleForecaster([("a", Naive()), ("b", Trend())]), alt={"aggfunc": "max", "a__strategy": "drift"})
    add("Ensemble(Naive(drift),Reduce(recursive),median)",
        lambda: EnsembleForecaster([("a", Naive("drift")), ("b", red("recursive")), ("c", Trend(degree=2))], aggfunc="median"))
    add("Ensemble(Naive,ExpSmoothing,min)", lambda: EnsembleForecaster([("a", Naive()), ("b", ES())], aggfunc="min"), heavy=True)
    add("Ensemble(Theta,Naive(mean))", lambda: EnsembleForecaster([("a", ThetaForecaster()), ("b", Naive("mean", window_length=4))], aggfunc="max"),
        heavy=True)
    add("Ensemble(Reduce(direct),Trend)", lambda: EnsembleForecaster([("a", red("direct")), ("b", Trend())]), req=True)
    add("Pipeline(Detrender,Naive)", lambda: TransformedTargetForecaster([("d", Detrender()), ("f", Naive())]), alt={"f__strategy": "mean", "f__window_length": 4})
    add("Pipeline(Deseasonalizer(4),Trend)", lambda: TransformedTargetForecaster([("d", Deseasonalizer(sp=4)), ("f", Trend())]))
    add("Pipeline(Deseasonalizer(3,mult),Detrender,Reduce(recursive))",
        lambda: TransformedTargetForecaster([("s", Deseasonalizer(sp=3, model="multiplicative")), ("d", Detrender(Trend(degree=2))), ("f", red("recursive"))]))
    add("Pipeline(Detrender,ExpSmoothing)", lambda: TransformedTargetForecaster([("d", Detrender()), ("f", ES())]), heavy=True)
    add("Pipeline(Detrender,Reduce(multioutput))", lambda: TransformedTargetForecaster([("d", Detrender()), ("f", red("multioutput"))]), req=True)
    add("Stacking(Naive(drift),Trend)", lambda: StackingForecaster([("a", Naive("drift")), ("b", Trend())], final_regressor=Stub(scalar=False)), req=True)
    add("Stacking(Naive(mean),Reduce(recursive),Trend(2))",
        lambda: StackingForecaster([("a", Naive("mean", window_length=3)), ("b", red("recursive")), ("c", Trend(degree=2))],
                                   final_regressor=Stub(a=0.8, scalar=False)), req=True)
    add("Stacking(ExpSmoothing,Naive)", lambda: StackingForecaster([("a", ES()), ("b", Naive())], final_regressor=Stub(scalar=False)), req=True, heavy=True)
    add("Multiplex(selected=Naive)", lambda: MultiplexForecaster([("a", Naive("mean", window_length=4)), ("b", Trend())], selected_forecaster="a"))
    add("Multiplex(selected=Trend)", lambda: MultiplexForecaster([("a", Naive()), ("b", Trend())], selected_forecaster="b"), alt={"selected_forecaster": "a"})
    add("Multiplex(selected=ExpSmoothing)", lambda: MultiplexForecaster([("a", Naive()), ("b", ES(trend="add"))], selected_forecaster="b"), heavy=True)
    # ---- tuned forecasters
    add("GridSearch(Naive)", lambda: ForecastingGridSearchCV(Naive(), cv=SlidingWindowSplitter(fh=[1, 2], window_length=4, step_length=3),
                                                             param_grid={"strategy": ["last", "mean", "drift"]}, refit=True))
    add("RandomizedSearch(Naive)", lambda: ForecastingRandomizedSearchCV(Naive(), cv=ExpandingWindowSplitter(fh=[2], initial_window=6, step_length=4),
                                                                         param_distributions={"strategy": ["last", "mean"], "window_length": [3, 4]},
                                                                         n_iter=2, random_state=1, refit=True))
    add("GridSearch(Multiplex(Naive,Trend))",
        lambda: ForecastingGridSearchCV(MultiplexForecaster([("a", Naive()), ("b", Trend())]), cv=SlidingWindowSplitter(fh=[1, 3], window_length=6, step_length=3),
                                        param_grid={"selected_forecaster": ["a", "b"]}, refit=True))
    add("GridSearch(Pipeline(Detrender,Naive))",
        lambda: ForecastingGridSearchCV(TransformedTargetForecaster([("d", Detrender()), ("f", Naive())]),
                                        cv=SlidingWindowSplitter(fh=[1], window_length=5, step_length=4), param_grid={"f__strategy": ["last", "mean"]}, refit=True))
    add("GridSearch(Reduce(recursive))", lambda: ForecastingGridSearchCV(red("recursive"), cv=SlidingWindowSplitter(fh=[1, 2], window_length=8, step_length=3),
                                                                         param_grid={"window_length": [2, 3]}, refit=True))
    # ---- nested compositions
    add("Ensemble(Pipeline(Detrender,Naive),Multiplex(Trend),Reduce(recursive))",
        lambda: EnsembleForecaster([("p", TransformedTargetForecaster([("d", Detrender()), ("f", Naive("drift"))])),
                                    ("m", MultiplexForecaster([("a", Naive()), ("b", Trend())], selected_forecaster="b")), ("r", red("recursive"))]))
    add("Pipeline(Detrender,Ensemble(Naive,Trend(2)))",
        lambda: TransformedTargetForecaster([("d", Detrender()), ("f", EnsembleForecaster([("a", Naive()), ("b", Trend(degree=2))]))]))
    add("Stacking(Pipeline(Detrender,Naive),Ensemble(Naive,Trend))",
        lambda: StackingForecaster([("p", TransformedTargetForecaster([("d", Detrender()), ("f", Naive())])),
                                    ("e", EnsembleForecaster([("a", Naive("drift")), ("b", Trend())]))], final_regressor=Stub(scalar=False)), req=True)
    add("Multiplex(selected=Stacking)",
        lambda: MultiplexForecaster([("n", Naive()), ("s", StackingForecaster([("a", Naive("drift")), ("b", Trend())], final_regressor=Stub(scalar=False)))],
                                    selected_forecaster="s"), req=True)
    add("Pipeline(Deseasonalizer(4),Theta)", lambda: TransformedTargetForecaster([("d", Deseasonalizer(sp=4)), ("f", ThetaForecaster())]), heavy=True)
    add("GridSearch(Ensemble(Naive,ExpSmoothing))",
        lambda: ForecastingGridSearchCV(EnsembleForecaster([("a", Naive()), ("b", ES())]), cv=SlidingWindowSplitter(fh=[1, 2], window_length=8, step_length=4),
                                        param_grid={"aggfunc": ["mean", "min"]}, refit=True), heavy=True)
    return c


# call sequences after the initial fit on positions [0, n); positions are relative to the start of the series.
#   ("update", lo, hi, update_params)   forecaster.update(y[lo:hi]) then predict
#   ("ups", lo, hi, update_params)      forecaster.update_predict_single(y[lo:hi], fh)
#   ("refit", lo, hi)                   set_params(<same params>) and fit again on y[lo:hi], then predict
#   ("again", steps)                    horizon given to predict: predict `steps`, then the scenario's horizon again; else: predict() once more
def _scripts(n):
    return {
        "updates-without-refit": [
            ("update", n, n + 1, False),           # one new point
            ("update", n - 2, n + 3, False),       # revised chunk overlapping the seen data, ending later
            ("update", n - 3, n + 1, False),       # chunk ending BEFORE the current cutoff
            ("update", n - 1, n + 1, False),       # chunk ending exactly at the current cutoff
            ("update", n - 7, n - 3, False),       # chunk inside the training range
            ("update", n + 3, n + 5, False),       # and forward again
        ],
        "updates-with-refit": [
            ("update", n, n + 2, True),
            ("update", n + 1, n + 4, True),        # overlapping, ending later
            ("refit", 2, n + 1),                   # fit again on another (earlier ending) series
            ("update", n + 1, n + 2, True),
            ("update", n - 3, n, True),            # older chunk with refit (see KF_REFIT)
        ],
        "single-step-updates-and-refits": [
            ("ups", n, n + 2, False),
            ("again", (2, 4)),
            ("ups", n + 2, n + 3, True),
            ("refit", 0, n - 2),                   # the cutoff moves backwards with the new training series
            ("again", (1,)),
            ("update", n - 2, n, False),
            ("ups", n - 4, n - 1, False),          # single-step update with an older chunk
        ],
    }


STEPS = [(1,), (1, 2, 3), (2, 5), (3,), (4, 1), (1, 3), (2, 3, 6)]
COMBOS_OPT = [("fit", "list"), ("fit", "fhobj"), ("fit", "abs"), ("fit", "array"), ("predict", "list"), ("predict", "fhobj"),
              ("predict", "abs"), ("predict", "array"), ("both", "list"), ("both", "fhobj"), ("predict", "absrange"), ("fit", "int")]
COMBOS_REQ = [("fit", "list"), ("fit", "fhobj"), ("fit", "abs"), ("fit", "array"), ("both", "list"), ("both", "fhobj"), ("fit", "int")]
SHIFTS = [(3, "int"), (-7, "range"), (100, "int"), (1, "range"), (-20, "int"), (6, "int"), (-40, "range"), (2, "int"), (57, "range"), (-1, "int")]


def _values(seed, length=40):
    rng = np.random.RandomState(1000 + seed)
    t = np.arange(length)
    return 30.0 + 0.7 * t + np.tile([2.0, -1.0, 3.0, 0.5], length // 4 + 1)[:length] + np.tile([0.0, 1.5, -0.5], length // 3 + 1)[:length] + rng.rand(length)


def _series(vals, start, kind, lo, hi):
    if kind == "range":
        idx = pd.RangeIndex(start + lo, start + hi)
    else:
        idx = pd.Index(np.arange(start + lo, start + hi, dtype="int64"))
    return pd.Series(np.array(vals[lo:hi], dtype=float), index=idx)


def _horizon(form, steps, cutoff, cache):
    from sktime.forecasting.base import ForecastingHorizon
    if form == "list":
        return list(steps)
    if form == "array":
        return np.array(steps)
    if form == "int":
        return int(steps[0])
    if form == "fhobj":          # ONE object per scenario, re-used for every call
        if "fhobj" not in cache:
            cache["fhobj"] = ForecastingHorizon(list(steps), is_relative=True)
        return cache["fhobj"]
    if form == "abs":
        return ForecastingHorizon(pd.Index([cutoff + h for h in steps], dtype="int64"), is_relative=False)
    if form == "absrange":
        s = sorted(steps)
        return ForecastingHorizon(pd.RangeIndex(cutoff + s[0], cutoff + s[-1] + 1, max(1, s[1] - s[0]) if len(s) > 1 else 1), is_relative=False)
    raise ValueError(form)


def _usable(form, steps):
    if form == "int":
        return len(steps) == 1
    if form == "absrange":
        s = sorted(steps)
        return len(set(np.diff(s))) <= 1 and len(set(s)) == len(s)
    return True


def _labels(pred):
    return [int(v) for v in pred.index]


def _check_forecast(R, pred, cutoff, steps, absolute_points, alt_cutoff, d):
    """the clauses about one returned forecast.  `cutoff`: end of the data passed last; `absolute_points`: requested time
    points for an absolute horizon (else None); alt_cutoff: see KF_REFIT.  Returns (labels, values) or None"""
    exp_steps = sorted(set(steps))
    want = sorted(absolute_points) if absolute_points is not None else [cutoff + h for h in exp_steps]
    if not isinstance(pred, pd.Series):
        R.check("one-value-per-step", False, f"{d}: predict returned {type(pred).__name__}, not a series")
        return None
    try:
        got = _labels(pred)
    except (TypeError, ValueError):
        R.check("relative-labels-are-cutoff-plus-step" if absolute_points is None else "absolute-labels-are-the-requested-points", False,
                f"{d}: forecast index {list(pred.index)} is not an integer index; expected {want}")
        return None
    vals = np.asarray(pred.values, dtype=float)
    if got != want and alt_cutoff is not None and absolute_points is None:
        alt = [alt_cutoff + h for h in exp_steps]
        if set(got) <= set(want) | set(alt) and set(got) & (set(alt) - set(want)):
            R.check(KF_REFIT, False, f"{d}: forecast labelled {got}; the data passed to update ended at {cutoff} so cutoff + steps = {want}; "
                    f"the labels are counted from {alt_cutoff}, the end of ALL data seen")
            return None
    R.check("one-value-per-step", len(got) == len(want), f"{d}: {len(got)} values {got} for the {len(want)} requested steps {exp_steps}")
    if absolute_points is None:
        R.check("relative-labels-are-cutoff-plus-step", got == want, f"{d}: forecast labelled {got}, expected cutoff {cutoff} + steps {exp_steps} = {want}")
    else:
        R.check("absolute-labels-are-the-requested-points", got == want, f"{d}: forecast labelled {got}, requested time points {want}")
    R.check("increasing-time-order", all(b > a for a, b in zip(got, got[1:])), f"{d}: forecast index {got} is not strictly increasing")
    R.check("finite-for-finite-data", vals.ndim == 1 and bool(np.all(np.isfinite(vals))), f"{d}: forecast values {vals.tolist()} at {got}")
    return got, vals


def _run(R, fc, steps, mode, form, script_name, n, start, kind, vals, with_alt=True):
    """one scenario on the real code; returns {stage: (labels - start, values)} for the comparison of shifted runs"""
    script = _scripts(n)[script_name]
    head = f"{fc.name}, horizon {list(steps)} as {form} given to {mode}, '{script_name}', n={n}, {'RangeIndex' if kind == 'range' else 'integer Index'} starting at {start}"
    out = {}
    cache = {}
    state = {"fit_points": None, "fit_h": None}
    relative = form not in ("abs", "absrange")

    def fit_arg(cutoff):
        if mode == "predict":
            return None
        h = _horizon(form, steps, cutoff, cache)
        state["fit_h"] = h
        state["fit_points"] = None if relative else [cutoff + s for s in sorted(set(steps))]
        return h

    def predict_arg(cutoff, use_steps=None):
        """(argument, absolute points or None, skip?)"""
        if mode == "predict":
            st = steps if use_steps is None else use_steps
            f_ = form if _usable(form, st) else "list"
            h = _horizon(f_, st, cutoff, {} if use_steps is not None else cache)
            return h, (None if f_ not in ("abs", "absrange") else [cutoff + s for s in sorted(set(st))]), False
        pts = state["fit_points"]
        skip = pts is not None and min(pts) <= cutoff            # a stored absolute horizon that is not out-of-sample any more
        return (None if mode == "fit" else state["fit_h"]), pts, skip

    f = fc.make()
    cutoff = start + n - 1
    seen_max = cutoff
    d = f"{head}: fit on time points {start}..{cutoff}"
    try:
        f.fit(_series(vals, start, kind, 0, n), fh=fit_arg(cutoff))
    except Exception as e:
        R.check("fit-no-error", False, f"{d}: {type(e).__name__}: {e}")
        return out
    stages = [("fit",)] + list(script)
    hist = d
    for si, st in enumerate(stages):
        op = st[0]
        alt_cutoff = None
        pred = None
        called_predict = False
        use_steps = steps
        if op == "again":           # predict mode: another horizon in between; otherwise: simply predict once more
            if mode == "predict":
                use_steps = st[1]
                hist_s = f"{hist}; then predict({list(use_steps)})"
            else:
                hist_s = f"{hist}; then predict() once more"
        elif op == "refit":
            lo, hi = st[1], st[2]
            if fc.req and not relative:
                continue        # a horizon-bound forecaster refuses a different (absolute) horizon in a second fit
            cutoff = start + hi - 1
            hist_s = f"{hist}; then set_params({fc.alt or '<same>'}) + fit on {start + lo}..{cutoff}"
            try:
                f.set_params(**(fc.alt or f.get_params(deep=False)))
                f.fit(_series(vals, start, kind, lo, hi), fh=fit_arg(cutoff))
            except Exception as e:
                R.check("fit-no-error", False, f"{hist_s}: {type(e).__name__}: {e}")
                return out
            seen_max = cutoff
        elif op in ("update", "ups"):
            lo, hi, up = st[1], st[2], st[3]
            chunk = _series(vals, start, kind, lo, hi)
            new_cutoff = start + hi - 1
            if up and new_cutoff < seen_max:
                alt_cutoff = seen_max
            hist_s = f"{hist}; then {'update' if op == 'update' else 'update_predict_single'}(y[{start + lo}..{new_cutoff}], update_params={up})"
            arg, pts, skip = predict_arg(new_cutoff)
            if pts is not None and min(pts) <= max(seen_max, new_cutoff):
                up = False      # a stored absolute horizon that is not after all data seen: only move the cutoff (a refit would need the horizon)
            if skip:
                op = "update"
            try:
                if op == "update":
                    f.update(chunk, update_params=up)
                else:
                    pred = f.update_predict_single(chunk, fh=arg, update_params=up)
                    called_predict = True
            except Exception as e:
                R.check("update-no-error", False, f"{hist_s}: {type(e).__name__}: {e}")
                return out
            cutoff = new_cutoff
            seen_max = max(seen_max, cutoff)
        else:
            hist_s = hist
        # ---- the cutoff is the last time point of the data passed last
        if op != "again":
            try:
                c = f.cutoff
                c_ok = bool(c == cutoff)
            except Exception as e:
                c, c_ok = f"{type(e).__name__}: {e}", False
            if not c_ok and alt_cutoff is not None and c == alt_cutoff:
                R.check(KF_REFIT, False, f"{hist_s}: cutoff is {c}, the data passed to update ended at {cutoff} ({alt_cutoff} is the end of ALL data seen)")
            else:
                R.check("cutoff-after-fit" if op in ("fit", "refit") else "cutoff-after-update", c_ok,
                        f"{hist_s}: cutoff is {c}, the last time point of the data passed is {cutoff}")
        # ---- forecast
        other_h = op == "again" and mode == "predict"
        arg, pts, skip = predict_arg(cutoff, use_steps if other_h else None)
        if skip or (alt_cutoff is not None and not relative):
            hist = hist_s
            continue
        if not called_predict:
            try:
                pred = f.predict(arg)
            except Exception as e:
                R.check("predict-no-error", False, f"{hist_s}; predict: {type(e).__name__}: {e}")
                hist = hist_s
                continue
        res = _check_forecast(R, pred, cutoff, use_steps, pts, alt_cutoff, hist_s + "; forecast")
        if res is not None and not other_h:
            out[si] = (np.array(res[0]) - start, res[1])
        # ---- the same time points requested the other way (relative <-> absolute) give the same forecast
        if with_alt and mode == "predict" and not fc.req and alt_cutoff is None and res is not None:
            try:
                if pts is None:
                    other = f.predict(_horizon("abs", use_steps, cutoff, {}))
                else:
                    other = f.predict(list(use_steps))
                ok = _labels(other) == res[0] and np.allclose(np.asarray(other.values, dtype=float), res[1], rtol=1e-7, atol=1e-9)
                R.check("absolute-and-relative-horizon-agree", ok,
                        f"{hist_s}: horizon {list(use_steps)} ({'relative' if pts is None else 'absolute'}) gave {dict(zip(res[0], np.round(res[1], 5).tolist()))}, the same time "
                        f"points requested {'absolutely' if pts is None else 'relatively'} gave {dict(zip(_labels(other), np.round(np.asarray(other.values, dtype=float), 5).tolist()))}")
            except Exception as e:
                R.check("predict-no-error", False, f"{hist_s}; predict with the equivalent {'absolute' if pts is None else 'relative'} horizon: {type(e).__name__}: {e}")
        if other_h:             # put the scenario's own horizon back
            try:
                arg, pts, _ = predict_arg(cutoff)
                res = _check_forecast(R, f.predict(arg), cutoff, steps, pts, None, hist_s + f"; then predict({list(steps)}) again; forecast")
                if res is not None:
                    out[si] = (np.array(res[0]) - start, res[1])
            except Exception as e:
                R.check("predict-no-error", False, f"{hist_s}; predict: {type(e).__name__}: {e}")
        hist = hist_s
    return out


def _scenario(R, fc, steps, mode, form, script_name, n, vals, shifts, with_alt=True):
    """the scenario on 0..n-1 and on shifted copies; shifting must move the forecast index and keep the values"""
    base = _run(R, fc, steps, mode, form, script_name, n, 0, "range", vals, with_alt)
    for start, kind in shifts:
        got = _run(R, fc, steps, mode, form, script_name, n, start, kind, vals, with_alt)
        for si in sorted(set(base) & set(got)):
            d = (f"{fc.name}, horizon {list(steps)} as {form} given to {mode}, '{script_name}', n={n}, forecast #{si} of the call sequence: "
                 f"RangeIndex from 0 -> index {base[si][0].tolist()} values {np.round(base[si][1], 5).tolist()}; "
                 f"{'RangeIndex' if kind == 'range' else 'integer Index'} from {start} -> index {(got[si][0] + start).tolist()} values {np.round(got[si][1], 5).tolist()}")
            R.check("shift-moves-forecast-index", base[si][0].tolist() == got[si][0].tolist(), d)
            R.check("shift-keeps-forecast-values", len(base[si][1]) == len(got[si][1]) and np.allclose(base[si][1], got[si][1], rtol=1e-6, atol=1e-8), d)
        for si in sorted(set(base) - set(got)):
            R.check("shift-moves-forecast-index", False, f"{fc.name}, horizon {list(steps)} as {form} given to {mode}, '{script_name}', n={n}: forecast #{si} is "
                    f"returned for RangeIndex from 0 but not for {'RangeIndex' if kind == 'range' else 'integer Index'} from {start}")


def _plan(cat, tier, seed):
    """(forecaster, steps, mode, form, script, n, shifts) tuples.  thorough: the full product forecaster x (mode, form) x
    script (steps and n rotating; 3-4 shifts).  quick: every forecaster x script with a rotating choice of 2-4
    (mode, form) combinations (always one with the horizon given to fit and one re-used ForecastingHorizon), 2 shifts."""
    names = list(_scripts(10))
    k = seed
    plan = []
    for fi, fc in enumerate(cat):
        combos = COMBOS_REQ if fc.req else COMBOS_OPT
        composite = "(" in fc.name.split("(", 1)[1].rstrip(")") and not fc.name.startswith("Naive") or fc.name.startswith(("Grid", "Random"))
        for sj, script in enumerate(names):
            if tier == "quick":
                q = 2 if fc.heavy else (3 if composite or fc.req else 4)
                sel = [combos[(fi + sj * q + j * 5 + seed) % len(combos)] for j in range(q)]
                if sj == 0:
                    sel[0] = ("fit", "list")
                    if not fc.req:
                        sel[1] = ("predict", "fhobj")
                elif sj == 1:
                    sel[0] = ("fit", "fhobj")
                sel = list(dict.fromkeys(sel))
            else:
                sel = combos
            for mode, form in sel:
                k += 1
                steps = STEPS[k % len(STEPS)]
                tries = 0
                while not _usable(form, steps) and tries < len(STEPS):
                    k += 1
                    tries += 1
                    steps = STEPS[k % len(STEPS)]
                n = (17, 14, 19)[(k // 2) % 3]
                ns = 2 if tier == "quick" else (3 if fc.heavy else 4)
                shifts = [SHIFTS[(k * 3 + j * 7) % len(SHIFTS)] for j in range(ns)]
                if not any(kd == "int" for _, kd in shifts):
                    shifts[0] = SHIFTS[(k % 5) * 2]
                plan.append((fc, steps, mode, form, script, n, shifts))
    return plan


def _one_thread():
    """tiny problems: BLAS/OpenMP thread pools only cost time here"""
    try:
        from threadpoolctl import threadpool_limits
        return threadpool_limits(limits=1)
    except Exception:
        import contextlib
        return contextlib.nullcontext()


def bounded(tier, seed):
    cat = _catalogue(tier)
    R = Recorder(
        f"{len(cat)} forecasters/compositions (Naive x6, PolynomialTrend x2, ExponentialSmoothing, Theta, AutoETS, the 8 reduction forecasters with a stub "
        f"regressor, Ensemble, TransformedTarget pipelines, Stacking, Multiplex, Grid/RandomizedSearchCV and nested ones); training length 14/17/19 on "
        f"RangeIndex from 0 and on RangeIndex / integer Index shifted by {sorted(set(s for s, _ in SHIFTS))}; out-of-sample horizons {STEPS} given as "
        f"list / array / int / ForecastingHorizon object (one object re-used) / absolute Index / absolute RangeIndex, to fit, to predict or to both; three call "
        f"sequences of 5-7 stages (updates with newer, overlapping, older and in-range chunks with and without refit, update_predict_single, set_params + "
        f"refit on a shorter series, changing the horizon between predicts). {'quick: rotating subset of (mode, form) per forecaster and script' if tier == 'quick' else 'thorough: full forecaster x (mode, form) x sequence product'}"
        f". Not covered: ARIMA/BATS/TBATS/Prophet (soft dependencies missing), reductions with real sklearn regressors, prediction intervals, "
        f"exogenous X, datetime/period indices, in-sample horizons, gapped training indices, update_predict/evaluate")
    vals = _values(seed)
    with warnings.catch_warnings(), _one_thread():
        warnings.simplefilter("ignore")
        for fc, steps, mode, form, script, n, shifts in _plan(cat, tier, seed):
            _scenario(R, fc, steps, mode, form, script, n, vals, shifts)
    return R.result()


def replay(rec):
    m = rec.get("model") or {}
    target = str(rec.get("target", ""))
    if "_predict_moving_cutoff" in target:
        # contract shared with C10 (cutoff restored after update_predict): its oracle drives update_predict sequences
        from contracts.native import C10 as _c10
        return _c10.replay(rec)
    R = Recorder("replay")
    nf = max(mint(m, "len(fh)", 0), 0)
    steps = tuple(h for h in ints_from_model(m, "fh", nf) if h >= 1) if nf else ()
    if not steps or len(set(steps)) != len(steps):
        steps = (1, 3)
    start = 0
    for key in ("start", "l0", "offset", "shift", "y.index[0]", "first"):
        if key in m:
            start = mint(m, key, 0)
            break
    if start == 0:
        start = 5
    start = max(min(start, 10 ** 6), -10 ** 6)
    cat = _catalogue("quick")
    low = target.lower()
    words = {"naive": "Naive(", "trend": "Trend(", "exp_smoothing": "ExpSmoothing", "theta": "Theta", "ets": "AutoETS", "reduce": "Reduce(",
             "ensemble": "Ensemble(", "pipeline": "Pipeline(", "stack": "Stacking(", "multiplex": "Multiplex(", "tune": "Search(", "statsmodels": "ExpSmoothing"}
    want = [v for k_, v in words.items() if k_ in low]
    chosen = [fc for fc in cat if any(fc.name.startswith(w) or (w in fc.name and w != "Naive(" and w != "Trend(") for w in want)]
    if not chosen:
        keep = ("Naive(last)", "Trend(1)", "ExpSmoothing(trend=add)", "Theta(sp=4)", "Reduce(recursive,tabu,w=3)", "Reduce(direct,tabu,w=3)",
                "Ensemble(Naive,Trend)", "Pipeline(Detrender,Naive)", "Stacking(Naive(drift),Trend)", "Multiplex(selected=Trend)", "GridSearch(Naive)")
        chosen = [fc for fc in cat if fc.name in keep]
    chosen = chosen[:11]
    vals = _values(0)
    with warnings.catch_warnings(), _one_thread():
        warnings.simplefilter("ignore")
        for fc in chosen:
            for mode, form in ([("fit", "list"), ("fit", "abs")] if fc.req else [("fit", "list"), ("predict", "fhobj"), ("predict", "abs")]):
                for script in _scripts(10):
                    _scenario(R, fc, steps, mode, form, script, 17, vals, [(start, "int"), (start, "range")])
    f = [x for x in R.failures if not x["key"].startswith("KF:")]
    return {"reproduced": bool(f), "detail": f[:3], "input": {"steps": list(steps), "start": start, "forecasters": [fc.name for fc in chosen]}}
