"""C09 native oracle: composite forecasters (ensemble, online ensemble, transformed-target pipeline, multiplexer,
stacking) on the real code.

Two families of cases:

* stub parts  -- recording forecasters / series transformers / meta-regressor defined here, whose arithmetic is a few
  lines of numpy.  The expected forecast of every composition (nested up to depth 3) is computed by a plain-python
  model of "the composition of the parts" that never touches the composite classes, and the recorded calls show what
  every part was fitted / updated with.
* real parts  -- the runnable sktime forecasters and invertible series transformers; the expectation is the hand-made
  composition of independently cloned parts (aggregation, meta-regressor and pipeline order done here in numpy).
"""
import itertools
import random
import warnings

import numpy as np
import pandas as pd
from sklearn.base import BaseEstimator as _SkBase
from sklearn.base import RegressorMixin, clone

from sktime.forecasting.base._sktime import _OptionalForecastingHorizonMixin, _SktimeForecaster
from sktime.transformations.base import _SeriesToSeriesTransformer

from .common import Recorder, ints_from_model, mint

LOG = []
TOL = dict(rtol=1e-7, atol=1e-7)


# ----------------------------------------------------------------------------------------------------------------
# pure arithmetic of the stub parts (shared by the stubs and by the independent model)
# ----------------------------------------------------------------------------------------------------------------
def t_fit(kind, idx, v):
    idx, v = np.asarray(idx, dtype=float), np.asarray(v, dtype=float)
    if kind == "shift":
        return (float(v.mean()),)
    if kind == "scale":
        return (float(np.abs(v).max() + 1.0),)
    if kind == "ramp":
        return (float(idx[0]), float((v[-1] - v[0]) / max(idx[-1] - idx[0], 1.0)))
    return ()


def t_fwd(kind, p, idx, v):
    idx, v = np.asarray(idx, dtype=float), np.asarray(v, dtype=float)
    if kind == "shift":
        return v - p[0]
    if kind == "scale":
        return v / p[0]
    if kind == "ramp":
        return v - p[1] * (idx - p[0])
    if kind == "sqrt":
        return np.sign(v) * np.sqrt(np.abs(v))
    if kind == "neg":
        return 3.0 - 2.0 * v
    raise ValueError(kind)


def t_inv(kind, p, idx, v):
    idx, v = np.asarray(idx, dtype=float), np.asarray(v, dtype=float)
    if kind == "shift":
        return v + p[0]
    if kind == "scale":
        return v * p[0]
    if kind == "ramp":
        return v + p[1] * (idx - p[0])
    if kind == "sqrt":
        return np.sign(v) * v * v
    if kind == "neg":
        return (3.0 - v) / 2.0
    raise ValueError(kind)


def meta_fit(X, y):
    X, y = np.asarray(X, dtype=float), np.asarray(y, dtype=float)
    return X.mean(axis=0), float(y.mean())


def meta_pred(p, X):
    X = np.asarray(X, dtype=float)
    return p[1] + (X - p[0]) @ (0.1 * np.arange(1, X.shape[1] + 1)) + 0.01 * (X ** 2).sum(axis=1)


# ----------------------------------------------------------------------------------------------------------------
# stub parts run inside the real composites
# ----------------------------------------------------------------------------------------------------------------
class SF(_OptionalForecastingHorizonMixin, _SktimeForecaster):
    """forecast(h) = a * mean(data used for the parameters) + b * (value at the cutoff) + c * h"""

    def __init__(self, tag="", a=1.0, b=0.0, c=0.0):
        self.tag, self.a, self.b, self.c = tag, a, b, c
        super(SF, self).__init__()

    def fit(self, y, X=None, fh=None, extra=None):
        self._set_y_X(y, X)
        self._set_fh(fh)
        self.m_ = float(np.mean(y.values))
        LOG.append(("fit", self.tag, list(y.index), np.array(y.values, dtype=float), extra))
        self._is_fitted = True
        return self

    def update(self, y, X=None, update_params=True):
        self.check_is_fitted()
        self._update_y_X(y, X)
        LOG.append(("update", self.tag, list(y.index), np.array(y.values, dtype=float), update_params))
        if update_params:
            self.m_ = float(np.mean(self._y.values))
        return self

    def _predict(self, fh, X=None, return_pred_int=False, alpha=0.05):
        rel = np.asarray(fh.to_relative(self.cutoff).to_numpy(), dtype=float)
        idx = fh.to_absolute(self.cutoff).to_pandas()
        last = float(self._y.loc[self.cutoff])
        LOG.append(("predict", self.tag, list(idx)))
        return pd.Series(self.a * self.m_ + self.b * last + self.c * rel, index=idx)


class ST(_SeriesToSeriesTransformer):
    """invertible series transformer without an update method"""

    def __init__(self, tag="", kind="shift"):
        self.tag, self.kind = tag, kind
        super(ST, self).__init__()

    def fit(self, Z, X=None):
        LOG.append(("tfit", self.tag, list(Z.index), np.array(Z.values, dtype=float)))
        self.seen_ = dict(zip(list(Z.index), np.array(Z.values, dtype=float)))
        self.p_ = t_fit(self.kind, list(Z.index), Z.values)
        self._is_fitted = True
        return self

    def transform(self, Z, X=None):
        self.check_is_fitted()
        LOG.append(("transform", self.tag, list(Z.index), np.array(Z.values, dtype=float)))
        return pd.Series(t_fwd(self.kind, self.p_, list(Z.index), Z.values), index=Z.index)

    def inverse_transform(self, Z, X=None):
        self.check_is_fitted()
        LOG.append(("inverse", self.tag, list(Z.index), np.array(Z.values, dtype=float)))
        return pd.Series(t_inv(self.kind, self.p_, list(Z.index), Z.values), index=Z.index)


class STU(ST):
    """... with an update method: re-estimates its parameters on everything seen when update_params"""

    def update(self, Z, X=None, update_params=True):
        self.check_is_fitted()
        LOG.append(("tupdate", self.tag, list(Z.index), np.array(Z.values, dtype=float), update_params))
        self.seen_.update(zip(list(Z.index), np.array(Z.values, dtype=float)))
        if update_params:
            ks = sorted(self.seen_)
            self.p_ = t_fit(self.kind, ks, [self.seen_[k] for k in ks])
        return self


class MetaReg(RegressorMixin, _SkBase):
    def __init__(self, tag="meta"):
        self.tag = tag

    def fit(self, X, y):
        X, y = np.array(X, dtype=float), np.array(y, dtype=float)
        LOG.append(("mfit", self.tag, X, y))
        self.p_ = meta_fit(X, y)
        return self

    def predict(self, X):
        return meta_pred(self.p_, X)


class Algo:
    """online-ensemble weighting algorithm: records what it is updated with, weights depend on the update count"""

    def __init__(self, k):
        self.k = k
        self.weights = np.ones(k) / k
        self.calls = []

    def update(self, preds, y):
        self.calls.append((np.array(preds, dtype=float), np.array(y, dtype=float)))
        w = np.arange(1, self.k + 1, dtype=float) + len(self.calls)
        self.weights = w / w.sum()


# ----------------------------------------------------------------------------------------------------------------
# independent model: "the composition of the parts"
# ----------------------------------------------------------------------------------------------------------------
class MSF:
    def __init__(self, a, b, c):
        self.a, self.b, self.c = a, b, c

    def fit(self, idx, v, fh):
        self.d = dict(zip(idx, [float(x) for x in v]))
        self.cut = idx[-1]
        self.m = float(np.mean(v))

    def update(self, idx, v, up):
        if not len(idx):
            return
        self.d.update(zip(idx, [float(x) for x in v]))
        self.cut = idx[-1]
        if up:
            self.m = float(np.mean([self.d[k] for k in sorted(self.d)]))

    def predict(self, fh):
        fh = np.asarray(fh, dtype=float)
        return [self.cut + int(h) for h in fh], self.a * self.m + self.b * self.d[self.cut] + self.c * fh


class MT:
    def __init__(self, kind, upd):
        self.kind, self.upd = kind, upd

    def fit(self, idx, v):
        self.seen = dict(zip(idx, [float(x) for x in v]))
        self.p = t_fit(self.kind, idx, v)

    def update(self, idx, v, up):
        if not self.upd:
            return
        self.seen.update(zip(idx, [float(x) for x in v]))
        if up:
            ks = sorted(self.seen)
            self.p = t_fit(self.kind, ks, [self.seen[k] for k in ks])

    def fwd(self, idx, v):
        return t_fwd(self.kind, self.p, idx, v)

    def inv(self, idx, v):
        return t_inv(self.kind, self.p, idx, v)


AGG = {"mean": np.mean, "median": np.median, "min": np.min, "max": np.max}


class MEns:
    def __init__(self, agg, members):
        self.agg, self.members = agg, members

    def fit(self, idx, v, fh):
        for m in self.members:
            m.fit(idx, v, fh)

    def update(self, idx, v, up):
        for m in self.members:
            m.update(idx, v, up)

    def predict(self, fh):
        ps = [m.predict(fh) for m in self.members]
        return ps[0][0], AGG[self.agg](np.vstack([p[1] for p in ps]), axis=0)


class MMux:
    def __init__(self, members, sel):
        self.members, self.sel = members, sel

    def fit(self, idx, v, fh):
        self.members[self.sel].fit(idx, v, fh)

    def update(self, idx, v, up):
        self.members[self.sel].update(idx, v, up)

    def predict(self, fh):
        return self.members[self.sel].predict(fh)


class MPipe:
    def __init__(self, ts, f):
        self.ts, self.f = ts, f

    def fit(self, idx, v, fh):
        self.fit_inputs = []
        for t in self.ts:
            self.fit_inputs.append(np.array(v, dtype=float))
            t.fit(idx, v)
            v = t.fwd(idx, v)
        self.f_fit = np.array(v, dtype=float)
        self.f.fit(idx, v, fh)

    def update(self, idx, v, up):
        for t in self.ts:
            t.update(idx, v, up)
            v = t.fwd(idx, v)
        self.f_upd = np.array(v, dtype=float)
        self.f.update(idx, v, up)

    def predict(self, fh):
        idx, p = self.f.predict(fh)
        for t in reversed(self.ts):
            p = t.inv(idx, p)
        return idx, p


class MStack:
    def __init__(self, members):
        self.members = members

    def fit(self, idx, v, fh):
        n, K = len(idx), int(max(fh))
        ntr = n - K
        for m in self.members:
            m.fit(idx[:ntr], v[:ntr], fh)
        self.X_meta = np.column_stack([m.predict(fh)[1] for m in self.members])
        self.y_meta = np.array([v[ntr - 1 + int(h)] for h in fh], dtype=float)
        self.held_out = [idx[ntr - 1 + int(h)] for h in fh]
        self.p = meta_fit(self.X_meta, self.y_meta)
        for m in self.members:
            m.fit(idx, v, fh)

    def update(self, idx, v, up):
        for m in self.members:
            m.update(idx, v, up)

    def predict(self, fh):
        ps = [m.predict(fh) for m in self.members]
        return ps[0][0], meta_pred(self.p, np.column_stack([p[1] for p in ps]))


def build(spec, path="r"):
    """spec -> (real sktime object with stub leaves, independent model)"""
    from sktime.forecasting.compose import (EnsembleForecaster, MultiplexForecaster, StackingForecaster,
                                            TransformedTargetForecaster)
    from sktime.forecasting.online_learning import OnlineEnsembleForecaster
    k = spec[0]
    if k == "sf":
        return SF(tag=path, a=spec[1], b=spec[2], c=spec[3]), MSF(spec[1], spec[2], spec[3])
    if k == "pipe":
        o, m = build(spec[2], path + ".f")
        steps = [(f"t{i}", (STU if upd else ST)(tag=f"{path}.t{i}", kind=kind)) for i, (kind, upd) in enumerate(spec[1])]
        return TransformedTargetForecaster(steps + [("f", o)]), MPipe([MT(kind, upd) for kind, upd in spec[1]], m)
    subs = [build(s, f"{path}.m{i}") for i, s in enumerate(spec[-1] if k != "mux" else spec[2])]
    named = [(f"m{i}", o) for i, (o, _) in enumerate(subs)]
    models = [m for _, m in subs]
    if k == "ens":
        return EnsembleForecaster(named, aggfunc=spec[1]), MEns(spec[1], models)
    if k == "online":
        return OnlineEnsembleForecaster(named), MEns("mean", models)
    if k == "mux":
        return MultiplexForecaster(named, selected_forecaster=f"m{spec[1]}"), MMux(models, spec[1])
    if k == "stack":
        return StackingForecaster(named, final_regressor=MetaReg(tag=path + ".meta")), MStack(models)
    raise ValueError(spec)


def stack_depth(spec):
    """longest chain of nested stacking forecasters: each level holds out max(fh) points of what it is given"""
    if spec[0] == "sf":
        return 0
    if spec[0] == "pipe":
        return stack_depth(spec[2])
    return (spec[0] == "stack") + max(stack_depth(s) for s in spec[-1])


def has_kind(spec, kind):
    if spec[0] == kind:
        return True
    if spec[0] == "sf":
        return False
    if spec[0] == "pipe":
        return has_kind(spec[2], kind)
    return any(has_kind(s, kind) for s in (spec[2] if spec[0] == "mux" else spec[-1]))


KEY = {"ens": "ensemble-equals-aggregate-of-members", "online": "online-ensemble-equals-weighted-sum-of-members",
       "pipe": "pipeline-equals-ordered-composition", "mux": "multiplexer-equals-selected-member",
       "stack": "stacking-forecast-is-meta-of-member-forecasts"}


def series(n, l0, seed):
    rng = np.random.RandomState(1000 * seed + 13 * n + l0)
    t = np.arange(n)
    v = np.round(12.0 + 0.7 * t + 4.0 * rng.rand(n) + 3.0 * np.sin(t * 1.3), 3)
    return pd.Series(v, index=pd.RangeIndex(l0, l0 + n))


def same(pred, want):
    idx, vals = want
    return (isinstance(pred, pd.Series) and len(pred) == len(vals) and [int(i) for i in pred.index] == [int(i) for i in idx]
            and np.allclose(np.asarray(pred.values, dtype=float), vals, **TOL))


def show(pred, want):
    try:
        got = f"{np.round(np.asarray(pred.values, dtype=float), 4).tolist()}@{list(pred.index)}"
    except Exception:
        got = repr(pred)[:120]
    return f"forecast {got}, composition of the parts gives {np.round(want[1], 4).tolist()}@{list(want[0])}"


def entries(kind, prefix=None, exact=None):
    return [e for e in LOG if e[0] == kind and (exact is None or e[1] == exact) and (prefix is None or e[1].startswith(prefix))]


def leafy(spec):
    """final forecaster of a pipeline whose stub leaves are all fitted directly on what the final forecaster gets"""
    if spec[0] == "sf":
        return True
    if spec[0] in ("ens", "online"):
        return all(s[0] == "sf" for s in spec[-1])
    if spec[0] == "mux":
        return all(s[0] == "sf" for s in spec[2])
    return False


def check_fit_log(R, spec, model, idx, v, fh, desc):
    """what the parts were fitted with, right after composite.fit (LOG holds exactly the calls of that fit)"""
    k = spec[0]
    if k in ("ens", "online"):
        for i, s in enumerate(spec[-1]):
            if s[0] != "sf":
                continue
            f = entries("fit", exact=f"r.m{i}")
            R.check("ensemble-members-fitted-on-the-full-series", len(f) == 1 and f[0][2] == list(idx) and np.allclose(f[0][3], v),
                    f"{desc}: member m{i} fitted {len(f)} times, on index {f[0][2] if f else None}; series index {list(idx)}")
    elif k == "mux":
        sel = f"r.m{spec[1]}"
        other = sorted({e[1] for e in LOG if not (e[1] == sel or e[1].startswith(sel + "."))})
        R.check("multiplexer-delegates-only-to-selected-member", not other and len(entries("fit", prefix=sel)) >= 1,
                f"{desc}: selected m{spec[1]}, but calls reached {other or 'nobody'}")
    elif k == "pipe":
        tf = entries("tfit", prefix="r.t")
        order = [e[1] for e in tf]
        R.check("pipeline-transformers-fitted-once-in-order", order == [f"r.t{i}" for i in range(len(spec[1]))], f"{desc}: transformer fit order {order}")
        for i in range(len(spec[1])):
            e = entries("tfit", exact=f"r.t{i}")
            R.check("pipeline-transformer-fitted-on-output-of-previous", len(e) == 1 and e[0][2] == list(idx) and np.allclose(e[0][3], model.fit_inputs[i], **TOL),
                    f"{desc}: transformer t{i} fitted on {np.round(e[0][3][:4], 4).tolist() if e else None}..., the output of the previous steps is {np.round(model.fit_inputs[i][:4], 4).tolist()}...")
        if leafy(spec[2]):
            fe = entries("fit", prefix="r.f")
            ok = len(fe) >= 1 and all(e[2] == list(idx) and np.allclose(e[3], model.f_fit, **TOL) for e in fe)
            R.check("pipeline-forecaster-fitted-only-on-fully-transformed-series", ok,
                    f"{desc}: final forecaster fitted on {[np.round(e[3][:4], 4).tolist() for e in fe][:2]}..., fully transformed series is {np.round(model.f_fit[:4], 4).tolist()}...")
    elif k == "stack":
        mf = entries("mfit", exact="r.meta")
        R.check("stacking-meta-regressor-trained-once", len(mf) == 1, f"{desc}: meta-regressor fitted {len(mf)} times during fit")
        n, K = len(idx), int(max(fh))
        targets = [idx[n - 1 - K + int(h)] for h in fh]
        if mf:
            R.check("stacking-meta-targets-are-held-out-observations", mf[0][3].shape == (len(fh),) and np.allclose(mf[0][3], [v[n - 1 - K + int(h)] for h in fh]),
                    f"{desc}: meta targets {mf[0][3].tolist()}, held-out observations at {targets} are {[float(v[n - 1 - K + int(h)]) for h in fh]}")
            R.check("stacking-meta-features-are-held-out-member-forecasts", mf[0][2].shape == model.X_meta.shape and np.allclose(mf[0][2], model.X_meta, **TOL),
                    f"{desc}: meta features {np.round(mf[0][2], 4).tolist()}, forecasts for {targets} of members fitted before the final window {np.round(model.X_meta, 4).tolist()}")
        for i, s in enumerate(spec[-1]):
            if s[0] != "sf":
                continue
            f = entries("fit", exact=f"r.m{i}")
            if not f:
                R.check("stacking-members-did-not-see-held-out-window", False, f"{desc}: member m{i} never fitted")
                continue
            first = f[0]
            R.check("stacking-members-did-not-see-held-out-window", max(first[2]) < min(targets),
                    f"{desc}: member m{i} producing the meta features was fitted on index up to {max(first[2])}, held-out points are {targets}")
            if mf and mf[0][2].ndim == 2 and mf[0][2].shape == (len(fh), len(spec[-1])):
                # statement-level check: whatever the member was trained on, column i must be ITS forecast for the held-out points
                mm = MSF(s[1], s[2], s[3])
                mm.fit(first[2], first[3], None)
                want = mm.predict([t - first[2][-1] for t in targets])[1]
                R.check("stacking-meta-features-are-forecasts-for-the-held-out-points", np.allclose(mf[0][2][:, i], want, **TOL),
                        f"{desc}: column {i} of the meta features {np.round(mf[0][2][:, i], 4).tolist()}, member m{i} (trained up to {first[2][-1]}) forecasts {np.round(want, 4).tolist()} for {targets}")
            R.check("stacking-members-refitted-on-full-series-for-forecasting", len(f) == 2 and f[-1][2] == list(idx),
                    f"{desc}: member m{i} fit calls on index ranges {[(e[2][0], e[2][-1]) for e in f]}")


def check_update_log(R, spec, model, nidx, nv, up, desc):
    k = spec[0]
    if k in ("ens", "online", "stack"):
        for i, s in enumerate(spec[-1]):
            if s[0] != "sf":
                continue
            u = entries("update", exact=f"r.m{i}")
            R.check("members-updated-with-the-new-observations", len(u) == 1 and u[0][2] == list(nidx) and np.allclose(u[0][3], nv) and u[0][4] == up,
                    f"{desc}: member m{i} update calls {[(e[2], e[4]) for e in u]}, new data index {list(nidx)} update_params={up}")
        if k == "stack":
            R.check("stacking-meta-regressor-trained-once", not entries("mfit"), f"{desc}: meta-regressor re-fitted during update")
    elif k == "mux":
        sel = f"r.m{spec[1]}"
        other = sorted({e[1] for e in LOG if not (e[1] == sel or e[1].startswith(sel + "."))})
        R.check("multiplexer-delegates-only-to-selected-member", not other, f"{desc}: selected m{spec[1]}, but update calls reached {other}")
    elif k == "pipe" and leafy(spec[2]):
        ue = entries("update", prefix="r.f")
        fe = entries("fit", prefix="r.f")
        ok = len(ue) >= 1 and all(e[2] == list(nidx) and np.allclose(e[3], model.f_upd, **TOL) for e in ue)
        R.check("pipeline-forecaster-updated-only-with-fully-transformed-data", ok,
                f"{desc}: final forecaster updated with {[np.round(e[3][:4], 4).tolist() for e in ue][:2]}, fully transformed new data is {np.round(model.f_upd[:4], 4).tolist()} (raw {np.asarray(nv[:4]).tolist()})")
        R.check("pipeline-forecaster-updated-only-with-fully-transformed-data", not fe, f"{desc}: final forecaster re-fitted from scratch during update ({len(fe)} fit calls)")


def check_predict_log(R, spec, desc):
    if spec[0] == "pipe":
        inv = [e[1] for e in entries("inverse", prefix="r.t")]
        R.check("pipeline-inverse-transforms-in-reverse-order", inv == [f"r.t{i}" for i in reversed(range(len(spec[1])))],
                f"{desc}: inverse_transform call order {inv}")


def scenario(R, spec, n, l0, fh, fh_at, updates, seed=0, pre=None):
    """fit (-> optional reconfiguration + refit) -> predict -> (update -> predict)*, real composite vs model"""
    n = max(n, stack_depth(spec) * int(max(fh)) + 4)     # every stacking level needs a non-empty series before its final window
    desc = f"spec={spec} n={n} start={l0} fh={list(fh)} fh_at={fh_at} pre={pre} updates={updates}"
    total = n + sum(u[0] for u in updates)
    y = series(total, l0, seed)
    idx_all, v_all = [int(i) for i in y.index], y.values.astype(float)
    key = KEY[spec[0]]
    try:
        with warnings.catch_warnings():
            warnings.simplefilter("ignore")
            obj, model = build(spec)
            if pre is not None:
                # the same object has a history: fitted before, then reconfigured / re-fitted
                y_old = series(n + 3, l0 + 2, seed + 17)
                obj.fit(y_old, fh=list(fh))
                obj.predict()
                if pre[0] == "update-then-refit":
                    obj.update(series(n + 5, l0 + 2, seed + 17).iloc[n + 3:], update_params=True)
                elif pre[0] == "set_params":
                    obj.set_params(**pre[1])
                    spec = pre[2]
                    _, model = build(spec)
                elif pre[0] == "clone":
                    obj = clone(obj)
            LOG.clear()
            obj.fit(y.iloc[:n], fh=list(fh) if fh_at == "fit" else None)
            model.fit(idx_all[:n], v_all[:n], list(fh))
            check_fit_log(R, spec, model, idx_all[:n], v_all[:n], list(fh), desc)
            LOG.clear()
            pred = obj.predict(list(fh) if fh_at == "predict" else None)
            want = model.predict(list(fh))
            R.check(key, same(pred, want), f"{desc}: after fit: {show(pred, want)}")
            check_predict_log(R, spec, desc + " after fit")
            if fh_at == "predict" and not has_kind(spec, "stack"):
                fh2 = [int(fh[-1]) + 1, int(fh[-1]) + 3]
                pred = obj.predict(fh2)
                want = model.predict(fh2)
                R.check(key, same(pred, want), f"{desc}: second predict with fh={fh2}: {show(pred, want)}")
                pred = obj.predict(list(fh))
            pos = n
            for (k, up, via) in updates:
                ynew = y.iloc[pos: pos + k]
                nidx, nv = idx_all[pos: pos + k], v_all[pos: pos + k]
                d2 = f"{desc}: after {via} with observations {nidx} update_params={up}"
                LOG.clear()
                if via == "update":
                    obj.update(ynew, update_params=up)
                    model.update(nidx, nv, up)
                    check_update_log(R, spec, model, nidx, nv, up, d2)
                    LOG.clear()
                    pred = obj.predict()
                    want = model.predict(list(fh))
                    R.check(key + "-after-update", same(pred, want), f"{d2}: {show(pred, want)}")
                    check_predict_log(R, spec, d2)
                elif via == "update_predict_single":
                    pred = obj.update_predict_single(ynew, update_params=up)
                    model.update(nidx, nv, up)
                    want = model.predict(list(fh))
                    R.check(key + "-after-update", same(pred, want), f"{d2}: {show(pred, want)}")
                else:
                    from sktime.forecasting.model_selection import SlidingWindowSplitter
                    cv = SlidingWindowSplitter(fh=list(fh), window_length=1, start_with_window=True)
                    got = obj.update_predict(ynew, cv=cv, update_params=up)
                    cols = []
                    for c in range(0, k - int(max(fh))):
                        model.update(nidx[c: c + 1], nv[c: c + 1], up)
                        cols.append(model.predict(list(fh)))
                    if len(fh) == 1:
                        ok = isinstance(got, pd.Series) and [int(i) for i in got.index] == [c[0][0] for c in cols] and np.allclose(got.values, [c[1][0] for c in cols], **TOL)
                    elif len(cols) == 1:
                        ok = same(got, cols[0])
                    else:
                        ok = isinstance(got, pd.DataFrame) and got.shape[1] == len(cols)
                        for j, c in enumerate(cols):
                            if not ok:
                                break
                            col = got.iloc[:, j].dropna()
                            ok = ok and [int(i) for i in col.index] == c[0] and np.allclose(col.values, c[1], **TOL)
                    R.check(key + "-after-update", bool(ok), f"{d2}: moving-cutoff forecasts {np.round(np.asarray(got, dtype=float), 4).tolist()}, composition gives {[np.round(c[1], 4).tolist() for c in cols]}")
                pos += k
    except Exception as e:   # noqa: B902  a valid composition must not fail
        R.check("valid-composition-runs", False, f"{desc}: {type(e).__name__}: {e}")


# ----------------------------------------------------------------------------------------------------------------
# online ensemble with a weighting algorithm
# ----------------------------------------------------------------------------------------------------------------
def online_case(R, nm, n, l0, fh, ks, seed=0):
    from sktime.forecasting.online_learning import OnlineEnsembleForecaster
    desc = f"online ensemble of {nm} stub members with a recording weighting algorithm, n={n} start={l0} fh={list(fh)} update lengths {ks}"
    coefs = [(1.0, 0.0, 0.5), (0.0, 1.0, 0.0), (0.5, 0.5, -0.3), (0.2, 0.9, 1.0)][:nm]
    y = series(n + sum(ks), l0, seed)
    idx_all, v_all = [int(i) for i in y.index], y.values.astype(float)
    try:
        algo = Algo(nm)
        obj = OnlineEnsembleForecaster([(f"m{i}", SF(tag=f"r.m{i}", a=a, b=b, c=c)) for i, (a, b, c) in enumerate(coefs)], ensemble_algorithm=algo)
        models = [MSF(*c) for c in coefs]
        obj.fit(y.iloc[:n], fh=list(fh))
        for m in models:
            m.fit(idx_all[:n], v_all[:n], list(fh))
        pos = n
        for step, k in enumerate([0] + list(ks)):
            if k:
                nidx, nv = idx_all[pos: pos + k], v_all[pos: pos + k]
                before = np.vstack([m.predict(list(range(1, k + 1)))[1] for m in models])
                ncalls = len(algo.calls)
                obj.update(y.iloc[pos: pos + k], update_params=False)
                for m in models:
                    m.update(nidx, nv, False)
                pos += k
                ok = len(algo.calls) == ncalls + 1 and algo.calls[-1][0].shape == before.shape and np.allclose(algo.calls[-1][0], before, **TOL) and np.allclose(algo.calls[-1][1], nv)
                R.check("online-ensemble-weights-learned-from-member-forecasts-made-before-seeing-the-data", ok,
                        f"{desc}: update #{step} with {nidx}: algorithm received {np.round(algo.calls[-1][0], 4).tolist() if len(algo.calls) > ncalls else None}, members' forecasts for these points before the update were {np.round(before, 4).tolist()}")
            w = np.arange(1, nm + 1, dtype=float) + step if step else np.ones(nm) / nm
            w = w / w.sum()
            pred = obj.predict()
            ps = [m.predict(list(fh)) for m in models]
            want = (ps[0][0], (np.vstack([p[1] for p in ps]) * w[:, None]).sum(axis=0))
            R.check(KEY["online"] + ("-after-update" if step else ""), same(pred, want), f"{desc}: after {step} updates, weights {np.round(w, 4).tolist()}: {show(pred, want)}")
    except Exception as e:   # noqa: B902
        R.check("valid-composition-runs", False, f"{desc}: {type(e).__name__}: {e}")


# ----------------------------------------------------------------------------------------------------------------
# multiplexer extras: fit_params are handed to the selected member only
# ----------------------------------------------------------------------------------------------------------------
def mux_fit_params_case(R, nm, sel, n, l0, fh):
    from sktime.forecasting.compose import MultiplexForecaster
    desc = f"multiplexer of {nm} stub members, selected m{sel}, fit(..., m0=.., m1=..) n={n} start={l0} fh={list(fh)}"
    y = series(n, l0, 3)
    try:
        LOG.clear()
        obj = MultiplexForecaster([(f"m{i}", SF(tag=f"r.m{i}", a=1.0 + i, b=0.5, c=0.1 * i)) for i in range(nm)], selected_forecaster=f"m{sel}")
        obj.fit(y, fh=list(fh), **{f"m{i}": {"extra": 100 + i} for i in range(nm)})
        f = entries("fit")
        R.check("multiplexer-delegates-only-to-selected-member", len(f) == 1 and f[0][1] == f"r.m{sel}" and f[0][4] == 100 + sel,
                f"{desc}: fit calls reached {[(e[1], e[4]) for e in f]}, expected only r.m{sel} with its own fit parameter {100 + sel}")
    except Exception as e:   # noqa: B902
        R.check("valid-composition-runs", False, f"{desc}: {type(e).__name__}: {e}")


# ----------------------------------------------------------------------------------------------------------------
# real parts
# ----------------------------------------------------------------------------------------------------------------
def real_forecasters(tier):
    from sktime.forecasting.exp_smoothing import ExponentialSmoothing
    from sktime.forecasting.naive import NaiveForecaster
    from sktime.forecasting.theta import ThetaForecaster
    from sktime.forecasting.trend import PolynomialTrendForecaster
    out = [("naive-last", lambda: NaiveForecaster("last")),
           ("naive-mean-w5", lambda: NaiveForecaster("mean", window_length=5)),
           ("naive-drift", lambda: NaiveForecaster("drift")),
           ("poly1", lambda: PolynomialTrendForecaster(degree=1)),
           ("naive-last-sp4", lambda: NaiveForecaster("last", sp=4)),
           ("poly2", lambda: PolynomialTrendForecaster(degree=2))]
    if tier != "quick":
        out += [("naive-mean-sp3", lambda: NaiveForecaster("mean", sp=3)),
                ("expsmooth-add", lambda: ExponentialSmoothing(trend="add")),
                ("theta", lambda: ThetaForecaster(sp=1))]
    return out


def real_transformers(tier):
    from sklearn.preprocessing import MinMaxScaler, StandardScaler
    from sktime.forecasting.trend import PolynomialTrendForecaster
    from sktime.transformations.series.adapt import TabularToSeriesAdaptor
    from sktime.transformations.series.boxcox import BoxCoxTransformer, LogTransformer
    from sktime.transformations.series.detrend import Deseasonalizer, Detrender
    out = [("log", lambda: LogTransformer()),
           ("detrend1", lambda: Detrender(PolynomialTrendForecaster(degree=1))),
           ("deseason4", lambda: Deseasonalizer(sp=4)),
           ("minmax", lambda: TabularToSeriesAdaptor(MinMaxScaler()))]
    if tier != "quick":
        out += [("boxcox", lambda: BoxCoxTransformer()),
                ("deseason3-mult", lambda: Deseasonalizer(sp=3, model="multiplicative")),
                ("standard", lambda: TabularToSeriesAdaptor(StandardScaler()))]
    return out


def real_series(n, l0, seed):
    rng = np.random.RandomState(77 + seed * 31 + n)
    t = np.arange(n)
    v = np.round(40.0 + 1.5 * t + 6.0 * np.sin(2 * np.pi * t / 4) + 3.0 * rng.rand(n), 3)
    return pd.Series(v, index=pd.RangeIndex(l0, l0 + n))


def finite(s):
    return bool(np.all(np.isfinite(np.asarray(s, dtype=float))))


def close_series(a, b):
    return (isinstance(a, pd.Series) and len(a) == len(b) and list(a.index) == list(b.index)
            and np.allclose(np.asarray(a.values, dtype=float), np.asarray(b.values, dtype=float), rtol=1e-6, atol=1e-6))


def rshow(a, b):
    try:
        return f"forecast {np.round(np.asarray(a.values, dtype=float), 4).tolist()}@{list(a.index)}, composition of the parts gives {np.round(np.asarray(b.values, dtype=float), 4).tolist()}@{list(b.index)}"
    except Exception:
        return f"forecast {a!r:.100}, composition gives {b!r:.100}"


def real_pipeline(R, tnames, tmakers, fname, fmaker, n, l0, fh, updates, seed):
    from sktime.forecasting.compose import TransformedTargetForecaster
    desc = f"real pipeline {' -> '.join(tnames)} -> {fname}, n={n} start={l0} fh={list(fh)} updates={updates}"
    y = real_series(n + sum(u[0] for u in updates), l0, seed)
    with warnings.catch_warnings():
        warnings.simplefilter("ignore")
        # hand-made composition first; compositions outside the domain of a part (log of negatives ...) are skipped
        try:
            ts = [mk() for mk in tmakers]
            f = fmaker()
            yt = y.iloc[:n]
            for t in ts:
                yt = t.fit_transform(yt)
            if not finite(yt):
                return
            f.fit(yt, fh=list(fh))

            def ref():
                p = f.predict()
                for t in reversed(ts):
                    p = t.inverse_transform(p)
                return p
            want = ref()
            if not finite(want):
                return
        except Exception:
            return
        try:
            pipe = TransformedTargetForecaster([(f"t{i}", mk()) for i, mk in enumerate(tmakers)] + [("f", fmaker())])
            pipe.fit(y.iloc[:n], fh=list(fh))
            got = pipe.predict()
            R.check(KEY["pipe"], close_series(got, want), f"{desc}: after fit: {rshow(got, want)}")
            seen = pipe.steps_[-1][1]._y
            R.check("pipeline-forecaster-fitted-only-on-fully-transformed-series", close_series(seen, f._y),
                    f"{desc}: final forecaster holds {np.round(seen.values[:4], 4).tolist()}..., fully transformed series is {np.round(f._y.values[:4], 4).tolist()}...")
            pos = n
            for (k, up) in updates:
                ynew = y.iloc[pos: pos + k]
                pos += k
                try:
                    yn = ynew
                    for t in ts:
                        if hasattr(t, "update"):
                            t.update(yn, update_params=up)
                        yn = t.transform(yn)
                    f.update(yn, update_params=up)
                    want = ref()
                    if not (finite(yn) and finite(want)):
                        return
                except Exception:
                    return
                pipe.update(ynew, update_params=up)
                got = pipe.predict()
                d2 = f"{desc}: after update with {list(ynew.index)} update_params={up}"
                R.check(KEY["pipe"] + "-after-update", close_series(got, want), f"{d2}: {rshow(got, want)}")
                seen = pipe.steps_[-1][1]._y
                R.check("pipeline-forecaster-updated-only-with-fully-transformed-data", close_series(seen.loc[ynew.index], yn),
                        f"{d2}: final forecaster received {np.round(seen.loc[ynew.index].values[:4], 4).tolist()}, fully transformed new data is {np.round(yn.values[:4], 4).tolist()}")
        except Exception as e:   # noqa: B902
            R.check("valid-composition-runs", False, f"{desc}: {type(e).__name__}: {e}")


def real_ensemble(R, names, makers, agg, n, l0, fh, fh_at, updates, seed, online=False):
    from sktime.forecasting.compose import EnsembleForecaster
    from sktime.forecasting.online_learning import OnlineEnsembleForecaster
    kind = "online" if online else "ens"
    desc = f"real {'online ' if online else ''}ensemble {agg} of {names}, n={n} start={l0} fh={list(fh)} fh_at={fh_at} updates={updates}"
    y = real_series(n + sum(u[0] for u in updates), l0, seed)
    with warnings.catch_warnings():
        warnings.simplefilter("ignore")
        try:
            parts = [mk() for mk in makers]
            for p in parts:
                p.fit(y.iloc[:n])

            def ref():
                ps = [p.predict(list(fh)) for p in parts]
                return pd.Series(AGG[agg](np.vstack([q.values for q in ps]), axis=0), index=ps[0].index)
            named = [(f"m{i}", mk()) for i, mk in enumerate(makers)]
            ens = OnlineEnsembleForecaster(named) if online else EnsembleForecaster(named, aggfunc=agg)
            ens.fit(y.iloc[:n], fh=list(fh) if fh_at == "fit" else None)
            got = ens.predict(list(fh) if fh_at == "predict" else None)
            want = ref()
            R.check(KEY[kind], close_series(got, want), f"{desc}: after fit: {rshow(got, want)}")
            pos = n
            for (k, up) in updates:
                ynew = y.iloc[pos: pos + k]
                pos += k
                for p in parts:
                    p.update(ynew, update_params=up)
                ens.update(ynew, update_params=up)
                got, want = ens.predict(), ref()
                R.check(KEY[kind] + "-after-update", close_series(got, want), f"{desc}: after update with {list(ynew.index)} update_params={up}: {rshow(got, want)}")
        except Exception as e:   # noqa: B902
            R.check("valid-composition-runs", False, f"{desc}: {type(e).__name__}: {e}")


def real_mux(R, names, makers, n, l0, fh, updates, seed, reselect):
    from sktime.forecasting.compose import MultiplexForecaster
    y = real_series(n + sum(u[0] for u in updates), l0, seed)
    with warnings.catch_warnings():
        warnings.simplefilter("ignore")
        try:
            mux = MultiplexForecaster([(nm, mk()) for nm, mk in zip(names, makers)], selected_forecaster=names[0])
            order = list(range(len(names))) if reselect else [0]
            for step, s in enumerate(order):
                desc = f"real multiplexer over {names}, selection sequence {[names[i] for i in order[:step + 1]]} on one object, n={n} start={l0} fh={list(fh)} updates={updates}"
                mux.set_params(selected_forecaster=names[s])
                mux.fit(y.iloc[:n], fh=list(fh))
                part = makers[s]()
                part.fit(y.iloc[:n], fh=list(fh))
                got, want = mux.predict(), part.predict()
                R.check(KEY["mux"], close_series(got, want), f"{desc}: after fit: {rshow(got, want)}")
                pos = n
                for (k, up) in updates:
                    ynew = y.iloc[pos: pos + k]
                    pos += k
                    part.update(ynew, update_params=up)
                    mux.update(ynew, update_params=up)
                    got, want = mux.predict(), part.predict()
                    R.check(KEY["mux"] + "-after-update", close_series(got, want), f"{desc}: after update with {list(ynew.index)} update_params={up}: {rshow(got, want)}")
        except Exception as e:   # noqa: B902
            R.check("valid-composition-runs", False, f"real multiplexer over {names} n={n} fh={list(fh)}: {type(e).__name__}: {e}")


def real_stack(R, names, makers, n, l0, fh, updates, seed):
    from sktime.forecasting.compose import StackingForecaster
    desc = f"real stacking of {names} with the recording meta-regressor, n={n} start={l0} fh={list(fh)} updates={updates}"
    y = real_series(n + sum(u[0] for u in updates), l0, seed)
    K = int(max(fh))
    with warnings.catch_warnings():
        warnings.simplefilter("ignore")
        try:
            parts = [mk() for mk in makers]
            cols = [p.fit(y.iloc[: n - K], fh=list(fh)).predict().values for p in parts]
            Xm = np.column_stack(cols)
            ym = np.array([y.values[n - 1 - K + int(h)] for h in fh])
            p_meta = meta_fit(Xm, ym)
            parts = [mk() for mk in makers]
            for p in parts:
                p.fit(y.iloc[:n], fh=list(fh))

            def ref():
                ps = [p.predict() for p in parts]
                return pd.Series(meta_pred(p_meta, np.column_stack([q.values for q in ps])), index=ps[0].index)
            LOG.clear()
            st = StackingForecaster([(f"m{i}", mk()) for i, mk in enumerate(makers)], final_regressor=MetaReg(tag="r.meta"))
            st.fit(y.iloc[:n], fh=list(fh))
            mf = entries("mfit")
            R.check("stacking-meta-regressor-trained-once", len(mf) == 1, f"{desc}: meta-regressor fitted {len(mf)} times")
            if mf:
                R.check("stacking-meta-targets-are-held-out-observations", mf[0][3].shape == ym.shape and np.allclose(mf[0][3], ym), f"{desc}: meta targets {mf[0][3].tolist()}, held-out observations {ym.tolist()}")
                R.check("stacking-meta-features-are-held-out-member-forecasts", mf[0][2].shape == Xm.shape and np.allclose(mf[0][2], Xm, rtol=1e-6, atol=1e-6),
                        f"{desc}: meta features {np.round(mf[0][2], 4).tolist()}, forecasts of members fitted before the final window for the held-out points {np.round(Xm, 4).tolist()}")
            got, want = st.predict(), ref()
            R.check(KEY["stack"], close_series(got, want), f"{desc}: after fit: {rshow(got, want)}")
            pos = n
            for (k, up) in updates:
                ynew = y.iloc[pos: pos + k]
                pos += k
                for p in parts:
                    p.update(ynew, update_params=up)
                st.update(ynew, update_params=up)
                got, want = st.predict(), ref()
                R.check(KEY["stack"] + "-after-update", close_series(got, want), f"{desc}: after update with {list(ynew.index)} update_params={up}: {rshow(got, want)}")
            R.check("stacking-meta-regressor-trained-once", len(entries("mfit")) == 1, f"{desc}: meta-regressor fitted {len(entries('mfit'))} times over fit + updates")
        except Exception as e:   # noqa: B902
            R.check("valid-composition-runs", False, f"{desc}: {type(e).__name__}: {e}")


# ----------------------------------------------------------------------------------------------------------------
# enumeration
# ----------------------------------------------------------------------------------------------------------------
LEAVES = [("sf", 1.0, 0.0, 0.5), ("sf", 0.0, 1.0, 0.0), ("sf", 0.5, 0.5, -0.3), ("sf", 0.2, 0.9, 1.0)]
TKINDS = [("shift", False), ("shift", True), ("scale", True), ("ramp", False), ("ramp", True), ("sqrt", False), ("neg", False)]
FHS_ALL = [(1,), (1, 2, 3), (2,), (1, 3), (2, 4), (3,), (2, 3, 6)]
FHS_INSAMPLE = [(-1, 0, 2), (0, 1)]
UPDATE_PLANS = [[], [(1, False, "update")], [(3, True, "update")], [(2, False, "update"), (1, True, "update")],
                [(2, True, "update_predict_single")], [(2, False, "update_predict_single"), (2, True, "update")]]


def depth1_specs(tier):
    specs = []
    for agg in ("mean", "median", "min", "max"):
        for k in (1, 2, 3, 4):
            specs.append(("ens", agg, LEAVES[:k]))
    for k in (1, 3):
        specs.append(("online", LEAVES[:k]))
    tk = TKINDS if tier != "quick" else [TKINDS[i] for i in (1, 2, 4, 5, 6)]
    for t in tk:
        specs.append(("pipe", [t], LEAVES[2]))
    for a, b in itertools.permutations(tk, 2):
        specs.append(("pipe", [a, b], LEAVES[2]))
    trip = list(itertools.permutations(tk, 3))
    for c in (trip if tier != "quick" else trip[::7]):
        specs.append(("pipe", list(c), LEAVES[3]))
    for k in (1, 2, 3):
        for sel in range(k):
            specs.append(("mux", sel, LEAVES[:k]))
    for k in (1, 2, 3):
        specs.append(("stack", LEAVES[:k]))
    return specs


def depth2_specs():
    pipe_a = ("pipe", [("sqrt", False), ("shift", True)], LEAVES[2])
    pipe_b = ("pipe", [("ramp", True)], LEAVES[1])
    ens = ("ens", "median", LEAVES[:3])
    mux = ("mux", 1, LEAVES[:2])
    stack = ("stack", LEAVES[1:3])
    inner = [pipe_a, pipe_b, ens, mux, stack, ("online", LEAVES[:2])]
    specs = []
    for i in inner:
        for j in inner:
            if i is j:
                continue
            specs.append(("ens", "max", [i, LEAVES[0], j]))
            specs.append(("stack", [i, j]))
        specs.append(("ens", "mean", [i, LEAVES[3]]))
        specs.append(("pipe", [("scale", True), ("neg", False)], i))
        specs.append(("pipe", [("ramp", False), ("sqrt", False), ("shift", True)], i))
        specs.append(("mux", 0, [i, LEAVES[0]]))
        specs.append(("mux", 1, [LEAVES[0], i]))
        specs.append(("stack", [LEAVES[0], i]))
        specs.append(("online", [i, LEAVES[1]]))
    return specs


def random_spec(rng, depth):
    if depth == 0 or rng.random() < 0.25:
        return ("sf", round(rng.uniform(-1, 2), 2), round(rng.uniform(0, 1.5), 2), round(rng.uniform(-1, 1), 2))
    k = rng.choice(["ens", "pipe", "mux", "stack", "online"])
    if k == "pipe":
        return ("pipe", [rng.choice(TKINDS) for _ in range(rng.randint(1, 3))], random_spec(rng, depth - 1))
    subs = [random_spec(rng, depth - 1) for _ in range(rng.randint(1, 3))]
    if k == "ens":
        return ("ens", rng.choice(sorted(AGG)), subs)
    if k == "mux":
        return ("mux", rng.randrange(len(subs)), subs)
    return (k, subs)


def reconfigurations(spec):
    """(pre-history, spec after it) pairs: one composite object with a past"""
    out = [(("refit",), spec), (("update-then-refit",), spec), (("clone",), spec)]
    k = spec[0]
    if k == "ens":
        for agg in AGG:
            if agg != spec[1]:
                new = ("ens", agg, spec[2])
                out.append((("set_params", {"aggfunc": agg}, new), new))
        new = ("ens", spec[1], [("sf", 3.0, 0.25, -1.0)] + list(spec[2][1:]))
        out.append((("set_params", {"m0__a": 3.0, "m0__b": 0.25, "m0__c": -1.0}, new), new))
    elif k == "mux":
        for sel in range(len(spec[2])):
            if sel != spec[1]:
                new = ("mux", sel, spec[2])
                out.append((("set_params", {"selected_forecaster": f"m{sel}"}, new), new))
        subs = list(spec[2])
        subs[spec[1]] = ("sf", 3.0, 0.25, -1.0)
        new = ("mux", spec[1], subs)
        out.append((("set_params", {f"m{spec[1]}__a": 3.0, f"m{spec[1]}__b": 0.25, f"m{spec[1]}__c": -1.0}, new), new))
    elif k == "pipe":
        new = ("pipe", spec[1], ("sf", 3.0, 0.25, -1.0))
        out.append((("set_params", {"f__a": 3.0, "f__b": 0.25, "f__c": -1.0}, new), new))
        other = "neg" if spec[1][0][0] != "neg" else "sqrt"
        new = ("pipe", [(other, spec[1][0][1])] + list(spec[1][1:]), spec[2])
        out.append((("set_params", {"t0__kind": other}, new), new))
    elif k == "stack":
        new = ("stack", [("sf", 3.0, 0.25, -1.0)] + list(spec[1][1:]))
        out.append((("set_params", {"m0__a": 3.0, "m0__b": 0.25, "m0__c": -1.0}, new), new))
    return out


def bounded(tier, seed):
    try:        # BLAS thread pools only slow these tiny problems down
        from threadpoolctl import threadpool_limits
        with threadpool_limits(limits=1):
            return _bounded(tier, seed)
    except ImportError:
        return _bounded(tier, seed)


def _bounded(tier, seed):
    quick = tier == "quick"
    R = Recorder(
        "stub parts (recording forecasters a*mean+b*last+c*h, 5 invertible transformer kinds with/without update, recording "
        "meta-regressor): every depth-1 ensemble (4 aggregates x 1..4 members), online ensemble, pipeline (all ordered "
        "1-, 2- and 3-transformer sequences" + (" (3-sequences sampled)" if quick else "") + "), multiplexer (1..3 members x each "
        "selection) and stacking (1..3 members); depth-2 nestings of all five composites and seeded random depth-3 nestings; "
        "n 9..14, index start 0/5, horizons " + str(FHS_ALL) + " (+ in-sample " + str(FHS_INSAMPLE) + " where no stacking is "
        "involved), fh given at fit or at predict, 6 update plans (update / update_predict_single / moving-cutoff "
        "update_predict, update_params both), object histories (refit, update then refit, clone, set_params then refit incl. "
        "reselection of the multiplexer); real parts: NaiveForecaster variants, PolynomialTrend"
        + ("" if quick else ", ExponentialSmoothing, Theta") + " in ensembles/multiplexers/stacking (2-3 members) and pipelines of "
        "up to " + ("2" if quick else "3") + " of Log, Detrender, Deseasonalizer, MinMax adaptor"
        + ("" if quick else ", BoxCox, multiplicative Deseasonalizer, Standard adaptor") + " on n 24..28. Not covered: exogenous X, "
        "prediction intervals, n_jobs>1, non-integer (datetime/period) indices, skip-inverse transformers (Imputer, "
        "HampelFilter), reduction/TimeSeriesForest-based members (not runnable here), real online weighting algorithms "
        "(a recording stand-in is used)")
    rng = random.Random(seed)
    fhs = FHS_ALL if not quick else [FHS_ALL[i] for i in (0, 1, 3, 4, 5)]
    # ---- stub parts, depth 1
    for si, spec in enumerate(depth1_specs(tier)):
        stack = spec[0] == "stack"
        small = spec[0] == "pipe" and len(spec[1]) == 3
        for fi, fh in enumerate(fhs + ([] if stack else FHS_INSAMPLE)):
            plans = UPDATE_PLANS if (not quick and not small) else [UPDATE_PLANS[(si + fi) % len(UPDATE_PLANS)], UPDATE_PLANS[(si + fi + 3) % len(UPDATE_PLANS)]]
            for pi, plan in enumerate(plans):
                n, l0 = (9 + (si + fi + pi) % 6, 5 * ((si + pi) % 2))
                fh_at = "fit" if (stack or (si + fi + pi) % 3) else "predict"
                if min(fh) <= 0 and any(u[2] != "update" for u in plan):
                    plan = [u for u in plan if u[2] == "update"]
                scenario(R, spec, n, l0, fh, fh_at, plan, seed)
        # moving-cutoff update_predict
        for fh in ((1,), (1, 2)) if (quick or small) else ((1,), (1, 2), (2,), (1, 3)):
            for up in (False, True):
                scenario(R, spec, 10 + si % 3, 5 * (si % 2), fh, "fit", [(4, up, "update_predict")], seed)
        # object histories
        if not small or si % 3 == 0:
            for ri, (pre, spec2) in enumerate(reconfigurations(spec)):
                pre = pre if pre[0] == "set_params" else (pre[0],)
                for fh in ((1, 2, 3), (2, 4)) if quick else ((1,), (1, 2, 3), (2, 4), (3,)):
                    scenario(R, spec, 10 + (si + ri) % 4, 5 * (ri % 2), fh, "fit", [(2, bool(ri % 2), "update")], seed, pre=pre)
    # ---- stub parts, nested
    for si, spec in enumerate(depth2_specs()):
        stack = has_kind(spec, "stack")
        for fi, fh in enumerate(fhs if not quick else fhs[1::2]):
            plan = UPDATE_PLANS[(si + fi) % len(UPDATE_PLANS)]
            scenario(R, spec, 12 + (si + fi) % 3, 5 * ((si + fi) % 2), fh, "fit" if (stack or (si + fi) % 2) else "predict", plan, seed)
        if si % (4 if quick else 1) == 0:
            for pre, _ in reconfigurations(spec)[:3]:
                scenario(R, spec, 13, 5, (1, 3), "fit", [(2, True, "update")], seed, pre=(pre[0],))
    for _ in range(60 if quick else 1000):
        spec = random_spec(rng, 3)
        if spec[0] == "sf":
            continue
        fh = rng.choice(FHS_ALL)
        plan = rng.choice(UPDATE_PLANS)
        scenario(R, spec, rng.randint(14, 18), rng.choice([0, 5, 11]), fh, "fit", plan, seed)
    # ---- online ensemble with a weighting algorithm, multiplexer fit parameters
    for nm in (1, 2, 3, 4):
        for fh in fhs:
            for ks in ([1], [2, 1], [3, 2, 2]):
                online_case(R, nm, 9 + nm, 5 * (nm % 2), fh, ks, seed)
    for nm in (1, 2, 3):
        for sel in range(nm):
            mux_fit_params_case(R, nm, sel, 9, 5, (1, 2))
    # ---- real parts
    F = real_forecasters(tier)
    T = real_transformers(tier)
    rplans = [[], [(3, False)], [(2, True)], [(1, False), (4, True)]]
    c = 0
    depth = 2 if quick else 3
    for d in range(1, depth + 1):
        for combo in itertools.permutations(range(len(T)), d):
            fsel = range(len(F)) if (not quick and d < 3) else [(c + j) % len(F) for j in range(2)]
            for fi in fsel:
                for pj in range(2 if quick else (4 if d < 3 else 2)):
                    c += 1
                    fh = FHS_ALL[c % len(FHS_ALL)]
                    real_pipeline(R, [T[i][0] for i in combo], [T[i][1] for i in combo], F[fi][0], F[fi][1],
                                  24 + c % 5, 5 * (c % 2), fh, rplans[(c + pj) % len(rplans)] if pj else rplans[1 + c % 3], seed)
    for size in (2, 3):
        combos = list(itertools.combinations(range(len(F)), size))
        if quick:
            combos = combos[:: (2 if size == 2 else 5)]
        elif size == 3:
            combos = combos[::2]
        for ci, combo in enumerate(combos):
            names, makers = [F[i][0] for i in combo], [F[i][1] for i in combo]
            for ai, agg in enumerate(AGG):
                c += 1
                fh = FHS_ALL[c % len(FHS_ALL)]
                real_ensemble(R, names, makers, agg, 24 + c % 5, 5 * (c % 2), fh, "fit" if c % 3 else "predict", rplans[c % len(rplans)], seed)
            real_ensemble(R, names, makers, "mean", 25, 5, FHS_ALL[ci % len(FHS_ALL)], "fit", rplans[1 + ci % 3], seed, online=True)
            for fh in ((1, 2, 3), (2, 4)) if quick else FHS_ALL:
                c += 1
                real_stack(R, names, makers, 24 + c % 5, 5 * (c % 2), fh, rplans[c % len(rplans)], seed)
            c += 1
            real_mux(R, names, makers, 24 + c % 5, 5 * (c % 2), FHS_ALL[c % len(FHS_ALL)], rplans[c % len(rplans)], seed, reselect=True)
            real_mux(R, names[::-1], makers[::-1], 24 + c % 5, 0, FHS_ALL[(c + 2) % len(FHS_ALL)], rplans[(c + 1) % len(rplans)], seed, reselect=False)
    return R.result()


def replay(rec):
    m = rec.get("model") or {}
    target, case = str(rec.get("target", "")), str(rec.get("case", ""))
    R = Recorder("replay")
    n = min(max(mint(m, "n", 12), 9), 40)
    l0 = max(mint(m, "l0", mint(m, "start", 5)), 0)
    nf = min(max(mint(m, "len(fh)", 2), 1), 4)
    fh = ints_from_model(m, "fh", nf) if "fh" in m else [mint(m, f"fh{i}", 0) for i in range(4) if f"fh{i}" in m]
    fh = sorted({h for h in fh if 1 <= h <= 6}) or [2, 4]
    fhs = [tuple(fh)] + [f for f in ((1, 2, 3), (2, 4), (3,)) if f != tuple(fh)]
    txt = (target + " " + case).lower()
    kinds = [k for k, words in (("ens", ("ensemble",)), ("pipe", ("pipeline", "transformedtarget")), ("mux", ("multiplex",)),
                                ("stack", ("stack",)), ("online", ("online",))) if any(w in txt for w in words)]
    kinds = kinds or ["ens", "pipe", "mux", "stack", "online"]
    specs = [s for s in depth1_specs("quick") if s[0] in kinds]
    specs = [s for i, s in enumerate(specs) if s[0] != "pipe" or i % 3 == 0]
    for si, spec in enumerate(specs):
        for f in fhs:
            scenario(R, spec, n, l0, f, "fit", UPDATE_PLANS[(si + 1) % len(UPDATE_PLANS)] or UPDATE_PLANS[3], 0)
        for pre, _ in reconfigurations(spec):
            scenario(R, spec, n, l0, fhs[0], "fit", [(2, True, "update")], 0, pre=pre if pre[0] == "set_params" else (pre[0],))
    if "online" in kinds:
        online_case(R, 3, n, l0, fhs[0], [2, 1], 0)
    f = R.failures
    return {"reproduced": bool(f), "detail": f[:3], "input": {"n": n, "start": l0, "fh": list(fhs[0]), "composites": kinds}}
