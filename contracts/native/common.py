"""helpers shared by the native (real-code) oracles"""
import itertools


class Recorder:
    def __init__(self, bound_note):
        self.cases = 0
        self.failures = []
        self.keys = set()
        self.bound = bound_note
        self.labels = {}

    def check(self, key, ok, detail):
        self.cases += 1
        self.labels[key] = self.labels.get(key, 0) + 1
        if not ok and key not in self.keys:
            self.keys.add(key)
            self.failures.append({"key": key, "detail": detail})

    def result(self):
        return {"cases": self.cases, "failures": self.failures, "bound": self.bound, "per_clause": self.labels,
                "label": "bounded (never counted as proved)"}


def ints_from_model(model, name, n):
    """first n entries of the tabulated uninterpreted array `name`"""
    tab = model.get(name) or []
    out = []
    for i in range(n):
        out.append(int(tab[i]) if i < len(tab) else 0)
    return out


def mint(model, name, default=0):
    v = model.get(name)
    try:
        return int(v)
    except (TypeError, ValueError):
        return default
