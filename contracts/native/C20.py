"""C20 native oracle: malformed data, horizons and settings are rejected by the real entry points.

Every class of malformed input named by the property is crossed with the entry points that accept it
(forecasters, composites, splitters, tuning, evaluate, temporal_train_test_split, ForecastingHorizon); the
expectation ("must be rejected" / "must be accepted") is computed here from the definition of the malformation,
never by calling a validation helper of the library.
"""
import itertools
import random
import warnings

import numpy as np
import pandas as pd
from sklearn.base import BaseEstimator as _SkBase
from sklearn.base import RegressorMixin

from .common import Recorder, ints_from_model, mint

ALLOWED = (ValueError, TypeError, NotImplementedError)


# ----------------------------------------------------------------------------------------------- stubs / helpers
class StubReg(RegressorMixin, _SkBase):
    """mean regressor; returns a Python scalar for one row (numpy 2 refuses y_pred[i] = array([v]))"""

    def fit(self, X, y):
        y = np.asarray(y, dtype=float)
        self.k_ = y.shape[1] if y.ndim == 2 else 0
        self.m_ = float(np.mean(y)) if y.size else 0.0
        return self

    def predict(self, X):
        n = np.asarray(X).shape[0]
        if self.k_:
            return np.full((n, self.k_), self.m_)
        return self.m_ if n == 1 else np.full(n, self.m_)


class DuckForecaster(_SkBase):
    """has the methods of a forecaster, but is not a sktime BaseForecaster"""

    def fit(self, y, X=None, fh=None):
        self.last_, self.fh_ = float(np.asarray(y, dtype=float)[-1]), fh
        return self

    def predict(self, fh=None, X=None, return_pred_int=False, alpha=0.05):
        k = len(fh if fh is not None else self.fh_)
        return pd.Series(np.full(k, self.last_))

    def update(self, y, X=None, update_params=True):
        return self


class DuckTransformer(_SkBase):
    """has the methods of a transformer, but is not a sktime series-to-series transformer"""

    def fit(self, Z, X=None):
        return self

    def fit_transform(self, Z, X=None):
        return Z

    def transform(self, Z, X=None):
        return Z

    def inverse_transform(self, Z, X=None):
        return Z


class MAE:
    name = "mae"
    greater_is_better = False

    def __call__(self, y_true, y_pred):
        return float(np.mean(np.abs(np.asarray(y_true, dtype=float) - np.asarray(y_pred, dtype=float))))


def _call(fn):
    with warnings.catch_warnings():
        warnings.simplefilter("ignore")
        try:
            return "accepted", fn()
        except ALLOWED as e:
            return "rejected", e
        except Exception as e:  # noqa
            return "crashed", e


def _short(v):
    if isinstance(v, (pd.Series, pd.DataFrame)):
        return f"{type(v).__name__} with index {list(v.index)[:8]}"
    if isinstance(v, (list, tuple)):
        return f"{type(v).__name__} of {len(v)}: " + repr(v)[:120]
    return repr(v)[:120]


def _msg(e):
    return f"{type(e).__name__}: {str(e)[:140]}"


def _fitted(est):
    return bool(getattr(est, "_is_fitted", False))


def _cut(est):
    return repr(getattr(est, "_cutoff", None))


def must_reject(R, key, fn, desc, est=None, with_cutoff=False, kf=None):
    """`fn` is a call with a malformed argument: it has to raise one of ALLOWED; `est` (if given) must not
    become fitted (and, for update-like calls, must keep its cutoff).  kf = (key, predicate(kind, value)):
    a known, narrowly described defect of the unchanged tree is reported under its own key."""
    f0, c0 = (_fitted(est), _cut(est)) if est is not None else (None, None)
    kind, v = _call(fn)
    if kind == "accepted":
        bad = f"ACCEPTED, returned {_short(v)}"
    elif kind == "crashed":
        bad = f"raised {_msg(v)} (not ValueError/TypeError/NotImplementedError)"
    else:
        bad = None
    if bad is not None and kf is not None and kf[1](kind, v):
        R.check(kf[0], False, f"{desc}: {bad}")
        return False
    R.check(key, bad is None, f"{desc}: {bad}")
    if est is not None and kind != "accepted":
        f1, c1 = _fitted(est), _cut(est)
        ok = (f1 == f0) and (not with_cutoff or c1 == c0)
        R.check("no-fitted-state-after-rejection", ok,
                f"{desc}: after the rejected call is_fitted {f0}->{f1}, cutoff {c0}->{c1}")
    return bad is None


def must_accept(R, fn, desc, key="accepts-valid", post=None):
    """`fn` differs from a rejected call only in the offending aspect: it has to run; post(result) -> None or text"""
    kind, v = _call(fn)
    if kind != "accepted":
        R.check(key, False, f"{desc}: valid input was not accepted: {_msg(v)}")
        return None
    why = post(v) if post is not None else None
    R.check(key, why is None, f"{desc}: {why}")
    return v


# DatetimeIndex is left out: under pandas 2 a Timestamp carries no `freq`, so every forecast from a datetime cutoff fails
# inside sktime.utils.datetime._get_freq ("No `freq` information available") -- a limit of the sandbox, not a finding
KINDS = ("range", "int", "period")


def make_index(kind, start, n):
    if kind == "range":
        return pd.RangeIndex(start, start + n)
    if kind == "int":
        return pd.Index(np.arange(start, start + n, dtype="int64"))
    if kind == "period":
        return pd.period_range("2001-03", periods=start + n, freq="M")[start:]
    return pd.date_range("2001-03-01", periods=start + n, freq="D")[start:]


def make_y(rng, kind, start, n):
    vals = np.round(np.array([rng.uniform(1, 9) for _ in range(n)]) + 0.25 * np.arange(n), 3)
    return pd.Series(vals, index=make_index(kind, start, n))


def make_X(rng, index, ncol=2):
    return pd.DataFrame({f"x{j}": [round(rng.uniform(0, 5), 3) for _ in range(len(index))] for j in range(ncol)}, index=index)


def context(rng, kinds=KINDS, nmin=12, nmax=18):
    kind = rng.choice(list(kinds))
    start = rng.randint(1, 30)
    n = rng.randint(nmin, nmax)
    return kind, start, n, make_y(rng, kind, start, n)


def steps_after(y, steps):
    """independent: the index labels `steps` after the end of y (regular index)"""
    idx = y.index
    if isinstance(idx, pd.PeriodIndex):
        return [idx[-1] + int(s) for s in steps]
    if isinstance(idx, pd.DatetimeIndex):
        return [idx[-1] + pd.Timedelta(days=int(s)) for s in steps]
    return [int(idx[-1]) + int(s) for s in steps]


def continuation(rng, y, k):
    """k further observations following y (same index type)"""
    idx = y.index
    if isinstance(idx, pd.PeriodIndex):
        new = pd.period_range(idx[-1] + 1, periods=k, freq=idx.freq)
    elif isinstance(idx, pd.DatetimeIndex):
        new = pd.date_range(idx[-1] + pd.Timedelta(days=1), periods=k, freq="D")
    elif isinstance(idx, pd.RangeIndex):
        new = pd.RangeIndex(int(idx[-1]) + 1, int(idx[-1]) + 1 + k)
    else:
        new = pd.Index(np.arange(int(idx[-1]) + 1, int(idx[-1]) + 1 + k, dtype="int64"))
    return pd.Series([round(rng.uniform(1, 9), 3) for _ in range(k)], index=new)


# ------------------------------------------------------------------------------------------- forecaster factories
class Fac:
    def __init__(self, name, make, needs_fh=False, takes_X=True, window=True, slow=False):
        self.name, self.make, self.needs_fh, self.takes_X, self.window, self.slow = name, make, needs_fh, takes_X, window, slow


def factories(w=3):
    from sktime.forecasting.compose import (EnsembleForecaster, MultiplexForecaster, StackingForecaster,
                                            TransformedTargetForecaster, make_reduction)
    from sktime.forecasting.model_selection import (ForecastingGridSearchCV, ForecastingRandomizedSearchCV,
                                                    SlidingWindowSplitter)
    from sktime.forecasting.naive import NaiveForecaster
    from sktime.transformations.series.boxcox import LogTransformer
    out = [
        Fac("NaiveForecaster(last)", lambda: NaiveForecaster()),
        Fac("NaiveForecaster(mean,window_length=3)", lambda: NaiveForecaster("mean", window_length=3)),
        Fac("NaiveForecaster(drift)", lambda: NaiveForecaster("drift")),
        Fac("NaiveForecaster(last,sp=3)", lambda: NaiveForecaster("last", sp=3)),
        Fac("NaiveForecaster(mean,sp=2,window_length=5)", lambda: NaiveForecaster("mean", sp=2, window_length=5)),
    ]
    for s in ("recursive", "direct", "multioutput", "dirrec"):
        for sc in ("tabular-regressor", "time-series-regressor"):
            out.append(Fac(f"make_reduction({s},{sc},window_length={w})",
                           (lambda s=s, sc=sc: make_reduction(StubReg(), strategy=s, window_length=w, scitype=sc)),
                           needs_fh=(s != "recursive"), takes_X=(s != "dirrec")))
    two = lambda: [("a", NaiveForecaster()), ("b", NaiveForecaster("mean"))]  # noqa
    out += [
        Fac("EnsembleForecaster(naive,naive-mean)", lambda: EnsembleForecaster(two()), window=False),
        Fac("StackingForecaster(naive,naive-mean;stub)", lambda: StackingForecaster(two(), final_regressor=StubReg()),
            needs_fh=True, takes_X=False, window=False),
        Fac("MultiplexForecaster(selected=b)", lambda: MultiplexForecaster(two(), selected_forecaster="b"), window=False),
        Fac("TransformedTargetForecaster(log,naive)", lambda: TransformedTargetForecaster(
            [("log", LogTransformer()), ("f", NaiveForecaster("drift"))]), window=False),
        Fac("ForecastingGridSearchCV(naive)", lambda: ForecastingGridSearchCV(
            NaiveForecaster(), SlidingWindowSplitter(fh=[1, 2], window_length=4), {"strategy": ["last", "mean"]},
            scoring=MAE()), window=True, slow=True),
        Fac("ForecastingRandomizedSearchCV(naive)", lambda: ForecastingRandomizedSearchCV(
            NaiveForecaster(), SlidingWindowSplitter(fh=[1], window_length=3), {"strategy": ["last", "mean", "drift"]}, n_iter=2,
            random_state=0, scoring=MAE()), window=True, slow=True),
    ]
    return out


# ------------------------------------------------------------------------------------------ A. malformed target y
def bad_targets(rng, y):
    """(clause, label, object): every variant differs from the valid y only in the named aspect"""
    n = len(y)
    i = rng.randint(0, n - 2)
    perm = list(range(n))
    perm[i], perm[i + 1] = perm[i + 1], perm[i]
    out = [
        ("rejects-unsorted-index", f"two neighbouring time points swapped at position {i}", pd.Series(y.values, index=y.index[perm])),
        ("rejects-unsorted-index", "index in descending order", pd.Series(y.values, index=y.index[::-1])),
        ("rejects-empty-index", "empty series", y.iloc[:0]),
        ("rejects-multivariate-target", "DataFrame with two columns", pd.DataFrame({"a": y, "b": y * 2})),
        ("rejects-array-target", "1d numpy array", y.to_numpy()),
        ("rejects-array-target", "2d numpy array (n,1)", y.to_numpy().reshape(-1, 1)),
        ("rejects-array-target", "python list", list(y.to_numpy())),
    ]
    return out


KF_UP = "KF:window-forecaster-update-predict-does-not-validate-y"


def check_targets(R, rng, tier):
    from sktime.forecasting.model_evaluation import evaluate
    from sktime.forecasting.model_selection import (CutoffSplitter, ExpandingWindowSplitter, SingleWindowSplitter,
                                                    SlidingWindowSplitter, temporal_train_test_split)
    from sktime.forecasting.naive import NaiveForecaster
    facs = factories()
    reps = 2 if tier == "quick" else 6
    for fac in facs:
        for rep in range(reps if not fac.slow else reps // 2):
            kind, start, n, y = context(rng)
            ctx = f"[{kind} index from {y.index[0]}, n={n}]"
            fh = [1, 2] if rep == 0 else sorted(rng.sample(range(1, 5), 2))
            # ---- fit
            must_accept(R, lambda: fac.make().fit(y, fh=fh), f"{fac.name}.fit(y, fh={fh}) {ctx}",
                        post=lambda f: None if f.is_fitted else "fit returned but is_fitted is False")
            for key, label, by in bad_targets(rng, y):
                est = fac.make()
                must_reject(R, key, lambda: est.fit(by, fh=fh), f"{fac.name}.fit(y=<{label}>, fh={fh}) {ctx}", est=est)
            # ---- update / update_predict_single / update_predict after a valid fit
            ynew = continuation(rng, y, 4)
            must_accept(R, lambda: fac.make().fit(y, fh=fh).update(ynew, update_params=False).predict(),
                        f"{fac.name}: fit, update(y_new), predict {ctx}",
                        post=lambda p: None if list(p.index) == steps_after(ynew, fh) else
                        f"forecast index {list(p.index)} expected {steps_after(ynew, fh)}")
            for key, label, by in bad_targets(rng, ynew):
                if key == "rejects-empty-index":
                    continue   # update with no new observations is an explicit no-op of the library (allow_empty=True)
                for ep in ("update", "update_predict_single"):
                    est = fac.make().fit(y, fh=fh)
                    call = (lambda: est.update(by, update_params=False)) if ep == "update" else \
                        (lambda: est.update_predict_single(by, update_params=False))
                    must_reject(R, key, call, f"{fac.name}: fit(y) then {ep}(y_new=<{label}>) {ctx}", est=est, with_cutoff=True)
            if fac.slow and tier == "quick":
                continue
            for key, label, by in bad_targets(rng, ynew):
                est = fac.make().fit(y, fh=fh)
                kf = None
                if fac.window and label in ("empty series", "1d numpy array", "2d numpy array (n,1)"):
                    # _BaseWindowForecaster.update_predict never calls check_y: IndexError / AttributeError escape
                    kf = (KF_UP, lambda k, v: k == "crashed" and isinstance(v, (IndexError, AttributeError)))
                must_reject(R, key, lambda: est.update_predict(by, update_params=False),
                            f"{fac.name}: fit(y) then update_predict(y=<{label}>) {ctx}", est=est, with_cutoff=True, kf=kf)
    # ---- evaluate, splitters, temporal_train_test_split
    for rep in range(reps):
        kind, start, n, y = context(rng)
        ctx = f"[{kind} index from {y.index[0]}, n={n}]"
        w = rng.randint(2, 4)
        fh = sorted(rng.sample(range(1, 4), 2))
        splitters = [
            ("SlidingWindowSplitter", lambda: SlidingWindowSplitter(fh=fh, window_length=w, step_length=2)),
            ("SlidingWindowSplitter(initial_window)", lambda: SlidingWindowSplitter(fh=fh, window_length=w, initial_window=w + 2)),
            ("ExpandingWindowSplitter", lambda: ExpandingWindowSplitter(fh=fh, initial_window=w, step_length=3)),
            ("SingleWindowSplitter", lambda: SingleWindowSplitter(fh=fh, window_length=w)),
            ("CutoffSplitter", lambda: CutoffSplitter(np.array([w, w + 2]), fh=fh, window_length=w)),
        ]
        for sname, mk in splitters:
            must_accept(R, lambda: [(a.tolist(), b.tolist()) for a, b in mk().split(y)], f"{sname}(fh={fh}, w={w}).split(y) {ctx}",
                        post=lambda s: None if len(s) >= 1 and all(max(b) < n and min(a) >= 0 for a, b in s) else f"splits {s}")
            must_accept(R, lambda: list(mk().split(y.index)), f"{sname}(fh={fh}, w={w}).split(y.index) {ctx}")
            for key, label, by in bad_targets(rng, y):
                if key in ("rejects-multivariate-target", "rejects-array-target"):
                    continue   # split documents pd.Series or pd.Index; arrays of time points are converted, not targets
                for form, arg in (("Series", by), ("Index", by.index)):
                    must_reject(R, key, lambda: [(a.tolist(), b.tolist()) for a, b in mk().split(arg)],
                                f"{sname}(fh={fh}, w={w}).split(<{form}: {label}>) {ctx}")
                if sname != "CutoffSplitter":   # CutoffSplitter.get_cutoffs does not depend on y
                    must_reject(R, key, lambda: mk().get_cutoffs(by), f"{sname}(fh={fh}, w={w}).get_cutoffs(<{label}>) {ctx}",
                                kf=("KF:single-window-get-cutoffs-does-not-validate-y",
                                    lambda k, v: sname == "SingleWindowSplitter" and k == "accepted"))
            if sname in ("SlidingWindowSplitter", "ExpandingWindowSplitter", "SingleWindowSplitter") and (tier != "quick" or rep == 0):
                must_accept(R, lambda: evaluate(NaiveForecaster(), mk(), y, scoring=MAE()), f"evaluate(naive, {sname}(fh={fh}, w={w}), y) {ctx}",
                            post=lambda r: None if len(r) >= 1 else "no rows")
                for key, label, by in bad_targets(rng, y):
                    must_reject(R, key, lambda: evaluate(NaiveForecaster(), mk(), by, scoring=MAE()),
                                f"evaluate(naive, {sname}(fh={fh}, w={w}), y=<{label}>) {ctx}")
        # temporal_train_test_split with a horizon
        for with_X in (False, True):
            X = make_X(rng, y.index) if with_X else None
            must_accept(R, lambda: temporal_train_test_split(y, X, fh=fh), f"temporal_train_test_split(y, X={'X' if with_X else None}, fh={fh}) {ctx}",
                        post=lambda r: None if list(r[1].index) == [y.index[n - max(fh) - 1 + h] for h in fh] and list(r[0].index) == list(y.index[: n - max(fh)])
                        else f"train {list(r[0].index)} test {list(r[1].index)}")
            for key, label, by in bad_targets(rng, y):
                if key not in ("rejects-unsorted-index", "rejects-empty-index"):
                    continue   # the function is documented for pd.Series; other containers are outside its signature
                bX = None
                if with_X:
                    bX = pd.DataFrame(X.values[: len(by)], index=by.index, columns=X.columns)
                kf = None
                if not with_X:
                    # _split_by_fh validates the index only through check_equal_time_index(y, X), i.e. only when X is given
                    kf = ("KF:train-test-split-without-X-does-not-validate-y", lambda k, v: k == "accepted" or isinstance(v, IndexError))
                must_reject(R, key, lambda: temporal_train_test_split(by, bX, fh=fh),
                            f"temporal_train_test_split(y=<{label}>, X={'same index as y' if with_X else None}, fh={fh}) {ctx}", kf=kf)


# ------------------------------------------------------------------------------------- B. exogenous index mismatch
def exog_variants(rng, kind, start, n, k):
    """index of X differing from the index [start, start+n) of y; all sorted, so only equality is at stake"""
    idx = make_index(kind, start, n)
    j = rng.randint(1, n - 2)
    out = [
        (f"shifted by {k}", make_index(kind, start + k, n)),
        (f"shifted by -1", make_index(kind, start - 1, n)),
        (f"last {k} time points missing", idx[:-k]),
        (f"first time point missing", idx[1:]),
        (f"interior time point at position {j} missing", idx.delete(j)),
        (f"{k} extra time points after the end of y", make_index(kind, start, n + k)),
        (f"1 extra time point before the start of y", make_index(kind, start - 1, n + 1)),
        (f"extra time points before and after y", make_index(kind, start - 1, n + 1 + k)),
        (f"last time point replaced by the one after it", idx[:-1].append(make_index(kind, start + n, 1))),
        (f"first time point replaced by the one before it", make_index(kind, start - 1, 1).append(idx[1:])),
        (f"same length and end points, interior time point {j} replaced by a copy of its predecessor", idx.delete(j).insert(j, idx[j - 1])),
        (f"the same time points in reverse order", idx[::-1]),
        (f"no rows at all", idx[:0]),
    ]
    return out


def check_exog(R, rng, tier):
    from sktime.forecasting.model_evaluation import evaluate
    from sktime.forecasting.model_selection import (ExpandingWindowSplitter, ForecastingGridSearchCV, SlidingWindowSplitter,
                                                    temporal_train_test_split)
    from sktime.forecasting.naive import NaiveForecaster
    key = "rejects-exog-index-mismatch"
    facs = [f for f in factories() if f.takes_X]
    reps = 2 if tier == "quick" else 6
    for fac in facs:
        for rep in range(reps if not fac.slow else reps // 2):
            kind, start, n, y = context(rng)
            k = rng.randint(1, 3)
            ctx = f"[{kind} index from {y.index[0]}, n={n}]"
            fh = [1, 2]
            X = make_X(rng, y.index)
            must_accept(R, lambda: fac.make().fit(y, X, fh=fh), f"{fac.name}.fit(y, X with the index of y, fh={fh}) {ctx}",
                        post=lambda f: None if f.is_fitted else "is_fitted is False")
            for label, bidx in exog_variants(rng, kind, start, n, k):
                est = fac.make()
                bX = make_X(rng, bidx)
                must_reject(R, key, lambda: est.fit(y, bX, fh=fh), f"{fac.name}.fit(y, X with {label}, fh={fh}) {ctx}", est=est)
            # fit on the first part, update with the rest
            m = n - rng.randint(4, 6)
            y1, y2, X1, X2 = y.iloc[:m], y.iloc[m:], X.iloc[:m], X.iloc[m:]
            must_accept(R, lambda: fac.make().fit(y1, X1, fh=fh).update(y2, X2, update_params=False),
                        f"{fac.name}: fit(y1, X1), update(y2, X2 with the index of y2) {ctx}",
                        post=lambda f: None if f.cutoff == y.index[-1] else f"cutoff {f.cutoff!r} expected {y.index[-1]!r}")
            for label, bidx in exog_variants(rng, kind, start + m, n - m, k):
                est = fac.make().fit(y1, X1, fh=fh)
                bX = make_X(rng, bidx)
                must_reject(R, key, lambda: est.update(y2, bX, update_params=False),
                            f"{fac.name}: fit(y1, X1) then update(y2, X with {label}) {ctx}", est=est, with_cutoff=True)
    for rep in range(reps):
        kind, start, n, y = context(rng)
        k = rng.randint(1, 3)
        ctx = f"[{kind} index from {y.index[0]}, n={n}]"
        fh = sorted(rng.sample(range(1, 4), 2))
        w = rng.randint(2, 4)
        X = make_X(rng, y.index)
        cvs = [("SlidingWindowSplitter", lambda: SlidingWindowSplitter(fh=fh, window_length=w)),
               ("ExpandingWindowSplitter", lambda: ExpandingWindowSplitter(fh=fh, initial_window=w, step_length=2))]
        must_accept(R, lambda: temporal_train_test_split(y, X, fh=fh), f"temporal_train_test_split(y, X, fh={fh}) {ctx}",
                    post=lambda r: None if len(r) == 4 and list(r[2].index) == list(r[0].index) else "X_train not aligned with y_train")
        for label, bidx in exog_variants(rng, kind, start, n, k):
            bX = make_X(rng, bidx)
            must_reject(R, key, lambda: temporal_train_test_split(y, bX, fh=fh), f"temporal_train_test_split(y, X with {label}, fh={fh}) {ctx}")
        for cname, mk in cvs:
            for strat in ("refit", "update"):
                must_accept(R, lambda: evaluate(NaiveForecaster(), mk(), y, X=X, strategy=strat, scoring=MAE()),
                            f"evaluate(naive, {cname}(fh={fh}, w={w}), y, X, strategy={strat}) {ctx}")
                for label, bidx in exog_variants(rng, kind, start, n, k):
                    bX = make_X(rng, bidx)
                    must_reject(R, key, lambda: evaluate(NaiveForecaster(), mk(), y, X=bX, strategy=strat, scoring=MAE()),
                                f"evaluate(naive, {cname}(fh={fh}, w={w}), y, X with {label}, strategy={strat}) {ctx}")
            if tier == "quick" and rep > 0:
                continue
            for label, bidx in exog_variants(rng, kind, start, n, k):
                bX = make_X(rng, bidx)
                est = ForecastingGridSearchCV(NaiveForecaster(), mk(), {"strategy": ["last", "mean"]}, scoring=MAE())
                must_reject(R, key, lambda: est.fit(y, bX), f"ForecastingGridSearchCV(naive, {cname}(fh={fh}, w={w})).fit(y, X with {label}) {ctx}", est=est)


# --------------------------------------------------------------------------------------------- C. malformed horizon
def bad_horizons():
    """(clause, label, maker) -- makers, so that every call gets a fresh object"""
    return [
        ("rejects-duplicate-horizon", "[1, 1]", lambda: [1, 1]),
        ("rejects-duplicate-horizon", "[1, 2, 2]", lambda: [1, 2, 2]),
        ("rejects-duplicate-horizon", "[2, 1, 2]", lambda: [2, 1, 2]),
        ("rejects-duplicate-horizon", "np.array([3, 1, 3])", lambda: np.array([3, 1, 3])),
        ("rejects-duplicate-horizon", "pd.Index([1, 2, 2])", lambda: pd.Index([1, 2, 2], dtype="int64")),
        ("rejects-duplicate-horizon", "pd.Index([2, 1, 2])", lambda: pd.Index([2, 1, 2], dtype="int64")),
        ("rejects-duplicate-horizon", "[4, 1, 2, 3, 4]", lambda: [4, 1, 2, 3, 4]),
        ("rejects-empty-horizon", "[]", lambda: []),
        ("rejects-empty-horizon", "np.array([], dtype=int)", lambda: np.array([], dtype=int)),
        ("rejects-fractional-horizon", "[1.5]", lambda: [1.5]),
        ("rejects-fractional-horizon", "[1, 2.5]", lambda: [1, 2.5]),
        ("rejects-fractional-horizon", "np.array([0.5, 1.0])", lambda: np.array([0.5, 1.0])),
        ("rejects-fractional-horizon", "1.5", lambda: 1.5),
        ("rejects-wrongly-typed-horizon", "'1'", lambda: "1"),
        ("rejects-wrongly-typed-horizon", "(1, 2)", lambda: (1, 2)),
        ("rejects-wrongly-typed-horizon", "{1, 2}", lambda: {1, 2}),
        ("rejects-wrongly-typed-horizon", "{'a': 1}", lambda: {"a": 1}),
        ("rejects-wrongly-typed-horizon", "['a', 'b']", lambda: ["a", "b"]),
        ("rejects-wrongly-typed-horizon", "pd.Series([1, 2])", lambda: pd.Series([1, 2])),
        ("rejects-wrongly-typed-horizon", "2.0 (float scalar)", lambda: 2.0),
        ("rejects-wrongly-typed-horizon", "[1, None]", lambda: [1, None]),
    ]


def good_horizons():
    return [("3", lambda: 3, [3]), ("[1, 2]", lambda: [1, 2], [1, 2]), ("[2, 4]", lambda: [2, 4], [2, 4]),
            ("np.array([3, 1])", lambda: np.array([3, 1]), [1, 3]), ("np.int64(2)", lambda: np.int64(2), [2]),
            ("pd.Index([1, 3])", lambda: pd.Index([1, 3], dtype="int64"), [1, 3])]


def check_horizons(R, rng, tier):
    from sktime.forecasting.base import ForecastingHorizon
    from sktime.forecasting.model_evaluation import evaluate
    from sktime.forecasting.model_selection import (CutoffSplitter, ExpandingWindowSplitter, ForecastingGridSearchCV,
                                                    SingleWindowSplitter, SlidingWindowSplitter, temporal_train_test_split)
    from sktime.forecasting.naive import NaiveForecaster
    # ---- constructor
    for label, mk, want in good_horizons():
        must_accept(R, lambda: ForecastingHorizon(mk()), f"ForecastingHorizon({label})",
                    post=lambda f: None if [int(v) for v in f.to_pandas()] == want else f"values {list(f.to_pandas())} expected {want}")
    for key, label, mk in bad_horizons():
        if key == "rejects-empty-horizon":
            continue   # the constructor documents empty horizons as allowed; the entry points (check_fh) must reject them
        for rel in (True, False):
            must_reject(R, key, lambda: ForecastingHorizon(mk(), is_relative=rel), f"ForecastingHorizon({label}, is_relative={rel})")
    per = lambda *a: pd.PeriodIndex(list(a), freq="M")  # noqa
    must_accept(R, lambda: ForecastingHorizon(per("2001-01", "2001-03"), is_relative=False), "ForecastingHorizon(PeriodIndex(2001-01, 2001-03), is_relative=False)")
    must_reject(R, "rejects-duplicate-horizon", lambda: ForecastingHorizon(per("2001-03", "2001-01", "2001-03"), is_relative=False),
                "ForecastingHorizon(PeriodIndex(2001-03, 2001-01, 2001-03), is_relative=False)")
    must_reject(R, "rejects-wrongly-typed-horizon", lambda: ForecastingHorizon(per("2001-01", "2001-03"), is_relative=True),
                "ForecastingHorizon(PeriodIndex(2001-01, 2001-03), is_relative=True) [time points cannot be relative steps]")
    for bad in ("yes", 1, None):
        must_reject(R, "rejects-wrongly-typed-horizon", lambda: ForecastingHorizon([1, 2], is_relative=bad), f"ForecastingHorizon([1, 2], is_relative={bad!r})")
    # ---- forecasters
    reps = 1 if tier == "quick" else 4
    for fac in factories():
        for rep in range(reps if not fac.slow else 1):
            kind, start, n, y = context(rng)
            ctx = f"[{kind} index from {y.index[0]}, n={n}]"
            ynew = continuation(rng, y, 3)
            for label, mk, want in good_horizons():
                must_accept(R, lambda: fac.make().fit(y, fh=mk()).predict(), f"{fac.name}.fit(y, fh={label}).predict() {ctx}",
                            post=lambda p: None if list(p.index) == steps_after(y, want) else f"forecast index {list(p.index)} expected {steps_after(y, want)}")
                if not fac.needs_fh:
                    must_accept(R, lambda: fac.make().fit(y).predict(mk()), f"{fac.name}.fit(y).predict(fh={label}) {ctx}",
                                post=lambda p: None if list(p.index) == steps_after(y, want) else f"forecast index {list(p.index)} expected {steps_after(y, want)}")
            for key, label, mk in bad_horizons():
                est = fac.make()
                must_reject(R, key, lambda: est.fit(y, fh=mk()), f"{fac.name}.fit(y, fh={label}) {ctx}", est=est)
                est = fac.make().fit(y, fh=[1, 2])
                must_reject(R, key, lambda: est.predict(mk()), f"{fac.name}.fit(y, fh=[1, 2]) then predict(fh={label}) {ctx}", est=est, with_cutoff=True)
                est = fac.make().fit(y, fh=[1, 2])
                must_reject(R, key, lambda: est.update_predict_single(ynew, fh=mk(), update_params=False),
                            f"{fac.name}.fit(y, fh=[1, 2]) then update_predict_single(y_new, fh={label}) {ctx}", est=est, with_cutoff=True)
                if not fac.needs_fh and not fac.slow:
                    est = fac.make().fit(y)
                    must_reject(R, key, lambda: est.predict(mk()), f"{fac.name}.fit(y) then predict(fh={label}) {ctx}", est=est, with_cutoff=True)
            # ---- missing horizon
            key = "rejects-missing-horizon"
            if fac.needs_fh:
                est = fac.make()
                must_reject(R, key, lambda: est.fit(y), f"{fac.name}.fit(y) without fh (fitting depends on fh) {ctx}", est=est)
            else:
                est = fac.make().fit(y)
                must_reject(R, key, lambda: est.predict(), f"{fac.name}.fit(y) and predict() both without fh {ctx}", est=est, with_cutoff=True)
                est = fac.make().fit(y)
                must_reject(R, key, lambda: est.update_predict_single(ynew, update_params=False),
                            f"{fac.name}.fit(y) then update_predict_single(y_new) both without fh {ctx}", est=est)
                est = fac.make().fit(y)
                must_reject(R, key, lambda: est.update_predict(ynew, update_params=False),
                            f"{fac.name}.fit(y) then update_predict(y_new) without fh and without cv {ctx}", est=est)
                must_accept(R, lambda: fac.make().fit(y).predict(2), f"{fac.name}.fit(y).predict(2) {ctx}")
    # ---- splitters / evaluate / tuning / train-test split
    for rep in range(reps):
        kind, start, n, y = context(rng)
        ctx = f"[{kind} index from {y.index[0]}, n={n}]"
        w = rng.randint(2, 4)
        mks = [
            ("SlidingWindowSplitter", lambda fh: SlidingWindowSplitter(fh=fh, window_length=w)),
            ("SlidingWindowSplitter(initial_window)", lambda fh: SlidingWindowSplitter(fh=fh, window_length=w, initial_window=w + 1)),
            ("ExpandingWindowSplitter", lambda fh: ExpandingWindowSplitter(fh=fh, initial_window=w)),
            ("SingleWindowSplitter", lambda fh: SingleWindowSplitter(fh=fh, window_length=w)),
            ("CutoffSplitter", lambda fh: CutoffSplitter(np.array([w + 1, w + 3]), fh=fh, window_length=w)),
        ]
        for sname, mk in mks:
            for label, mkh, want in good_horizons():
                must_accept(R, lambda: [(a.tolist(), b.tolist()) for a, b in mk(mkh()).split(y)], f"{sname}(fh={label}, w={w}).split(y) {ctx}",
                            post=lambda s: None if len(s) >= 1 and all([t - a[-1] for t in b] == want for a, b in s) else f"splits {s[:2]} do not lie {want} after the cutoff")
            for key, label, mkh in bad_horizons() + [("rejects-missing-horizon", "None", lambda: None)]:
                must_reject(R, key, lambda: [(a.tolist(), b.tolist()) for a, b in mk(mkh()).split(y)], f"{sname}(fh={label}, w={w}).split(y) {ctx}")
                if sname != "CutoffSplitter":
                    must_reject(R, key, lambda: mk(mkh()).get_cutoffs(y), f"{sname}(fh={label}, w={w}).get_cutoffs(y) {ctx}")
                    must_reject(R, key, lambda: mk(mkh()).get_n_splits(y), f"{sname}(fh={label}, w={w}).get_n_splits(y) {ctx}",
                                kf=("KF:single-window-get-n-splits-ignores-settings", lambda k, v: sname == "SingleWindowSplitter" and k == "accepted" and v == 1))
                if sname in ("SlidingWindowSplitter", "SingleWindowSplitter"):
                    must_reject(R, key, lambda: evaluate(NaiveForecaster(), mk(mkh()), y, scoring=MAE()), f"evaluate(naive, {sname}(fh={label}, w={w}), y) {ctx}")
                    est = NaiveForecaster().fit(y.iloc[:w], fh=[1])
                    must_reject(R, key, lambda: est.update_predict(y, cv=mk(mkh()), update_params=False),
                                f"naive.fit(y[:{w}]).update_predict(y, cv={sname}(fh={label}, w={w})) {ctx}", est=est, with_cutoff=True)
                if sname == "SlidingWindowSplitter" and (tier != "quick" or key != "rejects-wrongly-typed-horizon"):
                    est = ForecastingGridSearchCV(NaiveForecaster(), mk(mkh()), {"strategy": ["last", "mean"]}, scoring=MAE())
                    must_reject(R, key, lambda: est.fit(y), f"ForecastingGridSearchCV(naive, {sname}(fh={label}, w={w})).fit(y) {ctx}", est=est)
        for label, mkh, want in good_horizons():
            must_accept(R, lambda: temporal_train_test_split(y, fh=mkh()), f"temporal_train_test_split(y, fh={label}) {ctx}",
                        post=lambda r: None if list(r[1].index) == [y.index[n - max(want) - 1 + h] for h in want] else f"test index {list(r[1].index)}")
        for key, label, mkh in bad_horizons():
            for with_X in (False, True):
                X = make_X(rng, y.index) if with_X else None
                must_reject(R, key, lambda: temporal_train_test_split(y, X, fh=mkh()), f"temporal_train_test_split(y, X={'X' if with_X else None}, fh={label}) {ctx}")


# ---------------------------------------------------------- D. horizon differing from the one used in fit (required fh)
def subsets(m, kmax=None):
    out = []
    for k in range(1, (kmax or m) + 1):
        out += [list(c) for c in itertools.combinations(range(1, m + 1), k)]
    return out


def fh_form(fh, j):
    from sktime.forecasting.base import ForecastingHorizon
    if j % 4 == 0:
        return list(fh), f"{list(fh)}"
    if j % 4 == 1:
        return np.array(fh), f"np.array({list(fh)})"
    if j % 4 == 2:
        return ForecastingHorizon(list(fh)), f"ForecastingHorizon({list(fh)})"
    return (list(fh)[::-1] if len(fh) > 1 else int(fh[0])), (f"{list(fh)[::-1]}" if len(fh) > 1 else f"{int(fh[0])}")


def required_fh_factories(w):
    from sktime.forecasting.compose import (DirectTabularRegressionForecaster, DirectTimeSeriesRegressionForecaster,
                                            DirRecTabularRegressionForecaster, DirRecTimeSeriesRegressionForecaster,
                                            MultioutputTabularRegressionForecaster, MultioutputTimeSeriesRegressionForecaster,
                                            StackingForecaster)
    from sktime.forecasting.naive import NaiveForecaster
    out = [(c.__name__, (lambda c=c: c(StubReg(), window_length=w))) for c in (
        DirectTabularRegressionForecaster, DirRecTabularRegressionForecaster, MultioutputTabularRegressionForecaster,
        DirectTimeSeriesRegressionForecaster, DirRecTimeSeriesRegressionForecaster, MultioutputTimeSeriesRegressionForecaster)]
    out.append(("StackingForecaster", lambda: StackingForecaster([("a", NaiveForecaster()), ("b", NaiveForecaster("mean"))], final_regressor=StubReg())))
    return out


def check_one_fitted_horizon(R, rng, name, mk, y, fit_fh, others, j0=0, ctx="", seq="predict"):
    """fit with fit_fh; every horizon in `others` (all different from fit_fh) must be rejected, fit_fh itself accepted"""
    key = "rejects-horizon-differing-from-fit"
    ynew = continuation(rng, y, 2)
    kind, est = _call(lambda: mk().fit(y, fh=list(fit_fh)))
    if kind != "accepted":
        R.check("accepts-valid", False, f"{name}.fit(y, fh={list(fit_fh)}) {ctx}: {_msg(est)}")
        return
    if seq == "update-predict":
        est.update(ynew, update_params=False)
        base = ynew
    else:
        base = y
    want = steps_after(base, fit_fh)
    for j, o in enumerate(others):
        arg, label = fh_form(o, j + j0)
        desc = f"{name}: fit(fh={list(fit_fh)})" + (", update(y_new)" if seq == "update-predict" else "")
        if seq == "update_predict_single":
            e2 = mk().fit(y, fh=list(fit_fh))
            must_reject(R, key, lambda: e2.update_predict_single(ynew, fh=arg, update_params=False),
                        f"{desc} then update_predict_single(y_new, fh={label}) {ctx}", est=e2, with_cutoff=True)
        else:
            must_reject(R, key, lambda: est.predict(arg), f"{desc} then predict(fh={label}) {ctx}", est=est, with_cutoff=True)
    # the same horizon in every accepted form, and no horizon at all, still give the fitted horizon
    for j in range(4):
        arg, label = fh_form(fit_fh, j)
        must_accept(R, lambda: est.predict(arg), f"{name}: fit(fh={list(fit_fh)}) then predict(fh={label}) [same horizon] {ctx}",
                    post=lambda p: None if list(p.index) == want else f"forecast index {list(p.index)} expected {want}")
    must_accept(R, lambda: est.predict(), f"{name}: fit(fh={list(fit_fh)}), rejected calls, then predict() {ctx}",
                post=lambda p: None if list(p.index) == want else f"forecast index {list(p.index)} expected {want}")


def check_fitted_horizon(R, rng, tier):
    m_all = 4 if tier == "quick" else 5
    m_big = 5 if tier == "quick" else 6
    w = 2
    facs = required_fh_factories(w)
    for rep in range(1 if tier == "quick" else 3):
        for fi, (name, mk) in enumerate(facs):
            m = m_big if fi == (rep % len(facs)) else m_all
            subs = subsets(m)
            kind, start, n, y = context(rng, nmin=w + m + 4, nmax=w + m + 8)
            ctx = f"[{kind} index from {y.index[0]}, n={n}, window_length={w}]"
            for si, a in enumerate(subs):
                others = [b for b in subs if b != a]   # ALL other horizons over {1..m}
                seq = ("predict", "update-predict", "update_predict_single")[si % 3] if (fi + si) % 2 else "predict"
                check_one_fitted_horizon(R, rng, name, mk, y, a, others, j0=si, ctx=ctx, seq=seq)


# ------------------------------------------------------------------- E. non-positive / non-integer window, step, period
BAD_INTS = [("0", 0), ("-1", -1), ("-4", -4), ("2.0", 2.0), ("2.5", 2.5), ("'3'", "3"), ("[3]", [3]), ("np.float64(3.0)", np.float64(3.0)),
            ("True", True)]
GOOD_INTS = [("2", 2), ("np.int64(3)", np.int64(3)), ("np.int32(2)", np.int32(2))]


def check_settings(R, rng, tier):
    from sktime.forecasting.compose import (DirectTabularRegressionForecaster, DirRecTabularRegressionForecaster,
                                            MultioutputTimeSeriesRegressionForecaster, RecursiveTabularRegressionForecaster,
                                            RecursiveTimeSeriesRegressionForecaster, make_reduction)
    from sktime.forecasting.model_evaluation import evaluate
    from sktime.forecasting.model_selection import (CutoffSplitter, ExpandingWindowSplitter, ForecastingGridSearchCV,
                                                    SingleWindowSplitter, SlidingWindowSplitter)
    from sktime.forecasting.naive import NaiveForecaster
    reps = 2 if tier == "quick" else 8
    for rep in range(reps):
        kind, start, n, y = context(rng, nmin=14, nmax=20)
        ctx = f"[{kind} index from {y.index[0]}, n={n}]"
        fh = sorted(rng.sample(range(1, 4), 2))
        # ---------- splitters: (name, parameter, maker(value))
        sp = [
            ("SlidingWindowSplitter", "window_length", lambda v: SlidingWindowSplitter(fh=fh, window_length=v)),
            ("SlidingWindowSplitter", "step_length", lambda v: SlidingWindowSplitter(fh=fh, window_length=3, step_length=v)),
            ("SlidingWindowSplitter", "initial_window", lambda v: SlidingWindowSplitter(fh=fh, window_length=1, initial_window=v)),
            ("SlidingWindowSplitter(start_with_window=False)", "window_length", lambda v: SlidingWindowSplitter(fh=fh, window_length=v, start_with_window=False)),
            ("SlidingWindowSplitter(start_with_window=False)", "step_length", lambda v: SlidingWindowSplitter(fh=fh, window_length=3, step_length=v, start_with_window=False)),
            ("ExpandingWindowSplitter", "initial_window", lambda v: ExpandingWindowSplitter(fh=fh, initial_window=v)),
            ("ExpandingWindowSplitter", "step_length", lambda v: ExpandingWindowSplitter(fh=fh, initial_window=3, step_length=v)),
            ("SingleWindowSplitter", "window_length", lambda v: SingleWindowSplitter(fh=fh, window_length=v)),
            ("CutoffSplitter", "window_length", lambda v: CutoffSplitter(np.array([4, 6]), fh=fh, window_length=v)),
        ]
        for sname, par, mk in sp:
            key = "rejects-bad-step-length" if par == "step_length" else "rejects-bad-window-length"
            for label, v in GOOD_INTS:
                must_accept(R, lambda: [(a.tolist(), b.tolist()) for a, b in mk(v).split(y)], f"{sname}({par}={label}, fh={fh}).split(y) {ctx}",
                            post=lambda s: None if len(s) >= 1 else "no splits")
            for label, v in BAD_INTS:
                must_reject(R, key, lambda: [(a.tolist(), b.tolist()) for a, b in mk(v).split(y)], f"{sname}({par}={label}, fh={fh}).split(y) {ctx}")
                if sname.startswith(("SlidingWindowSplitter", "ExpandingWindowSplitter")):
                    kf = None
                    if par != "step_length":
                        # BaseWindowSplitter.get_cutoffs validates fh and step_length only, never the window parameters
                        kf = ("KF:get-cutoffs-does-not-validate-window-length", lambda k, val: k == "accepted")
                    must_reject(R, key, lambda: mk(v).get_cutoffs(y), f"{sname}({par}={label}, fh={fh}).get_cutoffs(y) {ctx}", kf=kf)
                    must_reject(R, key, lambda: mk(v).get_n_splits(y), f"{sname}({par}={label}, fh={fh}).get_n_splits(y) {ctx}", kf=kf)
                if sname in ("SlidingWindowSplitter", "ExpandingWindowSplitter", "SingleWindowSplitter"):
                    must_reject(R, key, lambda: evaluate(NaiveForecaster(), mk(v), y, scoring=MAE()), f"evaluate(naive, {sname}({par}={label}, fh={fh}), y) {ctx}")
                    est = NaiveForecaster().fit(y.iloc[:3], fh=[1])
                    must_reject(R, key, lambda: est.update_predict(y, cv=mk(v), update_params=False),
                                f"naive.fit(y[:3]).update_predict(y, cv={sname}({par}={label}, fh={fh})) {ctx}", est=est, with_cutoff=True)
                if sname == "SlidingWindowSplitter" and (tier != "quick" or par != "initial_window"):
                    est = ForecastingGridSearchCV(NaiveForecaster(), mk(v), {"strategy": ["last", "mean"]}, scoring=MAE())
                    must_reject(R, key, lambda: est.fit(y), f"ForecastingGridSearchCV(naive, {sname}({par}={label}, fh={fh})).fit(y) {ctx}", est=est)
        # ---------- NaiveForecaster
        nv = [
            ("mean", "window_length", lambda v: NaiveForecaster("mean", window_length=v)),
            ("mean,sp=2", "window_length", lambda v: NaiveForecaster("mean", sp=2, window_length=v)),
            ("drift", "window_length", lambda v: NaiveForecaster("drift", window_length=v)),
            ("last", "window_length", lambda v: NaiveForecaster("last", window_length=v)),
            ("last", "sp", lambda v: NaiveForecaster("last", sp=v)),
            ("mean", "sp", lambda v: NaiveForecaster("mean", sp=v)),
            ("mean,window_length=6", "sp", lambda v: NaiveForecaster("mean", sp=v, window_length=6)),
            ("drift", "sp", lambda v: NaiveForecaster("drift", sp=v)),
        ]
        for strat, par, mk in nv:
            key = "rejects-bad-seasonal-period" if par == "sp" else "rejects-bad-window-length"
            for label, v in GOOD_INTS:
                must_accept(R, lambda: mk(v).fit(y).predict(fh), f"NaiveForecaster({strat}, {par}={label}).fit(y).predict({fh}) {ctx}",
                            post=lambda p: None if list(p.index) == steps_after(y, fh) else f"forecast index {list(p.index)}")
            for label, v in BAD_INTS + ([("1.0", 1.0)] if par == "sp" else []):
                kf = None
                if par == "sp" and strat == "drift":
                    kf = ("KF:naive-drift-ignores-invalid-sp", lambda k, val: k == "accepted")
                elif par == "sp" and strat == "last" and isinstance(v, (bool, float)) and v == 1:
                    kf = ("KF:naive-last-sp-equal-one-shortcut-skips-type-check", lambda k, val: k == "accepted")
                elif par == "window_length" and strat == "last":
                    kf = ("KF:naive-last-ignores-invalid-window-length", lambda k, val: k == "accepted")
                est = mk(v)
                must_reject(R, key, lambda: est.fit(y, fh=fh), f"NaiveForecaster({strat}, {par}={label}).fit(y, fh={fh}) {ctx}", est=est, kf=kf)
                # valid fit, then the parameter is set to the bad value and the forecaster is refitted
                est = mk(2).fit(y, fh=fh)
                est.set_params(**{par: v})
                must_reject(R, key, lambda: est.fit(y, fh=fh), f"NaiveForecaster({strat}, {par}=2).fit(y); set_params({par}={label}); fit(y, fh={fh}) {ctx}", kf=kf)
        # ---------- reduction forecasters
        classes = [RecursiveTabularRegressionForecaster, DirectTabularRegressionForecaster, DirRecTabularRegressionForecaster,
                   MultioutputTimeSeriesRegressionForecaster, RecursiveTimeSeriesRegressionForecaster]
        for cls in classes:
            for par in ("window_length", "step_length"):
                key = "rejects-bad-step-length" if par == "step_length" else "rejects-bad-window-length"
                mk = (lambda v: cls(StubReg(), window_length=v)) if par == "window_length" else (lambda v: cls(StubReg(), window_length=3, step_length=v))
                for label, v in GOOD_INTS:
                    must_accept(R, lambda: mk(v).fit(y, fh=fh).predict(), f"{cls.__name__}({par}={label}).fit(y, fh={fh}).predict() {ctx}",
                                post=lambda p: None if list(p.index) == steps_after(y, fh) else f"forecast index {list(p.index)}")
                for label, v in BAD_INTS:
                    est = mk(v)
                    must_reject(R, key, lambda: est.fit(y, fh=fh), f"{cls.__name__}({par}={label}).fit(y, fh={fh}) {ctx}", est=est)
        for s in ("recursive", "direct", "multioutput", "dirrec"):
            for label, v in BAD_INTS:
                est_box = []

                def run():
                    est_box.append(make_reduction(StubReg(), strategy=s, window_length=v))
                    return est_box[0].fit(y, fh=fh)
                must_reject(R, "rejects-bad-window-length", run, f"make_reduction(strategy={s}, window_length={label}).fit(y, fh={fh}) {ctx}")
                if est_box:
                    R.check("no-fitted-state-after-rejection", not _fitted(est_box[0]), f"make_reduction(strategy={s}, window_length={label}): is_fitted after the rejected fit")


# ---------------------------------------------------------------------------- F. a window that does not fit the series
def check_window_fit(R, rng, tier):
    from sktime.forecasting.compose import make_reduction
    from sktime.forecasting.model_evaluation import evaluate
    from sktime.forecasting.model_selection import (CutoffSplitter, ExpandingWindowSplitter, ForecastingGridSearchCV,
                                                    SingleWindowSplitter, SlidingWindowSplitter)
    from sktime.forecasting.naive import NaiveForecaster
    key = "rejects-window-that-does-not-fit"
    ns = (6, 7, 9) if tier == "quick" else (5, 6, 7, 8, 9, 10, 11, 13)
    fhs = [[1], [2], [1, 2], [1, 3], [2, 4]] if tier == "quick" else [[1], [2], [3], [1, 2], [1, 3], [2, 4], [1, 2, 5], [6], [3, 4, 7]]

    def splits(cv, y):
        return [(a.tolist(), b.tolist()) for a, b in cv.split(y)]

    def inside(n):
        return lambda s: None if len(s) >= 1 and all(len(b) and max(b) <= n - 1 and min(b) >= 0 and (not a or (min(a) >= 0 and max(a) < min(b))) for a, b in s) \
            else f"splits {s} are not inside the series 0..{n - 1}"

    for n in ns:
        kind = rng.choice(list(KINDS))
        start = rng.randint(1, 20)
        y = make_y(rng, kind, start, n)
        ctx = f"[{kind} index from {y.index[0]}, n={n}]"
        for fh in fhs:
            fmax = max(fh)
            if fmax >= n:
                continue
            for w in range(1, n + 2):
                fits = w + fmax <= n   # the first window [0, w) and its test points w-1+fh lie inside 0..n-1
                # ---- sliding / expanding / single: split, get_cutoffs, evaluate, update_predict, tuning
                cvs = [("SlidingWindowSplitter", "window_length", lambda: SlidingWindowSplitter(fh=fh, window_length=w)),
                       ("SlidingWindowSplitter(step_length=2)", "window_length", lambda: SlidingWindowSplitter(fh=fh, window_length=w, step_length=2)),
                       ("ExpandingWindowSplitter", "initial_window", lambda: ExpandingWindowSplitter(fh=fh, initial_window=w)),
                       ("SingleWindowSplitter", "window_length", lambda: SingleWindowSplitter(fh=fh, window_length=w))]
                for cname, par, mk in cvs:
                    d = f"{cname}(fh={fh}, {par}={w})"
                    near = abs(w + fmax - n) <= 1
                    if fits:
                        must_accept(R, lambda: splits(mk(), y), f"{d}.split(y) {ctx}", post=inside(n))
                        if near:
                            must_accept(R, lambda: evaluate(NaiveForecaster(), mk(), y, scoring=MAE()), f"evaluate(naive, {d}, y) {ctx}",
                                        post=lambda r: None if len(r) >= 1 else "no rows")
                            must_accept(R, lambda: NaiveForecaster().fit(y.iloc[:1], fh=fh).update_predict(y, cv=mk(), update_params=False),
                                        f"naive.fit(y[:1]).update_predict(y, cv={d}) {ctx}")
                    else:
                        must_reject(R, key, lambda: splits(mk(), y), f"{d}.split(y) {ctx}")
                        must_reject(R, key, lambda: splits(mk(), y.index), f"{d}.split(y.index) {ctx}")
                        if near or w == n + 1:
                            must_reject(R, key, lambda: evaluate(NaiveForecaster(), mk(), y, scoring=MAE()), f"evaluate(naive, {d}, y) {ctx}")
                            est = NaiveForecaster().fit(y.iloc[:1], fh=fh)
                            must_reject(R, key, lambda: est.update_predict(y, cv=mk(), update_params=False), f"naive.fit(y[:1]).update_predict(y, cv={d}) {ctx}",
                                        est=est, with_cutoff=True)
                            if cname == "SlidingWindowSplitter" and (tier != "quick" or fh == [1, 2]):
                                est = ForecastingGridSearchCV(NaiveForecaster(), mk(), {"strategy": ["last", "mean"]}, scoring=MAE())
                                must_reject(R, key, lambda: est.fit(y), f"ForecastingGridSearchCV(naive, {d}).fit(y) {ctx}", est=est)
                # ---- sliding with an initial window
                if fits:
                    for iw in range(w + 1, n + 3):
                        for step in ((1,) if tier == "quick" else (1, 3)):
                            mk = lambda: SlidingWindowSplitter(fh=fh, window_length=w, initial_window=iw, step_length=step)  # noqa
                            d = f"SlidingWindowSplitter(fh={fh}, window_length={w}, initial_window={iw}, step_length={step})"
                            iw_fits = iw + fmax <= n
                            near = abs(iw + fmax - n) <= 1
                            if iw_fits:
                                must_accept(R, lambda: splits(mk(), y), f"{d}.split(y) {ctx}", post=inside(n))
                                if near and step == 1:
                                    must_accept(R, lambda: evaluate(NaiveForecaster(), mk(), y, scoring=MAE()), f"evaluate(naive, {d}, y) {ctx}")
                            else:
                                must_reject(R, key, lambda: splits(mk(), y), f"{d}.split(y) {ctx}")
                                if near and step == 1:
                                    must_reject(R, key, lambda: evaluate(NaiveForecaster(), mk(), y, scoring=MAE()), f"evaluate(naive, {d}, y) {ctx}")
                                    est = NaiveForecaster().fit(y.iloc[:1], fh=fh)
                                    must_reject(R, key, lambda: est.update_predict(y, cv=mk(), update_params=False),
                                                f"naive.fit(y[:1]).update_predict(y, cv={d}) {ctx}", est=est, with_cutoff=True)
                                    if w <= 2 and (tier != "quick" or fh == [1, 2]):
                                        est = ForecastingGridSearchCV(NaiveForecaster(), mk(), {"strategy": ["last", "mean"]}, scoring=MAE())
                                        must_reject(R, key, lambda: est.fit(y), f"ForecastingGridSearchCV(naive, {d}).fit(y) {ctx}", est=est)
            # ---- SingleWindowSplitter without a window, horizon reaching beyond the series
            for extra in (0, 1, 3):
                f2 = [n + extra]
                must_reject(R, key, lambda: splits(SingleWindowSplitter(fh=f2), y), f"SingleWindowSplitter(fh={f2}).split(y) {ctx}")
            # ---- cutoffs
            for c in range(0, n + 2):
                ok = c + fmax <= n - 1
                d = f"CutoffSplitter(cutoffs=[1, {c}], fh={fh}, window_length=2)" if c > 1 else f"CutoffSplitter(cutoffs=[{c}], fh={fh}, window_length=2)"
                mk = lambda: CutoffSplitter(np.array(sorted({1, c}) if c > 1 else [c]), fh=fh, window_length=2)  # noqa
                if ok:
                    must_accept(R, lambda: splits(mk(), y), f"{d}.split(y) {ctx}", post=inside(n))
                else:
                    must_reject(R, key, lambda: splits(mk(), y), f"{d}.split(y) {ctx}")
        # ---- NaiveForecaster: window / seasonal period longer than the series
        for wl in range(max(2, n - 2), n + 4):
            for strat, par, mk in (("mean", "window_length", lambda: NaiveForecaster("mean", window_length=wl)),
                                   ("drift", "window_length", lambda: NaiveForecaster("drift", window_length=wl)),
                                   ("last", "sp", lambda: NaiveForecaster("last", sp=wl)),
                                   ("mean", "sp", lambda: NaiveForecaster("mean", sp=wl, window_length=wl))):
                d = f"NaiveForecaster({strat}, {par}={wl}).fit(y, fh=[1, 2]) {ctx}"
                if wl <= n:
                    must_accept(R, lambda: mk().fit(y, fh=[1, 2]).predict(), d, post=lambda p: None if list(p.index) == steps_after(y, [1, 2]) else f"index {list(p.index)}")
                else:
                    est = mk()
                    must_reject(R, key, lambda: est.fit(y, fh=[1, 2]), d, est=est)
        # ---- reduction: at least one complete (window, target) row is needed: n - (w + max(fh) - 1) >= 1
        for s in ("recursive", "direct", "multioutput", "dirrec"):
            for sc in ("tabular-regressor", "time-series-regressor"):
                for fh in ([1], [2], [1, 3]):
                    span = 1 if s == "recursive" else max(fh)
                    for w in range(max(1, n - span - 2), n + 2):
                        rows = n - (w + span - 1)
                        d = f"make_reduction({s}, {sc}, window_length={w}).fit(y, fh={fh}) {ctx}"
                        if rows >= 1:
                            must_accept(R, lambda: make_reduction(StubReg(), strategy=s, window_length=w, scitype=sc).fit(y, fh=fh), d)
                        else:
                            est = make_reduction(StubReg(), strategy=s, window_length=w, scitype=sc)
                            must_reject(R, key, lambda: est.fit(y, fh=fh), d, est=est)


# -------------------------------------------------------------------------------------------- G. unknown strategy names
def check_strategies(R, rng, tier):
    from sktime.forecasting.compose import MultiplexForecaster, make_reduction
    from sktime.forecasting.model_evaluation import evaluate
    from sktime.forecasting.model_selection import ForecastingGridSearchCV, SlidingWindowSplitter
    from sktime.forecasting.naive import NaiveForecaster
    key = "rejects-unknown-strategy"
    names = ["", "Last", "LAST", "last ", "median", "seasonal", None, 1, "recursive ", "Direct", "refit ", "UPDATE", "dir-rec"]
    for rep in range(1 if tier == "quick" else 4):
        kind, start, n, y = context(rng)
        ctx = f"[{kind} index from {y.index[0]}, n={n}]"
        fh = [1, 2]
        cv = lambda: SlidingWindowSplitter(fh=fh, window_length=3)  # noqa
        for s in ("last", "mean", "drift"):
            must_accept(R, lambda: NaiveForecaster(strategy=s).fit(y, fh=fh).predict(), f"NaiveForecaster(strategy={s!r}).fit(y).predict() {ctx}")
        for s in ("recursive", "direct", "multioutput", "dirrec"):
            for sc in ("infer", "tabular-regressor", "time-series-regressor"):
                must_accept(R, lambda: make_reduction(StubReg(), strategy=s, window_length=3, scitype=sc).fit(y, fh=fh).predict(),
                            f"make_reduction(strategy={s!r}, scitype={sc!r}).fit(y, fh).predict() {ctx}")
        for s in ("refit", "update"):
            must_accept(R, lambda: evaluate(NaiveForecaster(), cv(), y, strategy=s, scoring=MAE()), f"evaluate(naive, cv, y, strategy={s!r}) {ctx}")
            must_accept(R, lambda: ForecastingGridSearchCV(NaiveForecaster(), cv(), {"strategy": ["last", "mean"]}, strategy=s, scoring=MAE()).fit(y),
                        f"ForecastingGridSearchCV(naive, cv, grid, strategy={s!r}).fit(y) {ctx}")
        for s in names:
            est = NaiveForecaster(strategy=s)
            must_reject(R, key, lambda: est.fit(y, fh=fh), f"NaiveForecaster(strategy={s!r}).fit(y, fh={fh}) {ctx}", est=est)
            est = NaiveForecaster().fit(y, fh=fh)
            est.set_params(strategy=s)
            must_reject(R, key, lambda: est.fit(y, fh=fh), f"NaiveForecaster().fit(y); set_params(strategy={s!r}); fit(y) {ctx}")
            must_reject(R, key, lambda: make_reduction(StubReg(), strategy=s, window_length=3), f"make_reduction(stub, strategy={s!r})")
            must_reject(R, key, lambda: make_reduction(StubReg(), strategy=s, window_length=3, scitype="tabular-regressor").fit(y, fh=fh),
                        f"make_reduction(stub, strategy={s!r}, scitype='tabular-regressor').fit(y, fh) {ctx}")
            must_reject(R, key, lambda: make_reduction(StubReg(), strategy="recursive", window_length=3, scitype=s), f"make_reduction(stub, scitype={s!r})")
            must_reject(R, key, lambda: evaluate(NaiveForecaster(), cv(), y, strategy=s, scoring=MAE()), f"evaluate(naive, cv, y, strategy={s!r}) {ctx}")
            est = ForecastingGridSearchCV(NaiveForecaster(), cv(), {"strategy": ["last", "mean"]}, strategy=s, scoring=MAE())
            must_reject(R, key, lambda: est.fit(y), f"ForecastingGridSearchCV(naive, cv, grid, strategy={s!r}).fit(y) {ctx}", est=est)
            # the tuned parameter itself is an unknown strategy name
            if isinstance(s, str):
                est = ForecastingGridSearchCV(NaiveForecaster(), cv(), {"strategy": [s]}, scoring=MAE())
                must_reject(R, key, lambda: est.fit(y), f"ForecastingGridSearchCV(naive, cv, {{'strategy': [{s!r}]}}).fit(y) {ctx}", est=est)
            two = [("a", NaiveForecaster()), ("b", NaiveForecaster("mean"))]
            est = MultiplexForecaster(two, selected_forecaster=s)
            must_reject(R, key, lambda: est.fit(y, fh=fh), f"MultiplexForecaster([a, b], selected_forecaster={s!r}).fit(y, fh) {ctx}", est=est)
        # a regressor whose scitype cannot be inferred
        must_reject(R, key, lambda: make_reduction(object(), strategy="recursive", window_length=3, scitype="infer"), "make_reduction(object(), scitype='infer')")


# ------------------------------------------------------------------------------------------- H. ill-formed composites
def check_composites(R, rng, tier):
    from sktime.forecasting.compose import (EnsembleForecaster, MultiplexForecaster, StackingForecaster,
                                            TransformedTargetForecaster)
    from sktime.forecasting.naive import NaiveForecaster
    from sktime.transformations.series.boxcox import LogTransformer
    key = "rejects-ill-formed-composite"
    N, M = (lambda: NaiveForecaster()), (lambda: NaiveForecaster("mean"))
    for rep in range(2 if tier == "quick" else 6):
        kind, start, n, y = context(rng)
        ctx = f"[{kind} index from {y.index[0]}, n={n}]"
        fh = [1, 2] if rep % 2 == 0 else [rng.randint(1, 2), rng.randint(3, 4)]
        comps = [
            ("EnsembleForecaster", lambda fs: EnsembleForecaster(fs), ["forecasters", "n_jobs", "aggfunc"]),
            ("StackingForecaster", lambda fs: StackingForecaster(fs, final_regressor=StubReg()), ["forecasters", "n_jobs", "final_regressor"]),
            ("MultiplexForecaster", lambda fs: MultiplexForecaster(fs, selected_forecaster=(fs[0][0] if isinstance(fs, list) and fs and isinstance(fs[0], tuple) else "a")),
             ["forecasters", "selected_forecaster"]),
        ]
        for cname, mk, ctor_args in comps:
            must_accept(R, lambda: mk([("a", N()), ("b", M())]).fit(y, fh=fh).predict(), f"{cname}([('a', naive), ('b', naive-mean)]).fit(y, fh).predict() {ctx}",
                        post=lambda p: None if list(p.index) == steps_after(y, fh) else f"index {list(p.index)}")
            must_accept(R, lambda: mk([("only", N())]).fit(y, fh=fh).predict(), f"{cname}([('only', naive)]).fit(y, fh).predict() {ctx}")
            bad = [
                ("forecasters=None", lambda: None),
                ("forecasters=[]", lambda: []),
                ("forecasters=() (empty tuple)", lambda: ()),
                ("forecasters given as a tuple of pairs, not a list", lambda: (("a", N()), ("b", M()))),
                ("forecasters given as a dict", lambda: {"a": N(), "b": M()}),
                ("forecasters is a single forecaster", lambda: N()),
                ("duplicate names ['a', 'a']", lambda: [("a", N()), ("a", M())]),
                ("name containing '__'", lambda: [("a__x", N()), ("b", M())]),
                ("component is a regressor, not a forecaster", lambda: [("a", N()), ("b", StubReg())]),
                ("component is a string", lambda: [("a", N()), ("b", "naive")]),
                ("component is a transformer", lambda: [("a", LogTransformer()), ("b", M())]),
                ("component has fit/predict/update but is not a sktime forecaster", lambda: [("a", N()), ("b", DuckForecaster())]),
                ("all components dropped", lambda: [("a", None), ("b", "drop")]),
                ("list of forecasters without names", lambda: [N(), M()]),
            ] + [(f"name equal to the constructor argument {a!r}", (lambda a=a: [(a, N()), ("b", M())])) for a in ctor_args]
            for label, mkfs in bad:
                box = []

                def run():
                    box.append(mk(mkfs()))
                    return box[0].fit(y, fh=fh)
                must_reject(R, key, run, f"{cname}: {label}; fit(y, fh={fh}) {ctx}")
                if box:
                    R.check("no-fitted-state-after-rejection", not _fitted(box[0]), f"{cname}: {label}: is_fitted after the rejected fit")
            # well-formed, fitted, then made ill-formed through set_params and refitted
            est = mk([("a", N()), ("b", M())]).fit(y, fh=fh)
            est.set_params(forecasters=[("a", N()), ("a", M())])
            must_reject(R, key, lambda: est.fit(y, fh=fh), f"{cname}: fit; set_params(forecasters=<duplicate names>); fit {ctx}")
        for label, reg in (("a forecaster", N()), ("None", None), ("a string", "ridge"), ("a transformer", LogTransformer())):
            est = StackingForecaster([("a", N()), ("b", M())], final_regressor=reg)
            must_reject(R, key, lambda: est.fit(y, fh=fh), f"StackingForecaster(final_regressor={label}).fit(y, fh={fh}) {ctx}", est=est)
        # ---- pipeline
        must_accept(R, lambda: TransformedTargetForecaster([("t", LogTransformer()), ("f", N())]).fit(y, fh=fh).predict(),
                    f"TransformedTargetForecaster([log, naive]).fit(y, fh).predict() {ctx}", post=lambda p: None if list(p.index) == steps_after(y, fh) else f"index {list(p.index)}")
        must_accept(R, lambda: TransformedTargetForecaster([("f", N())]).fit(y, fh=fh).predict(), f"TransformedTargetForecaster([naive]).fit(y, fh).predict() {ctx}")
        badp = [
            ("steps=[]", lambda: []),
            ("steps=None", lambda: None),
            ("last step is a transformer", lambda: [("t", LogTransformer()), ("u", LogTransformer())]),
            ("last step is a regressor", lambda: [("t", LogTransformer()), ("f", StubReg())]),
            ("last step has fit/predict/update but is not a sktime forecaster", lambda: [("t", LogTransformer()), ("f", DuckForecaster())]),
            ("intermediate step has fit_transform/transform but is not a series-to-series transformer", lambda: [("t", DuckTransformer()), ("f", N())]),
            ("forecaster is not the last step", lambda: [("f", N()), ("t", LogTransformer())]),
            ("intermediate step is a forecaster", lambda: [("g", M()), ("f", N())]),
            ("intermediate step is a regressor", lambda: [("r", StubReg()), ("f", N())]),
            ("intermediate step is a string", lambda: [("r", "log"), ("f", N())]),
            ("duplicate names", lambda: [("f", LogTransformer()), ("f", N())]),
            ("name containing '__'", lambda: [("t__1", LogTransformer()), ("f", N())]),
            ("name equal to the constructor argument 'steps'", lambda: [("steps", LogTransformer()), ("f", N())]),
            ("steps without names", lambda: [LogTransformer(), N()]),
        ]
        for label, mks in badp:
            box = []

            def run():
                box.append(TransformedTargetForecaster(mks()))
                return box[0].fit(y, fh=fh)
            must_reject(R, key, run, f"TransformedTargetForecaster: {label}; fit(y, fh={fh}) {ctx}")
            if box:
                R.check("no-fitted-state-after-rejection", not _fitted(box[0]), f"TransformedTargetForecaster: {label}: is_fitted after the rejected fit")


# ------------------------------------------------------------------------------------------------------------ driver
SECTIONS = [("targets", check_targets), ("exog", check_exog), ("horizons", check_horizons), ("fitted-horizon", check_fitted_horizon),
            ("settings", check_settings), ("window-fit", check_window_fit), ("strategies", check_strategies), ("composites", check_composites)]


def bounded(tier, seed):
    rounds = 1 if tier == "quick" else 3
    R = Recorder(
        "every malformation class of the statement x every entry point accepting it, each in a seeded random otherwise-valid context (RangeIndex / Int64 "
        "index / PeriodIndex starting at 1..30, n in 12..20; quick: 1-2 contexts per cell, thorough: 4-8 contexts and 3 rounds). Entry points: fit / predict / "
        "update / update_predict_single / update_predict of NaiveForecaster (5 configurations), the 8 reduction forecasters (stub regressor), Ensemble, "
        "Stacking, Multiplex, TransformedTarget, ForecastingGridSearchCV, ForecastingRandomizedSearchCV; split / get_cutoffs / get_n_splits of the 4 "
        "splitters; evaluate (refit, update); temporal_train_test_split(fh=); ForecastingHorizon(). Classes: 7 malformed targets; 13 X indices differing from y's "
        "(shift, missing first/last/interior point, superset after/before/both, replaced end point, same length+ends but different interior, reversed, empty) "
        "at fit, at update after a valid fit, evaluate, tuning, train/test split; 21 malformed horizons + missing horizon; requested vs fitted horizon: ALL "
        "ordered pairs of distinct non-empty subsets of {1..4} (quick; {1..5} for one class) / {1..5} (thorough; {1..6} for one class) for the 7 "
        "horizon-dependent forecasters through predict, update+predict and update_predict_single, in list/array/ForecastingHorizon/unsorted form; 9 bad "
        "values (0, negatives, floats, str, list, bool) for window_length / step_length / initial_window / sp of every splitter, NaiveForecaster strategy and "
        "reducer, also via set_params+refit, evaluate, update_predict(cv), tuning; window fit: ALL n in (6,7,9) [thorough 5..11,13] x 5 [9] horizons x "
        "every window 1..n+1 x every initial window w+1..n+2, all cutoffs 0..n+1, Naive window/sp n-2..n+3, reducers around the boundary for both scitypes, "
        "through split / evaluate / update_predict / tuning; 13 unknown strategy / scitype / selection names; 17 ill-formed forecaster lists x 3 composites, "
        "4 bad final regressors, 14 ill-formed pipelines, set_params+refit. NOT covered: DatetimeIndex contexts (pandas 2 Timestamps carry no freq: every "
        "forecast fails in the sandbox), statsmodels/pmdarima/PolynomialTrend forecasters, TimeSeriesForest-based and real-sklearn-regressor reduction (shim "
        "limits), checks of X passed to predict, float-valued pd.Index horizons (the shim aliases Int64Index to Index and accepts them), float cutoffs arrays")
    rng = random.Random(1000003 * (seed + 1) + (0 if tier == "quick" else 7))
    with warnings.catch_warnings():
        warnings.simplefilter("ignore")
        for rnd in range(rounds):
            for name, fn in SECTIONS:
                try:
                    fn(R, rng, tier)
                except Exception as e:  # noqa  -- an oracle-side crash must be visible, not silent
                    R.check("oracle-section-completed", False, f"section {name} (round {rnd}) stopped: {type(e).__name__}: {e}")
    return R.result()


# a known finding of the unchanged tree confirms a refuted obligation only if the obligation is about the same function
KF_TARGETS = {
    "KF:window-forecaster-update-predict-does-not-validate-y": ("update_predict",),
    "KF:single-window-get-cutoffs-does-not-validate-y": ("singlewindowsplitter",),
    "KF:single-window-get-n-splits-ignores-settings": ("singlewindowsplitter",),
    "KF:train-test-split-without-X-does-not-validate-y": ("_split_by_fh", "temporal_train_test_split"),
    "KF:get-cutoffs-does-not-validate-window-length": ("get_cutoffs", "get_n_splits"),
    "KF:naive-last-ignores-invalid-window-length": ("naive",),
    "KF:naive-last-sp-equal-one-shortcut-skips-type-check": ("naive",),
    "KF:naive-drift-ignores-invalid-sp": ("naive",),
}


def _concrete_replay(R, m, inp):
    """inputs named by the counterexample model (symbol names of contracts/C20_helpers.py, C01_split.py, C02_fh.py)"""
    from sktime.forecasting.model_selection import SlidingWindowSplitter
    from sktime.forecasting.naive import NaiveForecaster
    rng = random.Random(11)

    def nondecr(a):
        return all(a[i] <= a[i + 1] for i in range(len(a) - 1))
    # ---- a time index (and a second one for X)
    if "len(index)" in m or "index" in m:
        k = min(max(mint(m, "len(index)", 0), 0), 40)
        idx = ints_from_model(m, "index", k)
        y = pd.Series([float(i) + 0.5 for i in range(k)], index=pd.Index(np.array(idx, dtype="int64")))
        X, idx2 = None, None
        if "len(index2)" in m or "index2" in m:
            k2 = min(max(mint(m, "len(index2)", 0), 0), 40)
            idx2 = ints_from_model(m, "index2", k2)
            X = pd.DataFrame({"a": [float(i) for i in range(k2)]}, index=pd.Index(np.array(idx2, dtype="int64")))
        inp["index"], inp["index2"] = idx, idx2
        bad_y = k == 0 or not nondecr(idx)
        bad_X = X is not None and (len(idx2) == 0 or not nondecr(idx2) or idx2 != idx)
        for nm, mk in (("NaiveForecaster", lambda: NaiveForecaster()), ("NaiveForecaster(mean)", lambda: NaiveForecaster("mean"))):
            est = mk()
            d = f"{nm}.fit(y with index {idx}" + (f", X with index {idx2}" if X is not None else "") + ", fh=[1])"
            if bad_y or bad_X:
                key = "rejects-exog-index-mismatch" if not bad_y else ("rejects-empty-index" if k == 0 else "rejects-unsorted-index")
                must_reject(R, key, lambda: est.fit(y, X, fh=[1]), d, est=est)
            else:
                must_accept(R, lambda: est.fit(y, X, fh=[1]), d)
    # ---- a horizon
    if "len(fh)" in m:
        k = min(max(mint(m, "len(fh)", 0), 0), 12)
        fh = ints_from_model(m, "fh", k)
        inp["fh"] = fh
        y = make_y(rng, "range", 4, 30)
        bad = k == 0 or len(set(fh)) != len(fh)
        for form, arg in (("list", lambda: list(fh)), ("np.array", lambda: np.array(fh, dtype=int))):
            est = NaiveForecaster()
            d = f"NaiveForecaster().fit(y, fh={form} {fh})"
            if bad:
                must_reject(R, "rejects-empty-horizon" if k == 0 else "rejects-duplicate-horizon", lambda: est.fit(y, fh=arg()), d, est=est)
            else:
                must_accept(R, lambda: est.fit(y, fh=arg()), d)
    # ---- an integer setting
    for nm in ("window_length", "step_length", "sp", "x"):
        if nm in m and not any(k in m for k in ("n", "n_timepoints", "len(y)")):
            v = mint(m, nm, None)
            if v is None or abs(v) > 200:
                continue
            inp[nm] = v
            y = make_y(rng, "range", 4, max(v, 1) + 8)
            if nm == "step_length":
                call = lambda: list(SlidingWindowSplitter(fh=[1], window_length=2, step_length=v).split(y))  # noqa
                key = "rejects-bad-step-length"
            elif nm == "sp":
                call = lambda: NaiveForecaster("mean", sp=v).fit(y, fh=[1])  # noqa
                key = "rejects-bad-seasonal-period"
            else:
                call = lambda: list(SlidingWindowSplitter(fh=[1], window_length=v).split(y))  # noqa
                key = "rejects-bad-window-length"
            if v < 1:
                must_reject(R, key, call, f"{nm}={v} (series of {len(y)} points)")
            else:
                must_accept(R, call, f"{nm}={v} (series of {len(y)} points)")
    # ---- window against the length of the series
    n = mint(m, "n", 0) or mint(m, "n_timepoints", 0) or mint(m, "len(y)", 0)
    w = mint(m, "window_length", 0) or mint(m, "w", 0)
    iw = mint(m, "initial_window", 0) or mint(m, "iw", 0)
    nf = min(max(mint(m, "len(fh)", 0), 0), 12)
    fh = sorted(set(h for h in ints_from_model(m, "fh", nf) if h >= 1)) if nf else []
    fmax = mint(m, "fh_max", 0) or (max(fh) if fh else 0)
    if 2 <= n <= 400 and fmax >= 1 and (w >= 1 or iw >= 1):
        y = make_y(rng, "range", 3, n)
        f = fh or [fmax]
        ww = w if w >= 1 else 1
        kw = dict(fh=f, window_length=ww)
        if iw >= 1:
            kw["initial_window"] = iw
        inp["window"] = {"n": n, "fh": f, "window_length": ww, "initial_window": iw or None}
        fits = ww + max(f) <= n and (iw < 1 or (iw + max(f) <= n and iw > ww))
        call = lambda: [(a.tolist(), b.tolist()) for a, b in SlidingWindowSplitter(**kw).split(y)]  # noqa
        if fits:
            must_accept(R, call, f"SlidingWindowSplitter({kw}).split(y), n={n}",
                        post=lambda sp: None if all(max(b) < n for a, b in sp) else f"test positions outside the series: {sp[:2]}")
        else:
            must_reject(R, "rejects-window-that-does-not-fit", call, f"SlidingWindowSplitter({kw}).split(y), n={n}")


def replay(rec):
    m = rec.get("model") or {}
    target = str(rec.get("target", ""))
    case = str(rec.get("case", ""))
    text = (target + " " + case + " " + str(rec.get("obligation", ""))).lower()
    R = Recorder("replay")
    rng = random.Random(mint(m, "n", 7) * 31 + len(text))
    inp = {"sections": []}
    pick = []
    if any(k in text for k in ("equal_time_index", "check_y_x", "check_x", "exog")):
        pick.append("exog")
    if any(k in text for k in ("check_time_index", "check_series", "check_y", "univariate", "sorted", "empty")):
        pick.append("targets")
    if any(k in text for k in ("requiredforecastinghorizon", "_set_fh", "different")):
        pick.append("fitted-horizon")
    if any(k in text for k in ("check_fh", "_check_values", "forecastinghorizon", "_fh.py")):
        pick.append("horizons")
    if any(k in text for k in ("window_lengths", "_split", "splitter", "cutoff", "sliding_window_transform", "fit the series")):
        pick.append("window-fit")
    if any(k in text for k in ("check_window_length", "check_step_length", "check_sp", "is_int")):
        pick.append("settings")
    if any(k in text for k in ("strategy", "scitype", "selected_forecaster")):
        pick.append("strategies")
    if any(k in text for k in ("check_forecasters", "check_steps", "check_names", "final_regressor", "_meta", "pipeline")):
        pick.append("composites")
    if "naive" in text:
        pick += ["settings", "window-fit", "targets"]
    if "_reduce" in text or "reduc" in text:
        pick += ["window-fit", "fitted-horizon", "settings"]
    if "evaluate" in text or "_functions" in text or "_tune" in text:
        pick += ["targets", "exog", "strategies"]
    if not pick:
        pick = ["fitted-horizon", "window-fit", "exog"]
    with warnings.catch_warnings():
        warnings.simplefilter("ignore")
        try:
            _concrete_replay(R, m, inp)
        except Exception as e:  # noqa
            inp["concrete_error"] = f"{type(e).__name__}: {e}"
        for name, fn in SECTIONS:
            if name in pick:
                inp["sections"].append(name)
                try:
                    fn(R, rng, "quick")
                except Exception as e:  # noqa
                    R.check("oracle-section-completed", False, f"section {name} stopped: {type(e).__name__}: {e}")
    f = [x for x in R.failures if not x["key"].startswith("KF:") or any(t in text for t in KF_TARGETS.get(x["key"], ()))]
    return {"reproduced": bool(f), "detail": f[:3], "input": inp}
