"""C15 native oracle: panel container conversions on the real code.

A panel is a value cube V[instance, variable, time] plus column names, instance labels and time labels.  Every
representation (nested frame with Series cells NS / array cells NA, 3D array A3, multi-index frame MI, long table L,
2D table as frame T2D / array T2A) is built BY HAND with plain numpy/pandas, every conversion path of length <= 3 is
walked on the real converters, and after every step the result is decoded again BY HAND (cell by cell / row by row)
and compared with the cube that the property statement prescribes.  The nestedness predicates, the check_X coercions
and the panel generators of utils/_testing/panel.py are checked next to it.
"""
import itertools
import random

import numpy as np
import pandas as pd

from .common import Recorder, mint

MAXDEPTH = 3
GIVEN = ["zeta", "alpha", "mid", "beta", "gamma"]          # deliberately not sorted
RESERVED = ("index", "time_index", "value")                 # names from_nested_to_long uses internally

KF_LONG_INST = "KF:long-to-nested-sorts-instances-by-label"
KF_LONG_TIME = "KF:long-to-nested-sorts-timepoints-by-label"
KF_LONG_NAMES = "KF:long-to-nested-default-discards-column-names"
KF_LONG_RESERVED = "KF:nested-to-long-rejects-reserved-column-name"
KF_2D_NUMPY = "KF:2d-to-nested-cells-as-numpy-raises"


# ------------------------------------------------------------------------------------------------ label schemes
def inst_labels(scheme, n):
    if scheme == "range":
        return list(range(n))
    if scheme == "offset":
        return list(range(10, 10 + n))
    if scheme == "descending":
        return list(range(n + 2, 2, -1))
    if scheme == "shuffled":
        base = list(range(3, 3 + n))
        return base[1::2] + base[0::2][::-1] if n > 1 else base          # e.g. n=4: [4, 6, 5, 3]
    if scheme == "strings":
        pool = ["patient_c", "patient_a", "patient_d", "patient_b", "patient_e"]
        return (pool + ["subject_%02d" % (50 - q) for q in range(n)])[:n]
    if scheme == "named":
        return pd.Index(list(range(20 + n, 20, -1)), name="case")
    raise KeyError(scheme)


def time_labels(scheme, t):
    if scheme == "range":
        return list(range(t))
    if scheme == "offset":
        return list(range(3, 3 + t))
    if scheme == "gapped":
        return [k * k + 1 for k in range(t)]
    if scheme == "descending":
        return list(range(t - 1, -1, -1))
    if scheme == "rotated":
        r = list(range(t))
        return r[t // 2:] + r[:t // 2]
    if scheme == "arbitrary":
        return ([5, 2, 9, 1, 7, 3, 8] + list(range(40, 40 - t, -1)))[:t]
    if scheme == "dates":
        return list(pd.date_range("2020-01-30", periods=t, freq="D"))
    if scheme == "dates-reversed":
        return list(pd.date_range("2020-01-30", periods=t, freq="D"))[::-1]
    raise KeyError(scheme)


def col_names(scheme, c):
    if scheme == "default":
        return ["var_%d" % j for j in range(c)]
    if scheme == "unsorted":
        return (["zulu", "alpha", "mike", "bravo", "kilo"] + ["col_%02d" % (30 - q) for q in range(c)])[:c]
    if scheme == "ints":
        return ([7, 2, 5, 0, 3] + list(range(30, 30 - c, -1)))[:c]
    if scheme == "odd":
        return (["b b", "", "Äx", "A", "a__1"] + ["%d%%" % (20 - q) for q in range(c)])[:c]
    if scheme == "var-reversed":
        return ["var_%d" % j for j in range(c - 1, -1, -1)]
    if scheme == "floats":
        return ([1.5, 0.5, 2.25, -1.0] + [10.5 - q for q in range(c)])[:c]
    raise KeyError(scheme)


IL_SCHEMES = ["range", "offset", "descending", "shuffled", "strings", "named"]
TL_SCHEMES = ["range", "offset", "gapped", "descending", "rotated", "arbitrary", "dates", "dates-reversed"]
NM_SCHEMES = ["default", "unsorted", "ints", "odd", "var-reversed", "floats"]
VAL_SCHEMES = ["random", "ints", "dups", "extreme"]


def make_values(scheme, n, c, t, rng):
    if scheme == "random":
        return np.round(rng.uniform(-100, 100, size=(n, c, t)), 4)
    if scheme == "ints":
        return rng.permutation(n * c * t).reshape(n, c, t).astype(np.int64) - 3
    if scheme == "dups":
        return rng.choice([0.0, 1.0, -1.0, 2.5], size=(n, c, t))
    if scheme == "extreme":
        return rng.choice([1e300, -1e300, 1e-300, 0.0, 123456789.125, -7.0], size=(n, c, t)) + rng.permutation(n * c * t).reshape(n, c, t)
    raise KeyError(scheme)


# ------------------------------------------------------------------------------------------------ abstract state
class St:
    """what the statement prescribes for the current representation"""
    __slots__ = ("V", "names", "prov", "il", "tl", "vo")

    def __init__(self, V, names=None, prov="none", il=None, tl=None, vo=None):
        self.V, self.names, self.prov, self.il, self.tl = V, (None if names is None else list(names)), prov, (None if il is None else list(il)), (None if tl is None else list(tl))
        self.vo = vo          # identity of each variable (position in the starting panel); a long table on the way re-orders them

    def but(self, **kw):
        s = St(self.V, self.names, self.prov, self.il, self.tl, self.vo)
        for k, v in kw.items():
            setattr(s, k, v)
        return s


def same_labels(a, b):
    if a is None or b is None:
        return a is b
    a, b = list(a), list(b)
    if len(a) != len(b):
        return False
    for x, y in zip(a, b):
        try:
            if type(x) is bool or type(y) is bool:
                if x is not y and not (x == y and type(x) is type(y)):
                    return False
            elif not (x == y):
                return False
        except Exception:
            return False
    return True


def order_of(labels):
    """positions that sort the labels (python ordering, independent of pandas)"""
    return sorted(range(len(labels)), key=lambda i: labels[i])


def is_ascending(labels):
    return order_of(labels) == list(range(len(labels)))


# ------------------------------------------------------------------------------------------------ hand-made builders
def build_nested(V, names, il, tl, cell):
    n, c, t = V.shape
    o = np.empty((n, c), dtype=object)
    for i in range(n):
        for j in range(c):
            o[i, j] = pd.Series(np.array(V[i, j, :]), index=list(tl)) if cell == "NS" else np.array(V[i, j, :])
    return pd.DataFrame(o, index=il if isinstance(il, pd.Index) else list(il), columns=list(names))


def build_multi_index(V, names, il, tl, level_names, sliced):
    n, c, t = V.shape
    il = list(il)
    labs = list(il)
    Vb = V
    if sliced:
        # a frame that is a selection from a larger panel: unused level values stay behind
        if isinstance(il[0], str):
            extra = ["patient_0", "patient_zz"]
        else:
            extra = [min(il) - 1, max(il) + 5]
        labs = [extra[0]] + sorted(il) + [extra[1]]
        Vb = np.empty((len(labs), c, t), dtype=V.dtype)
        for q, lab in enumerate(labs):
            Vb[q] = V[il.index(lab)] if lab in il else -V[0] - 1000 - q
    tuples = [(lab, tk) for lab in labs for tk in tl]
    rows = np.array([[Vb[q, j, k] for j in range(c)] for q in range(len(labs)) for k in range(t)])
    df = pd.DataFrame(rows, index=pd.MultiIndex.from_tuples(tuples, names=list(level_names)), columns=list(names))
    if sliced:
        df = df.loc[il]
    return df


def build_long(V, names, il, tl, colnames, layout):
    n, c, t = V.shape
    ic, tc, dc = colnames
    recs = []
    if layout == "variable-major":
        it = ((i, j, k) for j in range(c) for i in range(n) for k in range(t))
    else:
        it = ((i, j, k) for i in range(n) for k in range(t) for j in range(c))
    for i, j, k in it:
        recs.append((il[i], tl[k], names[j], V[i, j, k]))
    df = pd.DataFrame({ic: pd.Series([r[0] for r in recs]), tc: pd.Series([r[1] for r in recs]),
                       dc: pd.Series([r[2] for r in recs], dtype=object), "value": pd.Series([r[3] for r in recs])})
    return df


# ------------------------------------------------------------------------------------------------ hand-made decoders
def extract(kind, obj, meta):
    """-> (dict, None) or (None, 'what is malformed')"""
    try:
        if kind in ("NS", "NA"):
            if not isinstance(obj, pd.DataFrame):
                return None, "not a DataFrame but %s" % type(obj).__name__
            n, c = obj.shape
            want = pd.Series if kind == "NS" else np.ndarray
            cells = [[obj.iat[i, j] for j in range(c)] for i in range(n)]
            bad = [(i, j, type(cells[i][j]).__name__) for i in range(n) for j in range(c) if not isinstance(cells[i][j], want)]
            celltype_ok = not bad
            bad2 = [(i, j, type(cells[i][j]).__name__) for i in range(n) for j in range(c) if not isinstance(cells[i][j], (pd.Series, np.ndarray))]
            if bad2:
                return None, "cells that are neither Series nor array: %s" % bad2[:3]
            lens = set(len(cells[i][j]) for i in range(n) for j in range(c))
            if len(lens) != 1:
                return None, "cells of different lengths %s" % sorted(lens)
            t = lens.pop()
            V = np.array([[np.asarray(cells[i][j]) for j in range(c)] for i in range(n)])
            tl = None
            tl_ok = True
            if isinstance(cells[0][0], pd.Series):
                tl = list(cells[0][0].index)
                for i in range(n):
                    for j in range(c):
                        if isinstance(cells[i][j], pd.Series) and not same_labels(list(cells[i][j].index), tl):
                            tl_ok = False
            return {"V": V, "names": list(obj.columns), "il": list(obj.index), "tl": tl, "celltype_ok": celltype_ok,
                    "celltypes": bad[:3], "tl_uniform": tl_ok}, None
        if kind == "A3":
            if not isinstance(obj, np.ndarray) or obj.ndim != 3:
                return None, "not a 3D array: %s %s" % (type(obj).__name__, getattr(obj, "shape", None))
            return {"V": obj, "names": None, "il": None, "tl": None}, None
        if kind == "MI":
            if not isinstance(obj, pd.DataFrame) or obj.index.nlevels != 2:
                return None, "not a 2-level multi-index DataFrame"
            tuples = list(obj.index)
            il, groups = [], []
            for pos, (a, b) in enumerate(tuples):
                if not il or not same_labels([il[-1]], [a]):
                    if any(same_labels([a], [x]) for x in il):
                        return None, "rows of instance %r are not contiguous" % (a,)
                    il.append(a)
                    groups.append([])
                groups[-1].append((b, pos))
            tl = [b for b, _ in groups[0]]
            tl_ok = all(same_labels([b for b, _ in g], tl) for g in groups)
            if len(set(len(g) for g in groups)) != 1:
                return None, "instances with different numbers of time points %s" % [len(g) for g in groups]
            vals = obj.to_numpy()
            n, t, c = len(il), len(tl), obj.shape[1]
            V = np.array([[[vals[groups[i][k][1], j] for k in range(t)] for j in range(c)] for i in range(n)])
            return {"V": V, "names": list(obj.columns), "il": il, "tl": tl, "tl_uniform": tl_ok, "levels": list(obj.index.names)}, None
        if kind == "L":
            ic, tc, dc = meta
            if not isinstance(obj, pd.DataFrame):
                return None, "not a DataFrame"
            miss = [x for x in (ic, tc, dc, "value") if x not in obj.columns]
            if miss or obj.shape[1] != 4:
                return None, "long table columns are %s, expected %s" % (list(obj.columns), [ic, tc, dc, "value"])
            il, tl, dl, cell = [], [], [], {}

            def pos(lst, x):
                for q, y in enumerate(lst):
                    if same_labels([x], [y]):
                        return q
                lst.append(x)
                return len(lst) - 1
            iv, tv, dv, vv = list(obj[ic]), list(obj[tc]), list(obj[dc]), list(obj["value"])
            for r in range(len(obj)):
                key = (pos(il, iv[r]), pos(dl, dv[r]), pos(tl, tv[r]))
                if key in cell:
                    return None, "duplicate record for instance %r variable %r time %r" % (iv[r], dv[r], tv[r])
                cell[key] = vv[r]
            n, c, t = len(il), len(dl), len(tl)
            if len(cell) != n * c * t:
                return None, "%d records for a %dx%dx%d panel" % (len(cell), n, c, t)
            V = np.array([[[cell[(i, j, k)] for k in range(t)] for j in range(c)] for i in range(n)])
            return {"V": V, "names": dl, "il": il, "tl": tl}, None
        if kind in ("T2D", "T2A"):
            if kind == "T2D":
                if not isinstance(obj, pd.DataFrame):
                    return None, "not a DataFrame"
                return {"V": obj.to_numpy()[:, None, :], "names": None, "il": list(obj.index), "tl": None, "collabels": list(obj.columns)}, None
            if not isinstance(obj, np.ndarray) or obj.ndim != 2:
                return None, "not a 2D array: %s" % type(obj).__name__
            return {"V": obj[:, None, :], "names": None, "il": None, "tl": None}, None
    except Exception as e:  # decoding itself failed: the representation is malformed
        return None, "cannot decode: %s: %s" % (type(e).__name__, e)
    return None, "unknown kind"


def as_float(V):
    try:
        return np.asarray(V, dtype=float)
    except Exception:
        return None


def diagnose(Ev, Av):
    """None if equal, else the clause key that names the difference"""
    E, A = as_float(Ev), as_float(Av)
    if E is None:
        return "values-lossless"
    if E.shape != A.shape:
        return "shape-preserved"
    if np.array_equal(E, A):
        return None
    for axis, key in ((0, "instance-order"), (2, "time-order"), (1, "variable-order")):
        a = [np.ascontiguousarray(x).tobytes() for x in np.moveaxis(A, axis, 0)]
        e = [np.ascontiguousarray(x).tobytes() for x in np.moveaxis(E, axis, 0)]
        if sorted(a) == sorted(e):
            return key
    return "values-lossless"


def short(V):
    try:
        return np.asarray(V).tolist()
    except Exception:
        return repr(V)


# ------------------------------------------------------------------------------------------------ the walk
class Node:
    __slots__ = ("kind", "obj", "meta", "A", "E", "depth", "desc", "taint", "variant")

    def __init__(self, kind, obj, meta, A, depth, desc, taint=False, variant="default"):
        self.kind, self.obj, self.meta, self.A, self.depth, self.desc, self.taint, self.variant = kind, obj, meta, A, depth, desc, taint, variant
        self.E = None


def lib():
    import sktime.utils.data_processing as dp
    return dp


def edges(node):
    """(label, kind2, thunk, meta2, A2, special, variant)"""
    dp = lib()
    from sktime.utils.validation.panel import check_X
    k, o, A = node.kind, node.obj, node.A
    out = []
    if k in ("NS", "NA"):
        c = A.V.shape[1]
        tl_carried = A.tl if k == "NS" else None
        out.append(("nested->3d", "A3", lambda: dp.from_nested_to_3d_numpy(o), None, St(A.V), None, "default"))
        out.append(("check_X(coerce_to_numpy)", "A3", lambda: check_X(o, coerce_to_numpy=True), None, St(A.V), "leaf", "check_X"))
        out.append(("nested->multi_index", "MI", lambda: dp.from_nested_to_multi_index(o), None,
                    St(A.V, A.names, A.prov, A.il, tl_carried), None, "default"))
        inst_arg = "case" if (isinstance(o.index, pd.Index) and o.index.name == "case") else "who"
        out.append(("nested->multi_index(instance_index=%r,time_index='when')" % inst_arg, "MI",
                    lambda: dp.from_nested_to_multi_index(o, instance_index=inst_arg, time_index="when"), (inst_arg, "when"),
                    St(A.V, A.names, A.prov, A.il, tl_carried), None, "custom"))
        out.append(("nested->long", "L", lambda: dp.from_nested_to_long(o), ("index", "time_index", "column"),
                    St(A.V, A.names, A.prov, A.il, tl_carried), "to-long", "default"))
        out.append(("nested->long('case_id','reading_id','dim_id')", "L", lambda: dp.from_nested_to_long(o, "case_id", "reading_id", "dim_id"),
                    ("case_id", "reading_id", "dim_id"), St(A.V, A.names, A.prov, A.il, tl_carried), "to-long", "custom"))
        n, c, t = A.V.shape
        flat = St(A.V.reshape(n, 1, c * t), vo=[("flat", tuple(A.vo))])
        out.append(("nested->2d(frame)", "T2D", lambda: dp.from_nested_to_2d_array(o), None, flat.but(il=A.il), None, "default"))
        out.append(("nested->2d(return_numpy)", "T2A", lambda: dp.from_nested_to_2d_array(o, return_numpy=True), None, flat, None, "default"))
    elif k == "A3":
        n, c, t = A.V.shape
        given = GIVEN[:c]
        out.append(("3d->nested", "NS", lambda: dp.from_3d_numpy_to_nested(o), None, St(A.V, None, "gen:3d"), None, "default"))
        out.append(("check_X(coerce_to_pandas)", "NS", lambda: check_X(o, coerce_to_pandas=True), None, St(A.V, None, "gen:3d"), "leaf", "check_X"))
        out.append(("3d->nested(column_names=%s)" % given, "NS", lambda: dp.from_3d_numpy_to_nested(o, column_names=list(given)), None,
                    St(A.V, given, "given"), None, "custom"))
        out.append(("3d->nested(cells_as_numpy)", "NA", lambda: dp.from_3d_numpy_to_nested(o, cells_as_numpy=True), None, St(A.V, None, "gen:3d"), None, "default"))
        out.append(("3d->multi_index", "MI", lambda: dp.from_3d_numpy_to_multi_index(o), None, St(A.V, None, "gen:3d"), None, "default"))
        out.append(("3d->multi_index('who','when',column_names=%s)" % given, "MI",
                    lambda: dp.from_3d_numpy_to_multi_index(o, instance_index="who", time_index="when", column_names=list(given)), ("who", "when"),
                    St(A.V, given, "given"), None, "custom"))
        out.append(("3d->2d", "T2A", lambda: dp.from_3d_numpy_to_2d_array(o), None, St(A.V.reshape(n, 1, c * t), vo=[("flat", tuple(A.vo))]), None, "default"))
    elif k == "MI":
        lev = node.meta if node.meta is not None else tuple(node.E["levels"])
        out.append(("multi_index->nested", "NS", lambda: dp.from_multi_index_to_nested(o, instance_index=lev[0]), None,
                    St(A.V, A.names, A.prov, None, A.tl), None, "default"))
        out.append(("multi_index->nested(cells_as_numpy)", "NA", lambda: dp.from_multi_index_to_nested(o, instance_index=lev[0], cells_as_numpy=True), None,
                    St(A.V, A.names, A.prov, None, None), None, "default"))
        out.append(("multi_index->3d", "A3", lambda: dp.from_multi_index_to_3d_numpy(o, instance_index=lev[0], time_index=lev[1]), None, St(A.V), None, "default"))
    elif k == "L":
        ic, tc, dc = node.meta
        names = list(A.names)
        try:
            perm = order_of(names)
        except TypeError:
            return out
        snames = [names[p] for p in perm]
        Vs = A.V[:, perm, :]
        vos = [A.vo[p] for p in perm]
        info = {"il": A.il, "tl": A.tl}
        out.append(("long->nested", "NS", lambda: dp.from_long_to_nested(o, ic, tc, dc, "value"), None,
                    St(Vs, snames, A.prov, None, A.tl, vos), ("from-long", info, True), "default"))
        out.append(("long->nested(column_names=%s)" % snames, "NS", lambda: dp.from_long_to_nested(o, ic, tc, dc, "value", column_names=list(snames)), None,
                    St(Vs, snames, A.prov, None, A.tl, vos), ("from-long", info, False), "custom"))
    elif k in ("T2D", "T2A"):
        n, _, m = A.V.shape
        out.append(("2d->nested", "NS", lambda: dp.from_2d_array_to_nested(o), None, St(A.V, None, "gen:2d"), None, "default"))
        out.append(("2d->nested(cells_as_numpy)", "NA", lambda: dp.from_2d_array_to_nested(o, cells_as_numpy=True), None, St(A.V, None, "gen:2d"), "2d-as-numpy", "default"))
        idx = ["row_%d" % (n - i) for i in range(n)]
        tix = list(range(m + 4, 4, -1))
        out.append(("2d->nested(index=%s,columns=['tab'],time_index=%s)" % (idx, tix), "NS",
                    lambda: dp.from_2d_array_to_nested(o, index=list(idx), columns=["tab"], time_index=list(tix)), None,
                    St(A.V, ["tab"], "given", idx, tix), None, "custom"))
    for e in out:
        if e[4].vo is None:
            e[4].vo = A.vo          # every converter but long -> nested keeps the variables in place
    return out


def check_node(R, node, root, direct):
    """decode the real object, compare with the prescribed state; returns True if the walk may continue below it"""
    dp = lib()
    kind, A = node.kind, node.A
    E, why = extract(kind, node.obj, node.meta)
    d = node.desc
    R.check("result-is-the-requested-representation", E is not None, "%s: result is not a well-formed %s (%s)" % (d, kind, why))
    if E is None:
        return False
    node.E = E
    Ev, names = E["V"], E["names"]
    ok = True
    # ---- variables of a long table are a set: bring them into the prescribed order before comparing
    if kind == "L" and A.names is not None:
        try:
            perm = []
            for nm in A.names:
                hits = [q for q, x in enumerate(names) if same_labels([x], [nm])]
                perm.append(hits[0])
            if len(names) == len(A.names):
                Ev = Ev[:, perm, :]
                names = [names[p] for p in perm]
        except IndexError:
            pass
    E["Vo"], E["nameso"] = Ev, names          # variables in the prescribed order
    special = node.variant if isinstance(node.variant, tuple) else None
    key = diagnose(Ev, A.V)
    tl_bad = (A.tl is not None and E.get("tl") is not None and not same_labels(E["tl"], A.tl))
    # ---- narrow known-defect handling for long -> nested (pivot sorts the two id columns)
    if special and special[0] == "from-long":
        info, default_names = special[1], special[2]
        il, tl = info["il"], info["tl"]
        try:
            pi = order_of(il) if il is not None else list(range(A.V.shape[0]))
            pt = order_of(tl) if tl is not None else list(range(A.V.shape[2]))
        except TypeError:
            pi, pt = list(range(A.V.shape[0])), list(range(A.V.shape[2]))
        inst_sorted, time_sorted = pi == list(range(len(pi))), pt == list(range(len(pt)))
        if not (inst_sorted and time_sorted):
            Vd = A.V[pi][:, :, pt]
            tld = [tl[q] for q in pt] if tl is not None else None
            defect = (key is not None or tl_bad) and diagnose(Ev, Vd) is None and (tld is None or E.get("tl") is None or same_labels(E["tl"], tld))
            if not inst_sorted:
                R.check(KF_LONG_INST, not (defect and not _same_cube(A.V[pi], A.V)),
                        "%s: instances labelled %s in the long table come back in sorted-label order (rows %s of the original), the nested frame has a fresh RangeIndex so the permutation is silent; got %s expected %s" % (d, il, pi, short(Ev), short(A.V)))
            if not time_sorted:
                R.check(KF_LONG_TIME, not (defect and not _same_cube(A.V[:, :, pt], A.V)),
                        "%s: time points labelled %s in the long table come back sorted by label (positions %s); cell index %s; got %s expected %s" % (d, tl, pt, E.get("tl"), short(Ev), short(A.V)))
            if defect:
                node.A = A = A.but(V=Vd, tl=tld)
                node.taint = True
                key, tl_bad = None, False
        if default_names and A.names is not None and names is not None:
            generated = ["var_%d" % j for j in range(len(A.names))]
            if not same_labels(A.names, generated):
                lost = same_labels(names, generated)
                R.check(KF_LONG_NAMES, not lost, "%s: the long table carries the variable identifiers %s but from_long_to_nested(column_names=None) returns columns %s" % (d, A.names, names))
                if lost:
                    node.A = A = A.but(names=generated, prov="gen:long")
                    node.taint = True
    for k2 in ("shape-preserved", "values-lossless", "instance-order", "time-order", "variable-order"):
        bad = key == k2
        if k2 == "time-order" and tl_bad and key is None:
            R.check(k2, False, "%s: time labels %s, expected %s (values %s)" % (d, E.get("tl"), A.tl, short(Ev)))
            ok = False
            continue
        R.check(k2, not bad, "%s: got %s (shape %s, time labels %s, instance labels %s), expected %s (shape %s)" % (d, short(Ev), np.shape(Ev), E.get("tl"), E.get("il"), short(A.V), A.V.shape))
        ok = ok and not bad
    if E.get("tl_uniform") is False:
        R.check("time-order", False, "%s: cells / instances of the result carry different time indexes" % d)
        ok = False
    # ---- instance labels where both sides carry them
    if A.il is not None and E.get("il") is not None:
        good = same_labels(E["il"], A.il)
        R.check("instance-order", good, "%s: instance labels %s, expected %s" % (d, E["il"], A.il))
        ok = ok and good
    # ---- column names
    if names is not None:
        if A.names is not None:
            good = same_labels(names, A.names)
            R.check("column-names-preserved", good, "%s: column names %s, expected %s" % (d, names, A.names))
            ok = ok and good
        else:
            node.A = A = A.but(names=list(names))        # regenerated names: adopted, compared between paths below
    if A.tl is None and E.get("tl") is not None:
        node.A = A = A.but(tl=list(E["tl"]))
    if A.il is None and E.get("il") is not None:
        node.A = A = A.but(il=list(E["il"]))
    if kind in ("NS", "NA"):
        R.check("cell-container-as-requested", E["celltype_ok"], "%s: expected %s cells, found %s" % (d, "Series" if kind == "NS" else "array", E.get("celltypes")))
    # ---- predicates on the objects met at depth <= 1 (deeper ones are of the same kinds; keeps the walk cheap)
    try:
        if node.depth > 1:
            pass
        elif kind in ("NS", "NA"):
            R.check("is-nested-dataframe-exact", bool(dp.is_nested_dataframe(node.obj)) is True, "%s: is_nested_dataframe is False for a frame of %s cells" % (d, kind))
            flags = list(np.asarray(dp.are_columns_nested(node.obj)).astype(bool))
            R.check("are-columns-nested-exact", flags == [True] * node.obj.shape[1], "%s: are_columns_nested = %s for a frame whose cells are all series" % (d, flags))
        else:
            R.check("is-nested-dataframe-exact", bool(dp.is_nested_dataframe(node.obj)) is False, "%s: is_nested_dataframe is True for a %s" % (d, kind))
            if isinstance(node.obj, pd.DataFrame):
                flags = list(np.asarray(dp.are_columns_nested(node.obj)).astype(bool))
                R.check("are-columns-nested-exact", not any(flags), "%s: are_columns_nested = %s for a flat %s" % (d, flags, kind))
    except Exception as e:
        R.check("predicate-does-not-raise", False, "%s: predicate raised %s: %s" % (d, type(e).__name__, e))
    if not ok:
        return False
    # ---- round trip and path-versus-direct, on the decoded real results
    if node.depth >= 2 and not node.taint:
        same_family = (kind == root.kind) or (kind in ("NS", "NA") and root.kind in ("NS", "NA")) or (kind in ("T2D", "T2A") and root.kind in ("T2D", "T2A"))
        if same_family and root.E is not None:
            perm = _align(node.A.vo, root.A.vo)
            if perm is not None:
                rV, rn = root.E["Vo"], root.E["nameso"]
                carried = node.A.prov == "orig" and rn is not None and names is not None
                kk = _compare_cubes(Ev, names if carried else None, rV, rn if carried else None, perm)
                R.check("round-trip-returns-original", kk is None, "%s: back in the starting representation the panel differs (%s): got %s names %s, started from %s names %s" % (d, kk, short(Ev), names, short(rV), rn))
        dn = direct.get(kind)
        if dn is not None and dn.E is not None:
            perm = _align(node.A.vo, dn.A.vo)
            if perm is not None:
                dV, dnm = dn.E["V"], dn.E["names"]
                if kind == "L":
                    dV, dnm = dn.E["Vo"], dn.E["nameso"]
                comparable_names = names is not None and dnm is not None and node.A.prov == dn.A.prov and node.A.prov != "given" and node.A.prov != "none"
                kk = _compare_cubes(Ev, names if comparable_names else None, dV, dnm if comparable_names else None, perm)
                R.check("path-equals-direct-conversion", kk is None, "%s: differs (%s) from the direct conversion %s: got %s names %s, direct %s names %s" % (d, kk, dn.desc, short(Ev), names, short(dV), dnm))
    return True


def _same_cube(a, b):
    return diagnose(a, b) is None


def _align(vo, other):
    """positions in `other` of the variables of `vo`, or None if the two do not hold the same variables"""
    if vo is None or other is None or len(vo) != len(other) or sorted(map(repr, vo)) != sorted(map(repr, other)):
        return None
    return [other.index(v) for v in vo]


def _compare_cubes(Ev, En, Rv, Rn, perm):
    """compare two decoded panels of the same variables; perm aligns the second with the first"""
    Rv = np.asarray(Rv)
    if Rv.ndim != 3 or Rv.shape[1] != len(perm):
        return "shape-preserved"
    Rv = Rv[:, perm, :]
    if En is not None and Rn is not None:
        if len(Rn) != len(perm) or not same_labels(En, [Rn[p] for p in perm]):
            return "column-names"
    return diagnose(Ev, Rv)


def walk(R, root, maxdepth=MAXDEPTH):
    direct = {}
    if not check_node(R, root, root, direct):
        return

    def expand(node):
        if node.depth >= maxdepth:
            return
        children = []
        for label, kind2, thunk, meta2, A2, special, variant in edges(node):
            desc = node.desc + " -> " + label
            try:
                obj2 = thunk()
            except Exception as e:
                names = node.A.names or []
                if (special == "to-long" and isinstance(e, ValueError) and any(isinstance(x, str) and x in RESERVED for x in names)
                        and ("already exists" in str(e) or "value_name" in str(e))):
                    R.check(KF_LONG_RESERVED, False, "%s: a panel with column names %s cannot be converted: ValueError: %s" % (desc, names, e))
                elif special == "2d-as-numpy" and isinstance(e, TypeError) and "index" in str(e):
                    R.check(KF_2D_NUMPY, False, "%s: from_2d_array_to_nested(X, cells_as_numpy=True) on a %s table raised TypeError: %s (it passes index= to np.array)" % (desc, np.shape(node.obj), e))
                else:
                    R.check("conversion-does-not-raise", False, "%s: raised %s: %s" % (desc, type(e).__name__, e))
                continue
            R.check("conversion-does-not-raise", True, desc)
            child = Node(kind2, obj2, meta2, A2, node.depth + 1, desc, node.taint, special if isinstance(special, tuple) else variant)
            good = check_node(R, child, root, direct)
            # the direct conversions (depth 1) are all known before any longer path is compared with them
            if good and node.depth == 0 and variant == "default" and kind2 not in direct and not child.taint:
                direct[kind2] = child
            if good and special != "leaf":
                children.append(child)
        for child in children:
            expand(child)

    expand(root)


def make_root(kind, V, names, il, tl, opt, tag):
    il_list = list(il)
    if kind in ("NS", "NA"):
        obj = build_nested(V, names, il, tl, kind)
        A = St(V, names, "orig", il_list, tl if kind == "NS" else None, vo=list(range(V.shape[1])))
        return Node(kind, obj, None, A, 0, "%s[%s]" % (kind, tag))
    if kind == "A3":
        return Node(kind, np.array(V), None, St(V, vo=list(range(V.shape[1]))), 0, "A3[%s]" % tag)
    if kind == "MI":
        lev = ("instances", "timepoints") if opt % 2 == 0 else ("subject", "t")
        obj = build_multi_index(V, names, il_list, tl, lev, sliced=bool(opt // 2 % 2))
        return Node(kind, obj, lev, St(V, names, "orig", il_list, tl, vo=list(range(V.shape[1]))), 0, "MI[%s levels=%s%s]" % (tag, lev, " sliced-from-larger" if opt // 2 % 2 else ""))
    if kind == "L":
        cn = ("case_id", "reading_id", "dim_id") if opt % 2 == 0 else ("who", "when", "what")
        layout = "variable-major" if opt // 2 % 2 == 0 else "instance-major"
        obj = build_long(V, names, il_list, tl, cn, layout)
        return Node(kind, obj, cn, St(V, names, "orig", il_list, tl, vo=list(range(V.shape[1]))), 0, "L[%s cols=%s %s]" % (tag, cn, layout))
    if kind in ("T2D", "T2A"):
        n, c, t = V.shape
        V2 = V.reshape(n, 1, c * t)
        if kind == "T2D":
            obj = pd.DataFrame(V2[:, 0, :].copy(), index=il_list)
            return Node(kind, obj, None, St(V2, None, "none", il_list, vo=[0]), 0, "T2D[%s]" % tag)
        return Node(kind, V2[:, 0, :].copy(), None, St(V2, vo=[0]), 0, "T2A[%s]" % tag)
    raise KeyError(kind)


def panel_case(R, kind, n, c, t, ils, tls, nms, vals, opt, seed):
    rng = np.random.RandomState((seed * 7919 + n * 1009 + c * 101 + t * 11 + opt) % (2 ** 31 - 1))
    V = make_values(vals, n, c, t, rng)
    il, tl, names = inst_labels(ils, n), time_labels(tls, t), col_names(nms, c)
    tag = "n=%d c=%d t=%d values=%s%s names=%s inst=%s time=%s" % (n, c, t, vals, short(V), list(names), list(il), [str(x)[:10] for x in tl])
    walk(R, make_root(kind, V, names, il, tl, opt, tag))


# ------------------------------------------------------------------------------------------------ predicates
PRIMS = {"float": lambda i, j: 1.5 * i + j, "nan": lambda i, j: float("nan"), "str": lambda i, j: "s%d%d" % (i, j), "int": lambda i, j: i * 10 + j,
         "none": lambda i, j: None, "bool": lambda i, j: bool((i + j) % 2), "mixed": lambda i, j: [0.5, "x", None, 3][(i + 2 * j) % 4]}


def predicate_cases(R, tier, seed):
    dp = lib()
    from sktime.utils.validation.panel import check_X
    rnd = random.Random(seed + 15)
    shapes = [(1, 1), (1, 2), (2, 1), (2, 2), (3, 1), (1, 3), (2, 3), (3, 2)] + ([(3, 3), (4, 2), (2, 4)] if tier == "thorough" else [])
    prims = ["float", "nan", "str", "mixed"] if tier == "quick" else list(PRIMS)
    for (n, c) in shapes:
        cells = n * c
        if cells <= 6:
            masks = list(itertools.product([False, True], repeat=cells))
        else:
            masks = [tuple(rnd.random() < 0.3 for _ in range(cells)) for _ in range(96)] + [tuple(q == p for q in range(cells)) for p in range(cells)] + [(False,) * cells, (True,) * cells]
        for mask in masks:
            M = np.array(mask, dtype=bool).reshape(n, c)
            for cellkind in ("series", "array", "both"):
                for prim in (prims if cells <= 4 or tier == "thorough" else [prims[(sum(mask) + n) % len(prims)]]):
                    o = np.empty((n, c), dtype=object)
                    for i in range(n):
                        for j in range(c):
                            if M[i, j]:
                                ser = cellkind == "series" or (cellkind == "both" and (i + j) % 2 == 0)
                                o[i, j] = pd.Series([1.0 + i, 2.0 + j, 3.0]) if ser else np.array([1.0 + i, 2.0 + j, 3.0])
                            else:
                                o[i, j] = PRIMS[prim](i, j)
                    X = pd.DataFrame(o, columns=["c%d" % j for j in range(c)], index=list(range(5, 5 + n)))
                    d = "frame %dx%d, series-valued cells at %s (%s), other cells %s" % (n, c, [tuple(map(int, p)) for p in np.argwhere(M)], cellkind, prim)
                    try:
                        got = bool(dp.is_nested_dataframe(X))
                        R.check("is-nested-dataframe-exact", got == bool(M.any()), "%s: is_nested_dataframe = %s, expected %s" % (d, got, bool(M.any())))
                        flags = [bool(x) for x in np.asarray(dp.are_columns_nested(X))]
                        R.check("are-columns-nested-exact", flags == [bool(x) for x in M.any(axis=0)], "%s: are_columns_nested = %s, expected %s" % (d, flags, list(M.any(axis=0))))
                        R.check("predicates-agree", got == any(flags), "%s: is_nested_dataframe = %s but are_columns_nested = %s" % (d, got, flags))
                        # the answer may not depend on the order of the rows
                        if n > 1:
                            Xr = X.iloc[::-1]
                            R.check("is-nested-dataframe-exact", bool(dp.is_nested_dataframe(Xr)) == bool(M.any()), "%s, rows reversed: is_nested_dataframe = %s" % (d, bool(dp.is_nested_dataframe(Xr))))
                    except Exception as e:
                        R.check("predicate-does-not-raise", False, "%s: %s: %s" % (d, type(e).__name__, e))
                        continue
                    try:
                        out = check_X(X)
                        accepted = out is X or isinstance(out, pd.DataFrame)
                    except ValueError:
                        accepted = False
                    except Exception as e:
                        R.check("predicate-does-not-raise", False, "%s: check_X raised %s: %s" % (d, type(e).__name__, e))
                        continue
                    R.check("check-x-accepts-exactly-nested-frames", accepted == bool(M.any()), "%s: check_X %s the frame" % (d, "accepted" if accepted else "rejected"))
    # plain typed frames and non-frames
    flat = [("float frame", pd.DataFrame(np.arange(6.0).reshape(2, 3))), ("int frame", pd.DataFrame(np.arange(6).reshape(3, 2))),
            ("string frame", pd.DataFrame({"a": ["x", "y"], "b": ["u", "v"]})), ("bool frame", pd.DataFrame({"a": [True, False]})),
            ("datetime frame", pd.DataFrame({"a": pd.date_range("2020-01-01", periods=3)}))]
    for name, X in flat:
        try:
            R.check("is-nested-dataframe-exact", bool(dp.is_nested_dataframe(X)) is False, "%s: is_nested_dataframe is True" % name)
            R.check("are-columns-nested-exact", not any(bool(x) for x in dp.are_columns_nested(X)), "%s: are_columns_nested = %s" % (name, list(dp.are_columns_nested(X))))
        except Exception as e:
            R.check("predicate-does-not-raise", False, "%s: %s: %s" % (name, type(e).__name__, e))
    for name, X in [("3D array", np.zeros((2, 1, 3))), ("2D array", np.zeros((2, 3))), ("Series of Series", pd.Series([pd.Series([1.0, 2.0]), pd.Series([1.0, 2.0])])),
                    ("list of Series", [pd.Series([1.0, 2.0])]), ("None", None), ("a single Series", pd.Series([1.0, 2.0]))]:
        try:
            R.check("is-nested-dataframe-exact", bool(dp.is_nested_dataframe(X)) is False, "%s (not a DataFrame): is_nested_dataframe is True" % name)
        except Exception as e:
            R.check("predicate-does-not-raise", False, "%s: %s: %s" % (name, type(e).__name__, e))


# ------------------------------------------------------------------------------------------------ _testing/panel.py
def generator_cases(R, tier, seed):
    from sktime.utils._testing import panel as tp
    shapes = [(1, 1, 2), (2, 1, 3), (3, 2, 4), (4, 3, 2)] + ([(5, 1, 6), (6, 4, 3), (3, 3, 3)] if tier == "thorough" else [])
    for (n, c, t) in shapes:
        for rs in (seed, seed + 1, 42):
            d = "_make_panel_X(n_instances=%d, n_columns=%d, n_timepoints=%d, random_state=%d)" % (n, c, t, rs)
            try:
                Xa = tp._make_panel_X(n_instances=n, n_columns=c, n_timepoints=t, return_numpy=True, random_state=rs)
                Xn = tp._make_panel_X(n_instances=n, n_columns=c, n_timepoints=t, return_numpy=False, random_state=rs)
            except Exception as e:
                R.check("conversion-does-not-raise", False, "%s: %s: %s" % (d, type(e).__name__, e))
                continue
            E, why = extract("NS", Xn, None)
            R.check("generator-numpy-and-nested-agree", isinstance(Xa, np.ndarray) and Xa.shape == (n, c, t) and E is not None and diagnose(E["V"], Xa) is None,
                    "%s: the nested and the numpy panel differ or have the wrong shape (numpy shape %s, nested %s %s)" % (d, getattr(Xa, "shape", None), why, None if E is None else np.shape(E["V"])))
            y = np.arange(n) % 2
            try:
                Xy = tp._make_panel_X(n_columns=c, n_timepoints=t, y=y, return_numpy=True, random_state=rs)
                Xyn = tp._make_panel_X(n_columns=c, n_timepoints=t, y=y, return_numpy=False, random_state=rs)
                E, why = extract("NS", Xyn, None)
                R.check("generator-numpy-and-nested-agree", Xy.shape == (n, c, t) and E is not None and diagnose(E["V"], Xy) is None, "%s with y=%s: nested and numpy panel differ" % (d, y.tolist()))
            except Exception as e:
                R.check("conversion-does-not-raise", False, "%s with y: %s: %s" % (d, type(e).__name__, e))
            if n >= 3:
                for maker, kw in ((tp.make_classification_problem, {"n_classes": 2}), (tp.make_regression_problem, {})):
                    dd = "%s(n_instances=%d, n_columns=%d, n_timepoints=%d, random_state=%d)" % (maker.__name__, n, c, t, rs)
                    try:
                        Xa, ya = maker(n_instances=n, n_columns=c, n_timepoints=t, return_numpy=True, random_state=rs, **kw)
                        Xn, yn = maker(n_instances=n, n_columns=c, n_timepoints=t, return_numpy=False, random_state=rs, **kw)
                    except Exception as e:
                        R.check("conversion-does-not-raise", False, "%s: %s: %s" % (dd, type(e).__name__, e))
                        continue
                    E, why = extract("NS", Xn, None)
                    R.check("generator-numpy-and-nested-agree", isinstance(Xa, np.ndarray) and Xa.shape == (n, c, t) and E is not None and diagnose(E["V"], Xa) is None
                            and len(ya) == n and np.array_equal(np.asarray(ya), np.asarray(yn)), "%s: the nested and the numpy problem differ (%s)" % (dd, why))
        arr = np.arange(t, dtype=float) * 1.5 - 1
        try:
            Xn = tp._make_nested_from_array(arr, n_instances=n, n_columns=c)
            E, why = extract("NS", Xn, None)
            R.check("generator-numpy-and-nested-agree", E is not None and diagnose(E["V"], np.tile(arr, (n, c, 1))) is None, "_make_nested_from_array(%s, %d, %d): cells differ from the array (%s)" % (arr.tolist(), n, c, why))
        except Exception as e:
            R.check("conversion-does-not-raise", False, "_make_nested_from_array: %s: %s" % (type(e).__name__, e))


# ------------------------------------------------------------------------------------------------ reserved names
def reserved_name_cases(R, seed):
    for names in (["index", "b"], ["a", "time_index"], ["value", "a"], ["column", "b"], ["instance", "timepoints"], ["case_id", "dim_id"], ["instances", "X"]):
        rng = np.random.RandomState(seed + 5)
        V = np.round(rng.uniform(-9, 9, size=(2, 2, 3)), 2)
        tag = "n=2 c=2 t=3 values=%s names=%s inst=[0, 1] time=[0, 1, 2]" % (short(V), names)
        walk(R, make_root("NS", V, names, [0, 1], [0, 1, 2], 0, tag), maxdepth=2)


# ------------------------------------------------------------------------------------------------ entry points
ROOT_KINDS = ["NS", "NA", "A3", "MI", "L", "T2D", "T2A"]


def plan(tier, seed):
    """(kind, n, c, t, inst-scheme, time-scheme, name-scheme, value-scheme, opt)"""
    rnd = random.Random(1000 + seed)
    out = []
    # the combinations that matter most are always present, whatever the phase of the rotation
    for kind in ("NS", "NA", "MI", "L"):
        for ils in ("shuffled", "strings", "descending"):
            out.append((kind, 3, 2, 3, ils, "range", "unsorted", "random", 2))
        for tls in ("descending", "rotated", "arbitrary", "dates-reversed"):
            out.append((kind, 2, 2, 4, "range", tls, "ints", "random", 1))
    if tier == "quick":
        shapes = [(n, c, t) for n in (1, 2, 3) for c in (1, 2, 3) for t in (2, 3, 4)]
        fixed, rotating, nrot = ["NS", "MI"], ["NA", "A3", "L", "NS", "L"], 1
        extra = [("T2D", 2, 1, 3), ("T2A", 3, 1, 4), ("T2D", 1, 2, 2), ("T2A", 2, 3, 2)]
        vals = ["random", "ints", "dups"]
    else:
        shapes = [(n, c, t) for n in (1, 2, 3, 4) for c in (1, 2, 3, 4) for t in (2, 3, 4, 5)]
        fixed, rotating, nrot = ["NS", "NS", "MI", "L", "NA"], ["A3", "NS", "MI", "L", "NA", "T2D", "MI", "NS", "T2A", "L", "NS"], 5
        extra = [("NS", 6, 5, 7), ("NA", 5, 2, 9), ("MI", 7, 2, 6), ("L", 5, 5, 5), ("A3", 8, 3, 12)]
        vals = list(VAL_SCHEMES)
    bags = {}

    def draw(kind, dim, pool):
        # balanced pseudo-random choice: every scheme of a dimension is used once per root kind before any is used again
        bag = bags.setdefault((kind, dim), [])
        if not bag:
            bag.extend(pool)
            rnd.shuffle(bag)
        return bag.pop()
    for q, (n, c, t) in enumerate(shapes):
        kinds = fixed + [rotating[(q * nrot + r + seed) % len(rotating)] for r in range(nrot)]
        for kind in kinds:
            out.append((kind, n, c, t, draw(kind, "il", IL_SCHEMES), draw(kind, "tl", TL_SCHEMES), draw(kind, "nm", NM_SCHEMES), draw(kind, "v", vals), rnd.randrange(4)))
    for (kind, n, c, t) in extra:
        for r in range(2):
            out.append((kind, n, c, t, IL_SCHEMES[(3 + r + seed) % len(IL_SCHEMES)], TL_SCHEMES[(3 + 2 * r + seed) % len(TL_SCHEMES)], NM_SCHEMES[(1 + r + seed) % len(NM_SCHEMES)], vals[r % len(vals)], r))
    return out


def bounded(tier, seed):
    R = Recorder("hand-built panels with n_instances 1..3 (thorough 1..4, a few up to 8), n_columns 1..3 (1..4/5), n_timepoints 2..4 (2..5, a few up to 12); "
                 "values random/int/duplicated/extreme; column names default/unsorted strings/ints/floats/odd strings/reversed var_i; instance labels "
                 "range/offset/descending/shuffled/strings/named index; time labels range/offset/gapped/descending/rotated/arbitrary/dates/reversed dates "
                 "(schemes rotated over the shapes, not the full product); start representations nested(Series), nested(array), 3D, multi-index (also sliced "
                 "from a larger frame), long (two record layouts), 2D frame/array; ALL conversion paths of length <= 3 over the 11 converters with default and "
                 "custom options plus the check_X coercions, decoded by hand after every step; predicates on every object met up to depth 1 and on all 0/1 patterns of "
                 "series-valued cells in frames up to 6 cells (sampled above); _testing/panel generators numpy-vs-nested. Not covered: duplicate or "
                 "mixed-type column names / instance labels, unequal-length series, long tables with shuffled record order, 2D->nested for the "
                 "column boundaries (a 2D table is continued as a one-variable panel).")
    for case in plan(tier, seed):
        panel_case(R, *case, seed=seed)
    reserved_name_cases(R, seed)
    predicate_cases(R, tier, seed)
    generator_cases(R, tier, seed)
    return R.result()


def replay(rec):
    m = rec.get("model") or {}
    target, case = str(rec.get("target", "")), str(rec.get("case", ""))
    R = Recorder("replay")

    def pick(keys, default, lo, hi):
        for k in keys:
            if k in m:
                return min(max(mint(m, k, default), lo), hi)
        return default
    n = pick(("n", "n_instances", "N"), 3, 1, 5)
    c = pick(("c", "C", "n_columns"), 2, 1, 4)
    t = pick(("t", "T", "n_timepoints"), 3, 2, 6)
    inp = {"n_instances": n, "n_columns": c, "n_timepoints": t}
    if "nested_dataframe" in target or "columns_nested" in target or "check_X" in target:
        predicate_cases(R, "quick", 0)
    else:
        kinds = ROOT_KINDS
        if "multi_index_to" in target:
            kinds = ["MI", "NS", "NA"]
        elif "long_to" in target:
            kinds = ["L", "NS"]
        elif "nested_to" in target:
            kinds = ["NS", "NA"]
        elif "3d_numpy_to" in target:
            kinds = ["A3", "NS"]
        elif "2d_array_to" in target:
            kinds = ["T2D", "T2A"]
        q = 0
        for kind in kinds:
            for ils, tls, nms in (("range", "range", "default"), ("shuffled", "descending", "unsorted"), ("strings", "rotated", "ints"), ("named", "dates-reversed", "odd")):
                q += 1
                panel_case(R, kind, n, c, t, ils, tls, nms, "random", q, seed=0)
        predicate_cases(R, "quick", 0)
    f = [x for x in R.failures if not x["key"].startswith("KF:")] or R.failures
    return {"reproduced": bool(f), "detail": f[:3], "input": inp}
