"""C06 native oracle: the 18 forecasting metric functions and their class wrappers, run on the real code and
compared with formulas written out here in plain Python (no numpy aggregation, no library code path)."""
import itertools
import math
import random

import numpy as np
import pandas as pd

from .common import Recorder, ints_from_model, mint

EPS = 2.0 ** -52            # float64 machine epsilon, written out independently of the library constant
RTOL = 1e-9


# ------------------------------------------------------------------------------------------------------------
# independent reference: point-wise terms, horizon aggregates (as closed intervals), per-column values
# ------------------------------------------------------------------------------------------------------------
def t_abs(t, p):
    return abs(t - p)


def t_sq(t, p):
    return (t - p) * (t - p)


def t_pct(t, p, symmetric):
    """|percentage error|: symmetric 2|t-p|/(|t|+|p|), otherwise |t-p|/|t|; denominators floored at EPS"""
    if symmetric:
        return 2.0 * abs(t - p) / max(abs(t) + abs(p), EPS)
    return abs(t - p) / max(abs(t), EPS)


def t_rel(t, p, b):
    """|relative error| = |t-p| / |t-b| with the denominator kept away from 0 by EPS"""
    return abs(t - p) / max(abs(t - b), EPS)


def t_asym(t, p, thr, left, right):
    e = t - p
    which = left if e < thr else right
    return e * e if which == "squared" else abs(e)


def a_mean(x, w):
    if w is None:
        v = math.fsum(x) / len(x)
    else:
        v = math.fsum(a * b for a, b in zip(w, x)) / math.fsum(w)
    return (v, v)


def a_median(x, w):
    """unweighted: the textbook median.  weighted: every value v with weight(x<v) <= W/2 and weight(x>v) <= W/2 is a
    weighted median: the interval [lower weighted median, upper weighted median] (weights are dyadic: sums exact)"""
    if w is None:
        s = sorted(x)
        n = len(s)
        v = s[n // 2] if n % 2 else 0.5 * (s[n // 2 - 1] + s[n // 2])
        return (v, v)
    pairs = sorted((xi, wi) for xi, wi in zip(x, w) if wi > 0)
    W = math.fsum(wi for _, wi in pairs)
    lo = hi = None
    c = 0.0
    for xi, wi in pairs:
        c += wi
        if c >= W / 2:
            lo = xi
            break
    c = 0.0
    for xi, wi in reversed(pairs):
        c += wi
        if c >= W / 2:
            hi = xi
            break
    return (lo, hi)


def a_gmean(x, w):
    """(weighted) geometric mean; a zero term is replaced by the machine-epsilon floor"""
    logs = [math.log(EPS if v == 0 else v) for v in x]
    if w is None:
        v = math.exp(math.fsum(logs) / len(logs))
    else:
        v = math.exp(math.fsum(a * b for a, b in zip(w, logs)) / math.fsum(w))
    return (v, v)


def isqrt(iv):
    return (math.sqrt(iv[0]), math.sqrt(iv[1]))


# name -> (family, term kind, aggregator, takes square_root, takes symmetric)
SPECS = {
    "mean_absolute_error": ("absolute-squared", "abs", a_mean, False, False),
    "median_absolute_error": ("absolute-squared", "abs", a_median, False, False),
    "mean_squared_error": ("absolute-squared", "sq", a_mean, True, False),
    "median_squared_error": ("absolute-squared", "sq", a_median, True, False),
    "mean_absolute_percentage_error": ("percentage", "pct", a_mean, False, True),
    "median_absolute_percentage_error": ("percentage", "pct", a_median, False, True),
    "mean_squared_percentage_error": ("percentage", "pct2", a_mean, True, True),
    "median_squared_percentage_error": ("percentage", "pct2", a_median, True, True),
    "mean_asymmetric_error": ("asymmetric", "asym", a_mean, False, False),
    "mean_absolute_scaled_error": ("scaled", "abs", a_mean, False, False),
    "median_absolute_scaled_error": ("scaled", "abs", a_median, False, False),
    "mean_squared_scaled_error": ("scaled", "sq", a_mean, True, False),
    "median_squared_scaled_error": ("scaled", "sq", a_median, True, False),
    "mean_relative_absolute_error": ("relative", "rel", a_mean, False, False),
    "median_relative_absolute_error": ("relative", "rel", a_median, False, False),
    "geometric_mean_relative_absolute_error": ("relative", "rel", a_gmean, False, False),
    "geometric_mean_relative_squared_error": ("relative", "rel2", a_gmean, True, False),
    "relative_loss": ("relative-loss", None, None, False, False),
}
PAIR = [k for k, v in SPECS.items() if v[0] in ("absolute-squared", "percentage", "asymmetric")]
SCALED = [k for k, v in SPECS.items() if v[0] == "scaled"]
RELATIVE = [k for k, v in SPECS.items() if v[0] == "relative"]
INNER_LOSSES = ["mean_absolute_error", "mean_squared_error", "median_absolute_error", "median_squared_error",
                "mean_absolute_percentage_error"]
CLASS_OF = {
    "mean_absolute_scaled_error": "MeanAbsoluteScaledError", "median_absolute_scaled_error": "MedianAbsoluteScaledError",
    "mean_squared_scaled_error": "MeanSquaredScaledError", "median_squared_scaled_error": "MedianSquaredScaledError",
    "mean_absolute_error": "MeanAbsoluteError", "mean_squared_error": "MeanSquaredError",
    "median_absolute_error": "MedianAbsoluteError", "median_squared_error": "MedianSquaredError",
    "mean_absolute_percentage_error": "MeanAbsolutePercentageError",
    "median_absolute_percentage_error": "MedianAbsolutePercentageError",
    "mean_squared_percentage_error": "MeanSquaredPercentageError",
    "median_squared_percentage_error": "MedianSquaredPercentageError",
    "mean_relative_absolute_error": "MeanRelativeAbsoluteError", "median_relative_absolute_error": "MedianRelativeAbsoluteError",
    "geometric_mean_relative_absolute_error": "GeometricMeanRelativeAbsoluteError",
    "geometric_mean_relative_squared_error": "GeometricMeanRelativeSquaredError",
    "mean_asymmetric_error": "MeanAsymmetricError", "relative_loss": "RelativeLoss",
}


def terms(kind, t, p, x, opts, swap_roles=False):
    if kind == "abs":
        return [t_abs(a, b) for a, b in zip(t, p)]
    if kind == "sq":
        return [t_sq(a, b) for a, b in zip(t, p)]
    if kind in ("pct", "pct2"):
        sym = opts.get("symmetric", True)
        v = [t_pct(b, a, sym) if swap_roles else t_pct(a, b, sym) for a, b in zip(t, p)]
        return [u * u for u in v] if kind == "pct2" else v
    if kind in ("rel", "rel2"):
        v = [t_rel(a, b, c) for a, b, c in zip(t, p, x)]
        return [u * u for u in v] if kind == "rel2" else v
    if kind == "asym":
        return [t_asym(a, b, opts.get("asymmetric_threshold", 0.0), opts.get("left_error_function", "squared"),
                       opts.get("right_error_function", "absolute")) for a, b in zip(t, p)]
    raise KeyError(kind)


def column(name, t, p, x, opts, w, swap_roles=False):
    """per output column: dict(val=interval after square root, raw=interval before, num, den for ratio metrics)"""
    fam, kind, agg, has_sqrt, _ = SPECS[name]
    root = bool(opts.get("square_root", False)) and has_sqrt
    if fam == "scaled":
        sp = opts.get("sp", 1)
        num = agg(terms(kind, t, p, None, opts), w)
        naive = [(x[i + sp] - x[i]) for i in range(len(x) - sp)]
        den = agg([abs(e) if kind == "abs" else e * e for e in naive], None)[0]
        raw = (num[0] / max(den, EPS), num[1] / max(den, EPS))
        return {"raw": raw, "val": isqrt(raw) if root else raw, "num": num, "den": (den, den), "root": root}
    if fam == "relative-loss":
        inner = opts["relative_loss_function"]
        a = column(inner, t, p, None, {}, w)["val"]
        b = column(inner, t, x, None, {}, w)["val"]
        raw = (a[0] / max(b[1], EPS), a[1] / max(b[0], EPS))
        return {"raw": raw, "val": raw, "num": a, "den": b, "root": False}
    raw = agg(terms(kind, t, p, x, opts, swap_roles), w)
    return {"raw": raw, "val": isqrt(raw) if root else raw, "root": root}


def iavg(ivs, mw):
    if mw is None:
        mw = [1.0] * len(ivs)
    s = math.fsum(mw)
    return (math.fsum(m * iv[0] for m, iv in zip(mw, ivs)) / s, math.fsum(m * iv[1] for m, iv in zip(mw, ivs)) / s)


def expected(name, T, P, X, opts, w, mo, swap_roles=False):
    """list of acceptable answers; an answer is a list of intervals (one per returned number).
    raw_values: exactly the per-column values.  Aggregated multi-output: the (weighted) average of the per-column values;
    where the documentation is ambiguous both readings are accepted (ratio metrics: average of the per-column ratios or
    ratio of the averaged losses as in the docstring examples; sklearn's RMSE: mean of roots or root of the mean)."""
    fam = SPECS[name][0]
    cols = [column(name, T[j], P[j], X[j] if X is not None else None, opts, w, swap_roles) for j in range(len(T))]
    if mo == "raw_values":
        return [[c["val"] for c in cols]]
    mw = None if mo == "uniform_average" else [float(v) for v in mo]
    out = [[iavg([c["val"] for c in cols], mw)]]
    if len(cols) > 1:
        if fam in ("scaled", "relative-loss"):
            n, d = iavg([c["num"] for c in cols], mw), iavg([c["den"] for c in cols], mw)
            r = (n[0] / max(d[1], EPS), n[1] / max(d[0], EPS))
            out.append([isqrt(r) if cols[0]["root"] else r])
        if cols[0]["root"]:
            out.append([isqrt(iavg([c["raw"] for c in cols], mw))])
    return out


def close(v, iv):
    lo, hi = iv
    tol = RTOL * max(abs(lo), abs(hi)) + 1e-12
    return bool(np.isfinite(v)) and lo - tol <= v <= hi + tol


def matches(got, answers, want_scalar):
    if want_scalar and np.ndim(got) != 0:
        return False
    g = np.atleast_1d(np.asarray(got, dtype=float))
    if g.ndim != 1:
        return False
    for ans in answers:
        if len(ans) == len(g) and all(close(float(v), iv) for v, iv in zip(g, ans)):
            return True
    return False


def show(answers):
    return " or ".join("[" + ", ".join(("%.12g" % iv[0]) if iv[0] == iv[1] else ("%.12g..%.12g" % iv) for iv in a) + "]" for a in answers)


# ------------------------------------------------------------------------------------------------------------
# running the real code
# ------------------------------------------------------------------------------------------------------------
def lib():
    import sktime.performance_metrics.forecasting as F
    return F


def box(cols, kind, start=0):
    """columns (lists of floats) -> the container handed to the library"""
    if cols is None:
        return None
    a = np.array(cols, dtype=float).T            # (h, ncols)
    if kind == "list":
        return [float(v) for v in a[:, 0]] if a.shape[1] == 1 else [[float(v) for v in r] for r in a]
    if kind == "pandas":
        idx = pd.RangeIndex(start, start + a.shape[0])
        return pd.Series(a[:, 0], index=idx) if a.shape[1] == 1 else pd.DataFrame(a, index=idx, columns=["c%d" % j for j in range(a.shape[1])])
    return a[:, 0].copy() if a.shape[1] == 1 else a.copy()


def call_fn(name, T, P, X, opts, w, mo, kind="array", start=0):
    F = lib()
    fn = getattr(F, name)
    fam = SPECS[name][0]
    kw = {k: v for k, v in opts.items() if k != "relative_loss_function"}
    if fam == "relative-loss":
        kw["relative_loss_function"] = getattr(F, opts["relative_loss_function"])
    if w is not None:
        kw["horizon_weight"] = list(w) if kind != "array" else np.array(w, dtype=float)
    if mo != "uniform_average":
        kw["multioutput"] = mo
    h = len(T[0])
    yt, yp = box(T, kind, start + 50), box(P, kind, start + 50)
    if fam == "scaled":
        xt = box(X, "array" if kind == "list" else kind, start)      # y_train must be ndarray / pandas (documented)
        return fn(yt, yp, xt, **kw)
    if fam in ("relative", "relative-loss"):
        return fn(yt, yp, box(X, kind, start + 50), **kw)
    return fn(yt, yp, **kw)


def kf_gm_broadcast(name, T, P, X, opts, w, mo):
    """classifier only (never an expectation): the value produced when the (h,) weights are multiplied onto the (h, c)
    log-terms without adding the output axis, as _weighted_geometric_mean does on the unchanged tree"""
    kind = SPECS[name][1]
    x = np.array([terms(kind, T[j], P[j], X[j], opts) for j in range(len(T))], dtype=float).T
    x = np.where(x == 0.0, EPS, x)
    out = np.exp(np.sum(np.asarray(w, dtype=float) * np.log(x), axis=0) / np.sum(w))
    if opts.get("square_root") and SPECS[name][3]:
        out = np.sqrt(out)
    if mo == "raw_values":
        return out
    return np.average(out, weights=None if mo == "uniform_average" else mo)


def gm_defect(name, T, P, X, opts, w, mo, got=None, raised=False):
    """True iff the observed outcome (value `got`, or an exception) is exactly that of the mis-aligned weights"""
    try:
        bug = kf_gm_broadcast(name, T, P, X, opts, w, mo)
    except Exception:
        return raised
    if raised:
        return False
    return np.shape(bug) == np.shape(got) and bool(np.allclose(np.asarray(got, dtype=float), bug, rtol=1e-9, atol=0))


def check_fn(R, name, T, P, X, opts, w, mo, kind="array", start=0, tag=""):
    """one call of a metric function: formula (+ the laws that can be read off a single value)"""
    fam, _, agg, _, has_sym = SPECS[name]
    multi = len(T) > 1 or mo != "uniform_average"
    desc = (f"{tag}{name}(y_true={_fmt(T)}, y_pred={_fmt(P)}" + (f", {'y_train' if fam == 'scaled' else 'y_pred_benchmark'}={_fmt(X)}" if X is not None else "")
            + f", opts={opts}, horizon_weight={w}, multioutput={mo!r}, container={kind})")
    key = ("multioutput-" if multi else ("horizon-weight-" if w is not None else "formula-")) + fam
    answers = expected(name, T, P, X, opts, w, mo)
    gm_weighted = agg is a_gmean and w is not None
    try:
        got = call_fn(name, T, P, X, opts, w, mo, kind, start)
    except Exception as e:
        if gm_weighted:
            if gm_defect(name, T, P, X, opts, w, mo, raised=True):
                R.check("KF:weighted-geometric-mean-weights-not-aligned-with-horizon-axis", False, f"{desc}: raised {type(e).__name__}: {e}; expected {show(answers)}")
                return None
        R.check("runs-on-valid-input", False, f"{desc}: raised {type(e).__name__}: {e}")
        return None
    R.check("runs-on-valid-input", True, desc)
    ok = matches(got, answers, mo != "raw_values")
    if not ok:
        if gm_weighted:
            if gm_defect(name, T, P, X, opts, w, mo, got=got):
                R.check("KF:weighted-geometric-mean-weights-not-aligned-with-horizon-axis", False, f"{desc}: returned {got!r}, weighted geometric mean of the relative errors is {show(answers)}")
                return got
        if name == "median_absolute_percentage_error" and w is not None and not opts.get("symmetric", True):
            if matches(got, expected(name, T, P, X, opts, w, mo, swap_roles=True), mo != "raw_values"):
                R.check("KF:weighted-mdape-asymmetric-divides-by-forecast", False, f"{desc}: returned {got!r} = weighted median of |t-p|/|p|; definition |t-p|/|t| gives {show(answers)}")
                return got
    R.check(key, ok, f"{desc}: returned {got!r}, definition gives {show(answers)}")
    g = np.atleast_1d(np.asarray(got, dtype=float))
    R.check("non-negative", bool(np.all(g >= 0)), f"{desc}: returned {got!r}")
    if has_sym and opts.get("symmetric", True):
        top = 4.0 if (SPECS[name][1] == "pct2" and not opts.get("square_root")) else 2.0
        R.check("symmetric-percentage-within-0-2", bool(np.all(g >= 0) and np.all(g <= top * (1 + 1e-12))), f"{desc}: returned {got!r}, bound {top}")
    return got


def _fmt(cols):
    if cols is None:
        return None
    return cols[0] if len(cols) == 1 else [list(r) for r in zip(*cols)]


def option_grid(name):
    fam, _, _, has_sqrt, has_sym = SPECS[name]
    if fam == "asymmetric":
        out = []
        for thr in (0.0, 0.5, -1.0):
            for left in ("squared", "absolute"):
                for right in ("absolute", "squared"):
                    out.append({"asymmetric_threshold": thr, "left_error_function": left, "right_error_function": right})
        return out
    if fam == "relative-loss":
        return [{"relative_loss_function": f} for f in INNER_LOSSES]
    out = [{}]
    if has_sym:
        out = [dict(o, symmetric=s) for o in out for s in (True, False)]
    if has_sqrt:
        out = [dict(o, square_root=s) for o in out for s in (False, True)]
    return out


def weight_sets(h):
    """horizon weights with exact binary representations: uniform, doubling, decreasing, fractional, one zero"""
    out = [[1.0] * h, [float(2 ** i) for i in range(h)], [float(h - i) for i in range(h)], [0.5] + [0.25] * (h - 1)]
    if h >= 2:
        out.append([0.0] + [float(i + 1) for i in range(h - 1)])
    return out


# ------------------------------------------------------------------------------------------------------------
# laws
# ------------------------------------------------------------------------------------------------------------
def check_perfect(R, name, T, X, opts, w, mo, kind="array"):
    fam, _, agg, _, _ = SPECS[name]
    desc = f"{name}(y_true=y_pred={_fmt(T)}, other={_fmt(X)}, opts={opts}, horizon_weight={w}, multioutput={mo!r})"
    P = [list(c) for c in T]
    try:
        got = call_fn(name, T, P, X, opts, w, mo, kind)
    except Exception as e:
        if agg is a_gmean and w is not None and gm_defect(name, T, P, X, opts, w, mo, raised=True):
            R.check("KF:weighted-geometric-mean-weights-not-aligned-with-horizon-axis", False, f"{desc}: raised {type(e).__name__}: {e}")
        else:
            R.check("runs-on-valid-input", False, f"{desc}: raised {type(e).__name__}: {e}")
        return
    g = np.atleast_1d(np.asarray(got, dtype=float))
    if agg is a_gmean:
        floor = math.sqrt(EPS) if opts.get("square_root") else EPS
        ok = bool(np.all(np.abs(g - floor) <= 1e-9 * floor))
        if not ok and w is not None and gm_defect(name, T, P, X, opts, w, mo, got=got):
            R.check("KF:weighted-geometric-mean-weights-not-aligned-with-horizon-axis", False, f"{desc}: returned {got!r}, floor is {floor!r}")
            return
        R.check("perfect-forecast-geometric-floor", ok, f"{desc}: returned {got!r}, documented floor {floor!r}")
    else:
        R.check("perfect-forecast-zero", bool(np.all(g == 0.0)), f"{desc}: returned {got!r}")


def check_swap(R, name, T, P, opts, w, mo):
    desc = f"{name}(a={_fmt(T)}, b={_fmt(P)}, opts={opts}, horizon_weight={w}, multioutput={mo!r})"
    try:
        a = call_fn(name, T, P, None, opts, w, mo)
        b = call_fn(name, P, T, None, opts, w, mo)
    except Exception as e:
        R.check("runs-on-valid-input", False, f"{desc}: raised {type(e).__name__}: {e}")
        return
    R.check("symmetric-percentage-swap-invariant", np.shape(a) == np.shape(b) and np.allclose(a, b, rtol=1e-12, atol=0),
            f"{desc}: metric(a,b)={a!r} metric(b,a)={b!r}")


def clamp_free(name, T, P, X, opts, w=None):
    """no EPS floor is active (the hypothesis under which ratio metrics are scale invariant)"""
    fam, kind = SPECS[name][0], SPECS[name][1]
    for j in range(len(T)):
        if fam == "scaled":
            c = column(name, T[j], P[j], X[j], opts, None)
            if c["den"][0] < 1e-3:
                return False
        elif fam == "relative":
            if any(abs(a - b) < 1e-3 for a, b in zip(T[j], X[j])):
                return False
            if any(a == b for a, b in zip(T[j], P[j])):
                return False           # zero term -> geometric floor
        elif fam == "relative-loss":
            c = column(name, T[j], P[j], X[j], opts, w)
            if c["den"][0] < 1e-3 or (opts["relative_loss_function"].endswith("percentage_error") and any(a == 0 and b == 0 for a, b in zip(T[j], X[j]))):
                return False
    return True


def check_scale(R, name, T, P, X, opts, w, mo, c):
    fam = SPECS[name][0]
    if not clamp_free(name, T, P, X, opts, w):
        return
    if SPECS[name][2] is a_gmean and w is not None:
        return                  # KF region: reported by the formula checks
    sc = lambda cols: [[c * v for v in col] for col in cols]
    desc = f"{name}(y_true={_fmt(T)}, y_pred={_fmt(P)}, other={_fmt(X)}, opts={opts}, horizon_weight={w}, multioutput={mo!r}) vs all series * {c}"
    try:
        a = call_fn(name, T, P, X, opts, w, mo)
        b = call_fn(name, sc(T), sc(P), sc(X), opts, w, mo)
    except Exception as e:
        R.check("runs-on-valid-input", False, f"{desc}: raised {type(e).__name__}: {e}")
        return
    key = "scaled-error-scale-invariant" if fam == "scaled" else "relative-error-scale-invariant"
    R.check(key, np.shape(a) == np.shape(b) and np.allclose(a, b, rtol=1e-9, atol=1e-12), f"{desc}: {a!r} vs {b!r}")


# ------------------------------------------------------------------------------------------------------------
# class wrappers
# ------------------------------------------------------------------------------------------------------------
def same(a, b):
    return np.shape(a) == np.shape(b) and bool(np.array_equal(np.asarray(a, dtype=float), np.asarray(b, dtype=float)))


def class_opts(F, name, opts):
    kw = dict(opts)
    if "relative_loss_function" in kw:
        kw["relative_loss_function"] = getattr(F, kw["relative_loss_function"])
    return kw


def check_class(R, name, T, P, X, opts, other_opts, kind="array"):
    """the class configured with `opts` (directly, via set_params, via attribute assignment, via clone) must return
    what the function returns with `opts`, on every call"""
    from sklearn.base import clone
    F = lib()
    cls = getattr(F, CLASS_OF[name])
    fam = SPECS[name][0]
    desc = f"{CLASS_OF[name]} opts={opts} y_true={_fmt(T)} y_pred={_fmt(P)}" + (f" other={_fmt(X)}" if X is not None else "") + f" container={kind}"
    yt, yp = box(T, kind, 50), box(P, kind, 50)
    answers = expected(name, T, P, X, opts, None, "uniform_average")
    try:
        want = call_fn(name, T, P, X, opts, None, "uniform_average", kind)
    except Exception as e:
        R.check("runs-on-valid-input", False, f"{desc}: function raised {type(e).__name__}: {e}")
        return
    kw = class_opts(F, name, opts)
    okw = class_opts(F, name, other_opts) if other_opts is not None else None

    def build(mode):
        if mode == "init":
            return cls(**kw)
        if mode == "set_params":
            return cls(**okw).set_params(**kw)
        if mode == "setattr":
            m = cls(**okw)
            for k, v in kw.items():
                setattr(m, k, v)
            return m
        if mode == "clone":
            return clone(cls(**kw))
        if mode == "clone-after-set_params":
            return clone(cls(**okw).set_params(**kw))
        raise KeyError(mode)

    modes = ["init", "clone"] + (["set_params", "setattr", "clone-after-set_params"] if okw is not None and kw else [])
    for mode in modes:
        d = f"{desc} configured by {mode}" + (f" (constructed with {other_opts})" if mode not in ("init", "clone") else "")
        try:
            m = build(mode)
        except Exception as e:
            R.check("class-constructs", False, f"{d}: raised {type(e).__name__}: {e}")
            continue
        extra = None
        if fam == "scaled":
            extra = {"y_train": box(X, "array" if kind == "list" else kind, 0)}
        elif fam in ("relative", "relative-loss"):
            extra = {"y_pred_benchmark": box(X, kind, 50)}
        got = None
        try:
            if extra is not None:
                try:
                    got = m(yt, yp, **extra)
                except TypeError as e:
                    if "unexpected keyword" not in str(e):
                        raise
                    got = m(yt, yp)
            else:
                got = m(yt, yp)
        except Exception as e:
            msg = f"{d}: raised {type(e).__name__}: {e}; the function returns {want!r}"
            if fam == "scaled" and isinstance(e, TypeError) and "missing" in str(e) and "y_train" in str(e):
                R.check("KF:scaled-error-classes-cannot-receive-y_train", False, msg)
            elif fam == "relative" and isinstance(e, TypeError) and "missing" in str(e) and "y_pred_benchmark" in str(e):
                R.check("KF:relative-error-classes-cannot-receive-benchmark", False, msg)
            elif fam == "relative-loss" and isinstance(e, AttributeError) and "_relative_func" in str(e):
                R.check("KF:relative-loss-class-reads-undefined-attribute", False, msg)
            else:
                R.check("class-equals-function", False, msg)
            continue
        R.check("class-equals-function", same(got, want) and matches(got, answers, True),
                f"{d}: class returned {got!r}, function with the same options returns {want!r}, definition {show(answers)}")
        # repeated use: another input in between must not change the answer
        try:
            m(yp, yt) if extra is None else None
            again = m(yt, yp) if extra is None else got
            R.check("class-call-repeatable", same(again, got), f"{d}: second call returned {again!r}, first {got!r}")
        except Exception as e:
            R.check("class-call-repeatable", False, f"{d}: second call raised {type(e).__name__}: {e}")


def check_scorer(R, name, T, P, kind):
    F = lib()
    desc = f"make_forecasting_scorer({name}) y_true={_fmt(T)} y_pred={_fmt(P)}"
    try:
        m = F.make_forecasting_scorer(getattr(F, name), name="x")
        got = m(box(T, kind, 50), box(P, kind, 50))
        want = call_fn(name, T, P, None, {}, None, "uniform_average", kind)
    except Exception as e:
        R.check("class-equals-function", False, f"{desc}: raised {type(e).__name__}: {e}")
        return
    R.check("class-equals-function", same(got, want), f"{desc}: scorer returned {got!r}, function {want!r}")


# ------------------------------------------------------------------------------------------------------------
# input generation
# ------------------------------------------------------------------------------------------------------------
GRID = [-3.0, -2.0, -1.0, -0.5, -0.25, 0.0, 0.25, 0.5, 1.0, 2.0, 3.0]


def rand_col(rng, h, mode):
    if mode == "const":
        return [rng.choice(GRID)] * h
    if mode == "zeros":
        return [0.0] * h
    if mode == "positive":
        return [abs(rng.choice(GRID)) + 0.25 for _ in range(h)]
    if mode == "season":
        s = [rng.choice(GRID) for _ in range(3)]
        return [0.5 * i + s[i % 3] for i in range(h)]
    return [rng.choice(GRID) for _ in range(h)]


def rand_pred(rng, t, mode):
    if mode == "opposite":
        return [-v * rng.choice([1.0, 0.5, 2.0]) for v in t]
    if mode == "partly-perfect":
        return [v if rng.random() < 0.5 else rng.choice(GRID) for v in t]
    if mode == "near":
        return [v + rng.choice([-0.5, -0.25, 0.25, 0.5, 1.0]) for v in t]
    return [rng.choice(GRID) for _ in t]


def random_case(rng, hmax, ntrain_max):
    h = rng.randint(1, hmax)
    nc = rng.choice([1, 1, 2, 3])
    T = [rand_col(rng, h, rng.choice(["any", "any", "const", "zeros", "positive", "season"])) for _ in range(nc)]
    P = [rand_pred(rng, t, rng.choice(["any", "opposite", "partly-perfect", "near"])) for t in T]
    B = [rand_pred(rng, t, rng.choice(["any", "opposite", "partly-perfect", "near", "near"])) for t in T]
    nt = rng.randint(2, ntrain_max)
    tm = rng.choice(["any", "any", "season", "positive", "const", "zeros"])
    X = [rand_col(rng, nt, tm) for _ in range(nc)]
    w = rng.choice([None] + weight_sets(h))
    if nc == 1:
        mo = rng.choice(["uniform_average", "uniform_average", "raw_values"])
    else:
        mo = rng.choice(["uniform_average", "raw_values", [0.25, 0.75, 0.5][:nc], [1.0, 0.0, 3.0][:nc]])
    kind = rng.choice(["array", "array", "list", "pandas"])
    return T, P, B, X, w, mo, kind, rng.choice([0, 3, 17])


def all_metric_calls(R, rng, T, P, B, X, w, mo, kind, start, tag=""):
    for name in SPECS:
        fam = SPECS[name][0]
        grid = option_grid(name)
        opts = dict(rng.choice(grid))
        other = B if fam in ("relative", "relative-loss") else (X if fam == "scaled" else None)
        if fam == "scaled":
            nt = len(X[0])
            opts["sp"] = rng.randint(1, min(nt - 1, 5))
        check_fn(R, name, T, P, other, opts, w, mo, kind, start, tag)
        if rng.random() < 0.3:
            check_perfect(R, name, T, other, opts, w, mo, kind)
        if fam in ("scaled", "relative", "relative-loss") and rng.random() < 0.5:
            check_scale(R, name, T, P, other, opts, w, mo, rng.choice([0.5, 4.0, 3.0, 1e-3, 1e4, 0.1]))
        if SPECS[name][4] and opts.get("symmetric", True) and rng.random() < 0.5:
            check_swap(R, name, T, P, opts, w, mo)


TRAINS = [
    [1.0, 3.0], [2.0, 2.0, 2.0, 2.0], [0.0, 0.0, 0.0], [1.0, -1.0, 2.0], [1.0, 4.0, 2.0, 6.0, 3.0],
    [0.0, 1.0, 0.0, 3.0, -2.0, 5.0], [5.0, 0.5, 4.0, 6.0, 3.0, 5.0, 2.0], [1.0, 2.0, 4.0, 8.0, 16.0, 32.0, 64.0, 128.0],
    [3.0, 1.0, 4.0, 1.0, 5.0, 9.0, 2.0, 6.0, 5.0, 3.0, 5.0],
]


def bounded(tier, seed):
    quick = tier == "quick"
    V3, V4 = (-1.0, 0.0, 2.0), (-1.0, 0.0, 0.5, 2.0)
    nrand = 120 if quick else 900
    R = Recorder(
        "all 18 metric functions x all option combinations (symmetric, square_root, 12 asymmetric configurations, 5 inner losses of relative_loss): "
        f"univariate exhaustive over values {V3 if quick else V4} for horizon lengths 1..3{'' if quick else f' and {V3} for length 4 (5000 sampled pairs)'}, without weights and with "
        "one of 5 weight vectors (uniform/doubling/decreasing/fractional/with a zero); relative metrics exhaustive over (truth, forecast, benchmark) triples of length <=2; "
        f"scaled metrics over {len(TRAINS)} training series (constant, zeros, sign changes, lengths 2..11) x sp 1..{3 if quick else 5} x forecast pairs of length <=2; "
        f"{nrand} seeded random cases (horizon <= {5 if quick else 7}, 1-3 output columns, raw_values / uniform / weighted multioutput, ndarray / list / pandas with "
        "index offset, values on a 0.25 grid in [-3,3] incl. zeros, constants, opposite signs, partly perfect forecasts); laws: perfect forecast, swap, positive rescaling; "
        "18 classes + make_forecasting_scorer configured by constructor / set_params / attribute assignment / clone, repeated calls. "
        "Not covered: float rounding beyond rtol 1e-9, NaN/inf inputs, datetime/period indices; scaled/relative classes cannot be called at all on the unchanged tree (KF keys)")
    rng = random.Random(1000003 * seed + 17)

    # ---- 1. pairwise metrics, univariate, exhaustive small scope
    idx = 0
    scopes = [(1, V3 if quick else V4), (2, V3 if quick else V4), (3, V3 if quick else V4)] + ([] if quick else [(4, V3)])
    for h, V in scopes:
        ws = weight_sets(h)
        pairs = list(itertools.product(itertools.product(V, repeat=h), repeat=2))
        if len(pairs) > 5000:
            pairs = [pairs[i] for i in sorted(rng.sample(range(len(pairs)), 5000))]
        for t, p in pairs:
            T, P = [list(t)], [list(p)]
            idx += 1
            for name in PAIR:
                grid = option_grid(name)
                if SPECS[name][0] == "asymmetric" and h == 3:
                    grid = [grid[(idx + k) % len(grid)] for k in (0, 5)]
                for k, opts in enumerate(grid):
                    check_fn(R, name, T, P, None, opts, None, "uniform_average")
                    w = ws[(idx + k) % len(ws)]
                    check_fn(R, name, T, P, None, opts, w, "uniform_average")
                    if SPECS[name][4] and opts.get("symmetric", True) and (h < 3 or idx % 4 == 0):
                        check_swap(R, name, T, P, opts, None, "uniform_average")
                        check_swap(R, name, T, P, opts, w, "uniform_average")
            if t == p:
                for name in PAIR:
                    for opts in option_grid(name):
                        for w in [None] + ws:
                            check_perfect(R, name, T, None, opts, w, "uniform_average")

    # ---- 2. relative metrics and relative_loss, univariate, exhaustive over (t, p, b)
    idx = 0
    for h in (1, 2):
        ws = weight_sets(h)
        V = V3 if (quick or h == 2) else V4
        for t, p, b in itertools.product(itertools.product(V, repeat=h), repeat=3):
            T, P, B = [list(t)], [list(p)], [list(b)]
            idx += 1
            for name in RELATIVE + ["relative_loss"]:
                for k, opts in enumerate(option_grid(name)):
                    check_fn(R, name, T, P, B, opts, None, "uniform_average")
                    if h > 1:
                        check_fn(R, name, T, P, B, opts, ws[(idx + k) % len(ws)], "uniform_average")
                    if t == p and idx % 3 == 0:
                        check_perfect(R, name, T, B, opts, None, "uniform_average")
                        check_perfect(R, name, T, B, opts, ws[(idx + k) % len(ws)], "uniform_average")
                    if idx % 7 == 0:
                        check_scale(R, name, T, P, B, opts, None, "uniform_average", (0.5, 3.0, 1e4)[idx % 3])

    # ---- 3. scaled metrics: training series x seasonal period x forecast pairs
    spmax = 3 if quick else 5
    idx = 0
    for h in (1, 2):
        ws = weight_sets(h)
        allp = list(itertools.product(itertools.product(V3, repeat=h), repeat=2))
        for tr in TRAINS:
            for sp in range(1, min(spmax, len(tr) - 1) + 1):
                pairs = allp if (h == 1 or not quick) else [allp[i] for i in range((len(tr) + sp) % 4, len(allp), 4)]
                for t, p in pairs:
                    T, P, X = [list(t)], [list(p)], [list(tr)]
                    idx += 1
                    for name in SCALED:
                        for k, o in enumerate(option_grid(name)):
                            opts = dict(o, sp=sp)
                            w = None if (idx + k) % 2 else ws[(idx // 2 + k) % len(ws)]
                            check_fn(R, name, T, P, X, opts, w, "uniform_average", kind=("pandas" if idx % 5 == 0 else "array"), start=(idx % 3) * 4)
                            if t == p:
                                check_perfect(R, name, T, X, opts, w, "uniform_average")
                            elif idx % 5 == 1:
                                check_scale(R, name, T, P, X, opts, w, "uniform_average", (0.5, 3.0, 1e-3, 1e4, 8.0)[idx % 5])
    # default seasonal period is 1
    for tr in TRAINS[3:7]:
        for name in SCALED:
            check_fn(R, name, [[1.0, -2.0]], [[0.5, 1.0]], [tr], {"sp": 1}, None, "uniform_average")
            F = lib()
            try:
                a = getattr(F, name)(np.array([1.0, -2.0]), np.array([0.5, 1.0]), np.array(tr))
                b = getattr(F, name)(np.array([1.0, -2.0]), np.array([0.5, 1.0]), np.array(tr), sp=1)
                R.check("formula-scaled", same(a, b), f"{name} default sp: {a!r} vs sp=1: {b!r} on y_train={tr}")
            except Exception as e:
                R.check("runs-on-valid-input", False, f"{name} default sp on y_train={tr}: {type(e).__name__}: {e}")

    # ---- 4. seeded random cases: multi-output, containers, index offsets, every metric with random options
    for k in range(nrand):
        T, P, B, X, w, mo, kind, start = random_case(rng, 5 if quick else 7, 9 if quick else 13)
        all_metric_calls(R, rng, T, P, B, X, w, mo, kind, start, tag=f"[random #{k}] ")

    # ---- 5. class wrappers: every option value reached by every configuration route
    cases = []
    for k in range(6 if quick else 30):
        T, P, B, X, _, _, kind, _ = random_case(rng, 4, 8)
        cases.append((T, P, B, X, kind))
    cases.append(([[1.0, -0.5, 2.0, 0.0]], [[-0.5, 0.25, 2.0, 1.0]], [[2.0, 1.0, 1.0, -1.0]], [[1.0, 3.0, 2.0, 5.0, 4.0]], "array"))
    cases.append(([[3.0, -0.5, 2.0, 7.0], [1.0, 1.0, -6.0, 2.0]], [[2.5, 0.0, 2.0, 8.0], [2.0, 2.0, -5.0, -2.0]],
                  [[2.0, 1.0, 1.0, 6.0], [0.0, 3.0, -4.0, 1.0]], [[5.0, 0.5, 4.0, 6.0, 3.0], [1.0, 2.0, 0.0, 3.0, 1.0]], "pandas"))
    for T, P, B, X, kind in cases:
        for name in SPECS:
            fam = SPECS[name][0]
            grid = option_grid(name)
            if fam == "scaled":
                grid = [dict(o, sp=sp) for o in grid for sp in (1, 2) if sp < len(X[0])]
            if fam == "asymmetric":
                grid = grid[::3] + grid[1:2]
            other = B if fam in ("relative", "relative-loss") else (X if fam == "scaled" else None)
            for i, opts in enumerate(grid):
                others = [o for o in grid if o != opts]
                oth = others[(i + len(T[0])) % len(others)] if others else None
                check_class(R, name, T, P, other, opts, oth, kind)
        for name in PAIR:
            check_scorer(R, name, T, P, kind)
    return R.result()


def replay(rec):
    m = rec.get("model") or {}
    target, case = str(rec.get("target", "")), str(rec.get("case", ""))
    R = Recorder("replay")
    n = min(max(mint(m, "n", 3), 1), 6)

    def series(nm, default):
        if m.get(nm):
            return [float(v) for v in ints_from_model(m, nm, n)]
        return default[:n] + [1.0] * max(0, n - len(default))

    t = series("y_true", [1.0, -0.5, 2.0, 0.0, 3.0, -2.0])
    p = series("y_pred", [-0.5, 0.25, 2.0, 1.0, 2.0, 2.0])
    b = series("y_pred_benchmark", [2.0, 1.0, 1.0, -1.0, 0.5, 0.0])
    tr = [float(v) for v in ints_from_model(m, "y_train", max(mint(m, "len(y_train)", 0), 0))] if m.get("y_train") else [5.0, 0.5, 4.0, 6.0, 3.0, 5.0, 2.0]
    sp = max(mint(m, "sp", 2), 1)
    if sp >= len(tr):
        tr = tr + [float(i % 3) for i in range(sp + 2)]
    names = [k for k in SPECS if k in target or CLASS_OF[k] in target] or list(SPECS)
    helper = {"_percentage_error": [k for k in SPECS if SPECS[k][0] == "percentage"], "_relative_error": RELATIVE,
              "_asymmetric_error": ["mean_asymmetric_error"], "_weighted_geometric_mean": RELATIVE[2:]}
    for hname, ks in helper.items():
        if hname in target:
            names = ks
    T, P, B, X = [t], [p], [b], [tr]
    T2, P2, B2, X2 = [t, p[::-1]], [p, t], [b, b[::-1]], [tr, tr[::-1]]
    for name in names:
        fam = SPECS[name][0]
        for opts in option_grid(name):
            if fam == "scaled":
                opts = dict(opts, sp=sp)
            for (tt, pp, bb, xx) in ((T, P, B, X), (T2, P2, B2, X2)):
                other = bb if fam in ("relative", "relative-loss") else (xx if fam == "scaled" else None)
                for w in [None] + weight_sets(n)[1:3]:
                    for mo in ("uniform_average", "raw_values"):
                        check_fn(R, name, tt, pp, other, opts, w, mo)
                check_perfect(R, name, tt, other, opts, None, "uniform_average")
                if SPECS[name][4] and opts.get("symmetric", True):
                    check_swap(R, name, tt, pp, opts, None, "uniform_average")
                if fam in ("scaled", "relative", "relative-loss"):
                    check_scale(R, name, tt, pp, other, opts, None, "uniform_average", 4.0)
            grid = option_grid(name)
            others = [o for o in grid if o != {k: v for k, v in opts.items() if k != "sp"}]
            oth = others[0] if others else None
            if oth is not None and fam == "scaled":
                oth = dict(oth, sp=1)
            check_class(R, name, T, P, B if fam in ("relative", "relative-loss") else (X if fam == "scaled" else None), opts, oth)
    # a known finding (KF:) counts as a reproduction only if the replayed target is the function / class it is about
    f = sorted(R.failures, key=lambda d: d["key"].startswith("KF:"))
    hit = [d for d in f if not d["key"].startswith("KF:") or any((k in target or CLASS_OF[k] in target) and (k + "(" in d["detail"] or d["detail"].startswith(CLASS_OF[k] + " ")) for k in SPECS)]
    return {"reproduced": bool(hit), "detail": (hit or f)[:3], "input": {"y_true": t, "y_pred": p, "y_pred_benchmark": b, "y_train": tr, "sp": sp, "metrics": names, "case": case}}
