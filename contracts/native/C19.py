"""C19 native oracle: the benchmark orchestrator on the real code with counting / failing stub estimators.

Every run is compared with an independent model of the store (which records / fitted strategies must exist,
how many fits and predicts a run may perform, which files must stay byte-identical) and every record with an
independent fit of a clone of the stub on the independently computed fold.
"""
import logging
import os
import shutil
import tempfile
import warnings

import numpy as np
import pandas as pd
from sklearn.base import BaseEstimator, ClassifierMixin, RegressorMixin, clone

from .common import Recorder, mint

RTOL = 1e-12      # text round trip of floats through csv (a few ulp)


class Injected(Exception):
    pass


class Ctl:
    fits = 0
    predicts = 0
    fail_fit_at = None
    fail_predict_at = None
    counting = True
    log = []          # (kind, X2d, y or None)

    @classmethod
    def reset(cls, kind=None, k=None):
        cls.fits = 0
        cls.predicts = 0
        cls.fail_fit_at = k if kind == "fit" else None
        cls.fail_predict_at = k if kind == "predict" else None
        cls.log = []


def _to2d(X):
    """plain numeric columns, or nested cells (pd.Series / ndarray) flattened side by side"""
    X = pd.DataFrame(X)
    if all(dt.kind in "fiub" for dt in X.dtypes):
        return X.to_numpy(dtype=float).reshape(X.shape[0], -1)
    rows = []
    for i in range(X.shape[0]):
        r = []
        for j in range(X.shape[1]):
            c = X.iat[i, j]
            if isinstance(c, (pd.Series, np.ndarray, list)):
                r.extend(np.asarray(c, dtype=float).tolist())
            else:
                r.append(float(c))
        rows.append(r)
    return np.array(rows, dtype=float).reshape(X.shape[0], -1)


class _Stub(BaseEstimator):
    def _enter_fit(self, X, y):
        X2, yv = _to2d(X), np.asarray(y)
        if Ctl.counting:
            Ctl.fits += 1
            if Ctl.fits == Ctl.fail_fit_at:
                raise Injected("fit")
            Ctl.log.append(("fit", X2.copy(), yv.copy()))
        if self.accumulate and hasattr(self, "X_"):
            # an estimator object that is fitted twice remembers both training sets: shows a missing clone
            X2, yv = np.vstack([self.X_, X2]), np.concatenate([self.y_, yv])
        self.X_, self.y_ = X2, yv
        return X2, yv

    def _enter_predict(self, X):
        X2 = _to2d(X)
        if Ctl.counting:
            Ctl.predicts += 1
            if Ctl.predicts == Ctl.fail_predict_at:
                raise Injected("predict")
            Ctl.log.append(("predict", X2.copy(), None))
        return X2


class StubClf(_Stub, ClassifierMixin):
    """deterministic nearest / farthest neighbour classifier"""

    def __init__(self, p=1, mode="near", accumulate=False):
        self.p = p
        self.mode = mode
        self.accumulate = accumulate

    def fit(self, X, y):
        self._enter_fit(X, y)
        return self

    def predict(self, X):
        X2 = self._enter_predict(X)
        d = (np.abs(X2[:, None, :] - self.X_[None, :, :]) ** self.p).sum(axis=2)
        j = d.argmin(axis=1) if self.mode == "near" else d.argmax(axis=1)
        return self.y_[j]


class StubReg(_Stub, RegressorMixin):
    """deterministic ridge least squares; the prediction also depends on the number of training rows"""

    def __init__(self, ridge=0.0, accumulate=False):
        self.ridge = ridge
        self.accumulate = accumulate

    def fit(self, X, y):
        X2, yv = self._enter_fit(X, y)
        A = np.column_stack([np.ones(len(X2)), X2])
        self.coef_ = np.linalg.solve(A.T @ A + (self.ridge + 1e-9) * np.eye(A.shape[1]), A.T @ yv.astype(float))
        return self

    def predict(self, X):
        X2 = self._enter_predict(X)
        return np.column_stack([np.ones(len(X2)), X2]) @ self.coef_ + len(self.X_) / 7.0


# ------------------------------------------------------------------------------------------------ data
LABELS = {"int": [0, 1, 2], "str": ["x", "y", "zz"], "negint": [-3, 4, 10]}


def make_frame(rs, n, kind, labels, index, col_order):
    rng = np.random.RandomState(rs)
    a = np.round(rng.normal(size=n), 6) + np.arange(n) * 1e-3
    b = rng.normal(size=n)
    if kind == "clf":
        lab = LABELS[labels]
        t = np.array(lab, dtype=object if labels == "str" else None)[(np.arange(n) + rng.randint(0, 2, size=n)) % len(lab)]
        if labels == "str":
            t = t.astype(str)
    else:
        scale = {"unit": 1.0, "big": 12345.678, "tiny": 3.1e-7}[labels]
        t = scale * (1.0 / 3.0 + 0.7 * a - 1.3 * b + 0.1 * rng.normal(size=n))
    cols = {"a": a, "b": b, "target": t}
    df = pd.DataFrame({c: cols[c] for c in col_order})
    if index == "perm":
        df.index = rng.permutation(n)
    elif index == "offset":
        df.index = np.arange(n) + 5
    elif index == "rev":
        df.index = np.arange(n)[::-1]
    elif index == "str":
        df.index = ["r%d" % i for i in rng.permutation(n)]
    elif index == "presplit":
        ntr = n - max(2, n // 3)
        df.index = ["train"] * ntr + ["test"] * (n - ntr)
    elif index == "presplit-mixed":
        lab = np.array(["train", "test", "train"])[np.arange(n) % 3]
        df.index = list(lab)
    return df


def write_ts(path, name, rs, ntr, nte, m, labels):
    """a tiny UEA problem on disk; returns the frame an independent reader would build"""
    rng = np.random.RandomState(rs)
    os.makedirs(os.path.join(path, name))
    rows = []
    for part, k in (("TRAIN", ntr), ("TEST", nte)):
        with open(os.path.join(path, name, f"{name}_{part}.ts"), "w") as f:
            f.write(f"@problemName {name}\n@timeStamps false\n@missing false\n@univariate true\n@equalLength true\n"
                    f"@seriesLength {m}\n@classLabel true {' '.join(labels)}\n@data\n")
            for i in range(k):
                vals = np.round(rng.normal(size=m), 4)
                lab = labels[(i + rng.randint(0, 2)) % len(labels)]
                f.write(",".join(repr(float(v)) for v in vals) + ":" + lab + "\n")
                rows.append((part.lower(), vals, lab))
    return rows


# ------------------------------------------------------------------------------------------------ folds (independent)
def folds_of(cvspec, n, y, index):
    kind = cvspec[0]
    idx = np.arange(n)
    if kind == "kfold":
        k = cvspec[1]
        sizes = [n // k + (1 if i < n % k else 0) for i in range(k)]
        out, s = [], 0
        for sz in sizes:
            te = idx[s:s + sz]
            out.append((np.concatenate([idx[:s], idx[s + sz:]]), te))
            s += sz
        return out
    if kind == "kfold-shuffle":
        from sklearn.model_selection import KFold
        return [(tr, te) for tr, te in KFold(cvspec[1], shuffle=True, random_state=cvspec[2]).split(idx)]
    if kind == "stratified":
        from sklearn.model_selection import StratifiedKFold
        return [(tr, te) for tr, te in StratifiedKFold(cvspec[1]).split(np.zeros(n), np.asarray(y))]
    if kind == "single":
        from sklearn.model_selection import train_test_split
        tr, te = train_test_split(idx, test_size=cvspec[1], random_state=cvspec[2], shuffle=cvspec[3])
        return [(tr, te)]
    if kind == "presplit":
        lab = np.asarray(index)
        out = [(idx[lab == "train"], idx[lab == "test"])]
        if cvspec[1]:
            out += folds_of(("kfold", cvspec[1]), n, y, index)
        return out
    raise ValueError(kind)


def make_cv(cvspec):
    from sklearn.model_selection import KFold, StratifiedKFold
    from sktime.series_as_features.model_selection import PresplitFilesCV, SingleSplit
    kind = cvspec[0]
    if kind == "kfold":
        return KFold(cvspec[1])
    if kind == "kfold-shuffle":
        return KFold(cvspec[1], shuffle=True, random_state=cvspec[2])
    if kind == "stratified":
        return StratifiedKFold(cvspec[1])
    if kind == "single":
        return SingleSplit(test_size=cvspec[1], random_state=cvspec[2], shuffle=cvspec[3])
    if kind == "presplit":
        return PresplitFilesCV(cv=KFold(cvspec[1]) if cvspec[1] else None)
    raise ValueError(kind)


# ------------------------------------------------------------------------------------------------ a benchmark configuration
class Config:
    """datasets: name -> (frame, features or None); estimators: name -> stub; cvspec; kind clf|reg"""

    def __init__(self, desc, kind, frames, estimators, cvspec, features=None, uea=None):
        self.desc, self.kind, self.frames, self.estimators, self.cvspec = desc, kind, frames, estimators, cvspec
        self.features = features
        self.uea = uea          # (path, [names]) : load through UEADataset instead of RAMDataset

    def cells(self):
        out = []
        for d, df in self.frames.items():
            fl = folds_of(self.cvspec, len(df), df["target"].values, df.index)
            for s in self.estimators:
                for f in range(len(fl)):
                    out.append((s, d, f))
        return out       # in the order the orchestrator must visit them (datasets, then strategies, then folds)

    def expected(self):
        """(s, d, fold, part) -> (index, y_true, y_pred) by an independent fit of a clone on the fold"""
        if getattr(self, "_exp", None) is not None:
            return self._exp
        Ctl.counting = False
        out = {}
        try:
            for d, df in self.frames.items():
                feats = list(self.features) if self.features else [c for c in df.columns if c != "target"]
                fl = folds_of(self.cvspec, len(df), df["target"].values, df.index)
                for s, est in self.estimators.items():
                    for f, (tr, te) in enumerate(fl):
                        fitted = clone(est).fit(df.iloc[tr][feats], df["target"].values[tr])
                        for part, ix in (("train", tr), ("test", te)):
                            out[(s, d, f, part)] = (np.asarray(ix), df["target"].values[ix], np.asarray(fitted.predict(df.iloc[ix][feats])),
                                                    _to2d(df.iloc[tr][feats]), df["target"].values[tr])
        finally:
            Ctl.counting = True
        self._exp = out
        return out

    def orchestrator(self, results):
        from sktime.benchmarking.data import RAMDataset, UEADataset
        from sktime.benchmarking.orchestration import Orchestrator
        from sktime.benchmarking.strategies import TSCStrategy, TSRStrategy
        from sktime.benchmarking.tasks import TSCTask, TSRTask
        T, S = (TSCTask, TSCStrategy) if self.kind == "clf" else (TSRTask, TSRStrategy)
        if self.uea:
            datasets = [UEADataset(path=self.uea, name=d) for d in self.frames]
        else:
            datasets = [RAMDataset(df, name=d) for d, df in self.frames.items()]
        tasks = [T(target="target", features=list(self.features) if self.features else None) for _ in datasets]
        strategies = [S(est, name=s) for s, est in self.estimators.items()]
        return Orchestrator(tasks=tasks, datasets=datasets, strategies=strategies, cv=make_cv(self.cvspec), results=results)


# ------------------------------------------------------------------------------------------------ store access (independent of the library)
def rec_path(root, key):
    s, d, f, part = key
    return os.path.join(root, s, d, f"{s}_{part}_{f}.csv")


def pick_path(root, cell):
    s, d, f = cell
    return os.path.join(root, s, d, f"{s}_train_{f}.pickle")


def disk_state(root):
    """(record keys, pickle cells, bytes of every file but the master file)"""
    recs, picks, raw = set(), set(), {}
    for s in sorted(os.listdir(root)):
        sd = os.path.join(root, s)
        if not os.path.isdir(sd):
            continue
        for d in sorted(os.listdir(sd)):
            for fn in sorted(os.listdir(os.path.join(sd, d))):
                full = os.path.join(sd, d, fn)
                with open(full, "rb") as fh:
                    raw[full] = fh.read()
                stem, ext = os.path.splitext(fn)
                pre, part, fold = stem.rsplit("_", 2)
                if ext == ".csv":
                    recs.add((s, d, int(fold), part))
                elif ext == ".pickle":
                    picks.add((s, d, int(fold)))
    return recs, picks, raw


def same_values(got, want, floats):
    got, want = np.asarray(got), np.asarray(want)
    if got.shape != want.shape:
        return False
    if floats:
        try:
            return bool(np.allclose(got.astype(float), want.astype(float), rtol=RTOL, atol=0))
        except (TypeError, ValueError):
            return False
    return bool(np.array_equal(got, want)) and (got.dtype.kind in "OUS") == (want.dtype.kind in "OUS")


def digits_only_difference(got, want):
    """stored string labels that look like numbers came back as numbers (and nothing else differs)"""
    got, want = np.asarray(got), np.asarray(want)
    if got.shape != want.shape or want.dtype.kind not in "OUS" or got.dtype.kind not in "iuf":
        return False
    try:
        return bool(np.array_equal(got.astype(float), want.astype(float)))
    except (TypeError, ValueError):
        return False


def check_records(R, cfg, exp, recs, tag, floats, prefix=""):
    """recs: key -> (index, y_true, y_pred); every present record must be the fold's"""
    for key in sorted(recs):
        if key not in exp:
            continue
        gi, gt, gp = recs[key]
        wi, wt, wp = exp[key][:3]
        R.check(prefix + "record-index", same_values(gi, wi, False), f"{tag} {key}: stored index {np.asarray(gi).tolist()} but the fold's {key[3]} positions are {wi.tolist()}")
        for nm, g, w in (("y-true", gt, wt), ("y-pred", gp, wp)):
            ok = same_values(g, w, floats)
            if not ok and digits_only_difference(g, w):
                R.check("KF:disk-readback-numeric-looking-string-labels-become-numbers", False,
                        f"{tag} {key}: {nm} stored as strings {np.asarray(w).tolist()} is read back from disk as numbers {np.asarray(g).tolist()}")
                continue
            R.check(prefix + "record-" + nm, ok, f"{tag} {key}: {nm} read {np.asarray(g).tolist()} but a clone fitted on the fold's training rows gives/has {np.asarray(w).tolist()} for index {wi.tolist()}")


_PARSED = {}


def read_disk_records(root, keys):
    """parse the record files myself; a file whose bytes were parsed before is not parsed again"""
    import io
    if len(_PARSED) > 4000:
        _PARSED.clear()
    out = {}
    for key in keys:
        with open(rec_path(root, key), "rb") as fh:
            raw = fh.read()
        if raw not in _PARSED:
            df = pd.read_csv(io.BytesIO(raw))
            _PARSED[raw] = (df["index"].values, df["y_true"].values, df["y_pred"].values)
        out[key] = _PARSED[raw]
    return out


def load_via_api(results, nfolds, parts):
    """key -> record through load_predictions; (records, error string)"""
    out = {}
    for part in parts:
        for f in range(nfolds):
            try:
                for r in results.load_predictions(cv_fold=f, train_or_test=part):
                    k = (r.strategy_name, r.dataset_name, f, part)
                    if k in out:
                        return out, f"record {k} yielded twice"
                    out[k] = (r.index, r.y_true, r.y_pred)
            except Exception as e:     # noqa: BLE001
                return out, f"load_predictions(cv_fold={f}, {part}) raised {type(e).__name__}: {e}"
    return out, None


# ------------------------------------------------------------------------------------------------ the model of one run
def model_run(cfg, recs, picks, opt):
    """expected effect of a complete run from the store (recs, picks): fits, predicts, new records, new pickles, rewritten"""
    req = (["train"] if opt["pot"] else []) + ["test"]
    fits = predicts = 0
    new_recs, new_picks, rewritten = set(), set(), set()
    for cell in cfg.cells():
        todo = [p for p in req if opt["ow"] or cell + (p,) not in recs]
        need_pick = opt["save"] and (opt["owf"] or cell not in picks)
        if todo or need_pick:
            fits += 1
            predicts += len(todo)
            for p in todo:
                (rewritten if cell + (p,) in recs else new_recs).add(cell + (p,))
            if need_pick:
                (rewritten if cell in picks else new_picks).add(cell)
    return fits, predicts, new_recs, new_picks, rewritten


def run_fp(orch, opt):
    with warnings.catch_warnings():
        warnings.simplefilter("ignore")
        orch.fit_predict(overwrite_predictions=opt["ow"], predict_on_train=opt["pot"], save_fitted_strategies=opt["save"],
                         overwrite_fitted_strategies=opt["owf"])


def O(pot=False, save=True, ow=False, owf=False):
    return {"pot": pot, "save": save, "ow": ow, "owf": owf}


def ostr(o):
    return f"fit_predict(predict_on_train={o['pot']}, save_fitted_strategies={o['save']}, overwrite_predictions={o['ow']}, overwrite_fitted_strategies={o['owf']})"


def new_hdd(root):
    from sktime.benchmarking.results import HDDResults
    with warnings.catch_warnings():
        warnings.simplefilter("ignore")
        return HDDResults(path=root)


def checked_run(R, cfg, exp, root, orch, opt, tag, floats, clause, fresh_after_crash=False):
    """one complete run over the on-disk store at root, compared with the model; returns False if it raised"""
    recs0, picks0, raw0 = disk_state(root)
    fits, predicts, new_recs, new_picks, rewritten = model_run(cfg, recs0, picks0, opt)
    Ctl.reset()
    try:
        run_fp(orch, opt)
    except Exception as e:     # noqa: BLE001
        R.check(clause + "run-completes", False, f"{tag}: {ostr(opt)} raised {type(e).__name__}: {e}")
        return False
    R.check(clause + "run-completes", True, tag)
    recs1, picks1, raw1 = disk_state(root)
    if not opt["ow"] and not opt["owf"]:
        R.check(clause + "fits-only-for-missing", Ctl.fits == fits, f"{tag}: {ostr(opt)} over a store with records {sorted(recs0)} and fitted strategies {sorted(picks0)} "
                f"performed {Ctl.fits} fits, exactly {fits} cells have something missing")
        R.check(clause + "predicts-only-missing-records", Ctl.predicts == predicts, f"{tag}: {ostr(opt)} over a store with records {sorted(recs0)} performed {Ctl.predicts} predicts, "
                f"exactly {predicts} requested records are missing")
    elif opt["ow"]:
        R.check("overwrite-recomputes-every-record", Ctl.fits == fits and Ctl.predicts == predicts, f"{tag}: {ostr(opt)} performed {Ctl.fits} fits / {Ctl.predicts} predicts, "
                f"every one of the {predicts} requested records ({fits} cells) must be recomputed")
        stale = [os.path.relpath(rec_path(root, k), root) for k in rewritten if len(k) == 4 and raw1.get(rec_path(root, k)) == raw0.get(rec_path(root, k))]
        R.check("overwrite-recomputes-every-record", not stale, f"{tag}: {ostr(opt)} left the stored record files {stale[:4]} byte-identical (the stored run times are the old ones)")
    R.check(clause + "one-record-per-cell-and-part", recs1 == recs0 | new_recs, f"{tag}: after {ostr(opt)} the record files are {sorted(recs1)}, missing {sorted((recs0 | new_recs) - recs1)}, "
            f"unexpected {sorted(recs1 - (recs0 | new_recs))}")
    R.check(clause + "fitted-strategy-per-cell", picks1 == picks0 | new_picks, f"{tag}: after {ostr(opt)} the saved fitted strategies are {sorted(picks1)}, missing {sorted((picks0 | new_picks) - picks1)}, "
            f"unexpected {sorted(picks1 - (picks0 | new_picks))}")
    keep = [p for p in raw0 if p not in {rec_path(root, k) for k in rewritten if len(k) == 4} | {pick_path(root, k) for k in rewritten if len(k) == 3}]
    changed = [os.path.relpath(p, root) for p in keep if raw1.get(p) != raw0[p]]
    R.check(clause + "completed-files-untouched", not changed, f"{tag}: {ostr(opt)} modified or removed files that were complete before the run: {changed[:4]}")
    check_records(R, cfg, exp, read_disk_records(root, recs1), tag + " [files after " + ostr(opt) + "]", floats, clause)
    return True


def check_api(R, cfg, exp, results, root, parts, tag, floats, clause, fresh_after_crash=False, touched=None):
    """what load_predictions gives back == the expected records for the given parts"""
    nf = len({c[2] for c in cfg.cells()})
    got, err = load_via_api(results, nf, parts)
    want = {k for k in exp if k[3] in parts}
    if err is None and set(got) == want:
        R.check(clause + "read-back-complete", True, tag)
        check_records(R, cfg, exp, got, tag + " [load_predictions]", floats, clause)
        return
    # known: a new results object over the files of a crashed run only registers the strategies / datasets it
    # wrote something for itself (no master file exists yet), load_predictions then leaves the others out
    if fresh_after_crash and touched is not None:
        ts, td = {k[0] for k in touched}, {k[1] for k in touched}
        names_ok = set(results.strategy_names) == ts and set(results.dataset_names) == td
        allnames = (set(results.strategy_names) == set(cfg.estimators) and set(results.dataset_names) == set(cfg.frames))
        if names_ok and not allnames and (err is None or "raised" in err) and all(k in want for k in got):
            R.check("KF:resume-with-new-results-object-forgets-untouched-strategies-and-datasets", False,
                    f"{tag}: a new HDDResults over the files of the crashed run registers only strategies {sorted(ts)} / datasets {sorted(td)} (those it wrote for), "
                    f"so load_predictions gives {len(got)} of the {len(want)} records that are complete and correct on disk"
                    + (f" ({err})" if err else ""))
            return
    R.check(clause + "read-back-complete", False, f"{tag}: load_predictions gives records {sorted(got)}, expected exactly {sorted(want)}" + (f"; {err}" if err else ""))


# ------------------------------------------------------------------------------------------------ scenarios
def scenario_single(R, cfg, opt, floats, store):
    """one uninterrupted run into a fresh store (+ an identical second run), everything compared with the oracle"""
    from sktime.benchmarking.results import RAMResults
    exp = cfg.expected()
    cells = cfg.cells()
    parts = (["train"] if opt["pot"] else []) + ["test"]
    tag = f"[{cfg.desc}; {store}; {ostr(opt)}]"
    originals = list(cfg.estimators.values())
    if store == "RAM":
        res = RAMResults()
        orch = cfg.orchestrator(res)
        for rep in (1, 2):
            Ctl.reset()
            try:
                run_fp(orch, dict(opt, save=False))
            except Exception as e:     # noqa: BLE001
                R.check("run-completes", False, f"{tag} run {rep} raised {type(e).__name__}: {e}")
                return
            R.check("run-completes", True, tag)
            R.check("fit-once-per-cell", Ctl.fits == len(cells), f"{tag} run {rep}: {Ctl.fits} fits for {len(cells)} (strategy, dataset, fold) cells")
            R.check("predict-once-per-record", Ctl.predicts == len(cells) * len(parts), f"{tag} run {rep}: {Ctl.predicts} predicts for {len(cells) * len(parts)} records")
            check_fit_log(R, cfg, exp, parts, tag)
            want = {k for k in exp if k[3] in parts}
            keys = set(res.results)
            # the representation of the in-memory key is internal: exactly one record per (strategy, dataset, fold, part)
            R.check("one-record-per-cell-and-part", len(keys) == len(want), f"{tag} run {rep}: {len(keys)} in-memory records {sorted(map(str, keys))}, expected {len(want)}")
            check_api(R, cfg, exp, res, None, parts, tag + f" run {rep}", floats, "")
        R.check("original-estimators-stay-unfitted", not any(hasattr(e, "X_") for e in originals), f"{tag}: the strategy's own estimator object was fitted (no clone per fold)")
        return
    root = tempfile.mkdtemp()
    try:
        orch = cfg.orchestrator(new_hdd(root))
        if not checked_run(R, cfg, exp, root, orch, opt, tag, floats, ""):
            return
        check_fit_log(R, cfg, exp, parts, tag)
        check_api(R, cfg, exp, orch.results, root, parts, tag + " same object", floats, "")
        check_master_file(R, cfg, exp, root, parts, tag, floats)
        if opt["save"]:
            check_pickles(R, cfg, exp, root, tag, floats)
        R.check("original-estimators-stay-unfitted", not any(hasattr(e, "X_") for e in originals), f"{tag}: the strategy's own estimator object was fitted (no clone per fold)")
        # identical run: nothing to do; new orchestrator / results object over the same directory: nothing to do either
        checked_run(R, cfg, exp, root, orch, opt, tag + " identical 2nd run", floats, "rerun-")
        orch2 = cfg.orchestrator(new_hdd(root))
        checked_run(R, cfg, exp, root, orch2, opt, tag + " identical run with a new orchestrator over the same directory", floats, "rerun-")
        check_api(R, cfg, exp, orch2.results, root, parts, tag + " new results object after complete run", floats, "rerun-")
    finally:
        shutil.rmtree(root, ignore_errors=True)


def check_fit_log(R, cfg, exp, parts, tag):
    """the i-th fit call received exactly the i-th cell's training rows (features only) and targets"""
    fits = [e for e in Ctl.log if e[0] == "fit"]
    for cell, e in zip(cfg.cells(), fits):
        wX, wy = exp[cell + ("test",)][3:5]
        ok = e[1].shape == wX.shape and np.array_equal(e[1], wX) and np.array_equal(e[2], wy)
        R.check("fit-on-the-folds-training-rows", ok, f"{tag} cell {cell}: fit received X {e[1].tolist()} y {e[2].tolist()}, the fold's training rows are X {wX.tolist()} y {wy.tolist()}")


def check_master_file(R, cfg, exp, root, parts, tag, floats):
    from joblib import load
    try:
        res = load(os.path.join(root, "results.pickle"))
    except Exception as e:     # noqa: BLE001
        R.check("read-back-complete", False, f"{tag}: results.pickle cannot be loaded: {type(e).__name__}: {e}")
        return
    check_api(R, cfg, exp, res, root, parts, tag + " results.pickle re-loaded", floats, "")


def check_pickles(R, cfg, exp, root, tag, floats):
    from joblib import load
    Ctl.counting = False
    try:
        for cell in cfg.cells():
            df = cfg.frames[cell[1]]
            te = exp[cell + ("test",)][0]
            try:
                st = load(pick_path(root, cell))
                got = st.predict(df.iloc[te])
                ok = st.name == cell[0] and same_values(got, exp[cell + ("test",)][2], floats)
                det = f"name {st.name}, predicts {np.asarray(got).tolist()} for the test fold, the record has {exp[cell + ('test',)][2].tolist()}"
            except Exception as e:     # noqa: BLE001
                ok, det = False, f"{type(e).__name__}: {e}"
            R.check("saved-fitted-strategy-is-the-folds", ok, f"{tag} cell {cell}: saved fitted strategy: {det}")
    finally:
        Ctl.counting = True


def scenario_crash(R, cfg, opt, kind, k, fresh, floats, tail_overwrite):
    """the k-th fit / predict raises; start again (same or new orchestrator + results object); identical run; overwrite run"""
    exp = cfg.expected()
    parts = (["train"] if opt["pot"] else []) + ["test"]
    tag = f"[{cfg.desc}; HDD; {ostr(opt)}; {kind} call #{k} raises; restart with {'a new' if fresh else 'the same'} orchestrator/results object]"
    root = tempfile.mkdtemp()
    try:
        orch = cfg.orchestrator(new_hdd(root))
        Ctl.reset(kind, k)
        try:
            run_fp(orch, opt)
            R.check("failure-propagates", False, f"{tag}: the injected exception did not reach the caller")
            return
        except Injected:
            R.check("failure-propagates", True, tag)
        except Exception as e:     # noqa: BLE001
            R.check("failure-propagates", False, f"{tag}: {type(e).__name__}: {e} instead of the injected exception")
            return
        recs0, picks0, _ = disk_state(root)
        # what the crashed run left must already be right
        check_records(R, cfg, exp, read_disk_records(root, recs0), tag + " [files left by the crashed run]", floats, "crash-")
        _, _, new_recs, new_picks, _ = model_run(cfg, recs0, picks0, opt)
        if fresh:
            orch = cfg.orchestrator(new_hdd(root))
        if not checked_run(R, cfg, exp, root, orch, opt, tag + " resume", floats, "resume-"):
            return
        recs1, picks1, _ = disk_state(root)
        want = set(recs0) | {k_ for k_ in exp if k_[3] in parts}
        R.check("resume-final-store-equals-uninterrupted", {k_ for k_ in recs1 if k_[3] in parts} == {k_ for k_ in exp if k_[3] in parts} and recs1 == want
                and (not opt["save"] or picks1 == set(cfg.cells())),
                f"{tag}: after the resumed run the store has records {sorted(recs1)} and fitted strategies {sorted(picks1)}; an uninterrupted run has records "
                f"{sorted(k_ for k_ in exp if k_[3] in parts)}" + (f" and fitted strategies {sorted(cfg.cells())}" if opt["save"] else ""))
        check_api(R, cfg, exp, orch.results, root, parts, tag + " after resume", floats, "resume-", fresh_after_crash=fresh, touched=new_recs | new_picks)
        if opt["save"]:
            check_pickles(R, cfg, exp, root, tag + " after resume", floats)
        checked_run(R, cfg, exp, root, orch, opt, tag + " further identical run", floats, "further-run-")
        if tail_overwrite:
            o2 = dict(opt, ow=True, owf=opt["save"])
            checked_run(R, cfg, exp, root, orch, o2, tag + " then overwriting run", floats, "overwrite-")
    finally:
        shutil.rmtree(root, ignore_errors=True)


def scenario_sequence(R, cfg, seq, floats, fresh_each):
    """a sequence of complete runs with different options over one directory, each compared with the model"""
    exp = cfg.expected()
    root = tempfile.mkdtemp()
    try:
        orch = cfg.orchestrator(new_hdd(root))
        hist = []
        for i, opt in enumerate(seq):
            hist.append(ostr(opt))
            tag = f"[{cfg.desc}; HDD; run {i + 1} of the sequence " + " -> ".join(hist) + (" (new orchestrator each run)" if fresh_each else "") + "]"
            if fresh_each and i:
                orch = cfg.orchestrator(new_hdd(root))
            if not checked_run(R, cfg, exp, root, orch, opt, tag, floats, "sequence-"):
                return
            recs, _, _ = disk_state(root)
            parts = [p for p in ("train", "test") if all(c + (p,) in recs for c in cfg.cells())]
            check_api(R, cfg, exp, orch.results, root, parts, tag, floats, "sequence-")
    finally:
        shutil.rmtree(root, ignore_errors=True)


def scenario_uea(R, rs, floats_unused, labels, inner):
    """pre-split .ts files on disk read through UEADataset + PresplitFilesCV, RAM and HDD stores"""
    data_root = tempfile.mkdtemp()
    try:
        frames = {}
        for j, name in enumerate(["toyA", "toyB"]):
            rows = write_ts(data_root, name, rs + j, 5 + j, 3, 4, labels)
            frames[name] = pd.DataFrame({"dim_0": [pd.Series(v) for _, v, _ in rows], "target": [l for _, _, l in rows]}, index=[p for p, _, _ in rows])
        cfg = Config(f"UEADataset .ts files toyA(5+3) toyB(6+3) labels {labels}, PresplitFilesCV(cv={'KFold(2)' if inner else None}), 1-NN p=1 / farthest p=2", "clf", frames,
                     {"nn": StubClf(1), "far": StubClf(2, "far")}, ("presplit", inner), uea=data_root)
        scenario_single(R, cfg, O(pot=True, save=False), False, "RAM")
        scenario_single(R, cfg, O(pot=True, save=True), False, "HDD")
        n = len(cfg.cells())
        for k in sorted({1, n // 2 + 1, 2 * n}):
            scenario_crash(R, cfg, O(pot=True, save=True), "predict", k, True, False, False)
    finally:
        shutil.rmtree(data_root, ignore_errors=True)


# ------------------------------------------------------------------------------------------------ configurations
def clf_estimators(names):
    allc = {"nn": StubClf(1), "far": StubClf(2, "far"), "acc": StubClf(1, "far", accumulate=True)}
    return {k: allc[k] for k in names}


def reg_estimators(names):
    allr = {"ols": StubReg(0.0), "ridge": StubReg(0.5), "racc": StubReg(0.25, accumulate=True)}
    return {k: allr[k] for k in names}


def value_configs(tier, seed):
    """configurations for the 'stores what was actually predicted' clauses"""
    out = []
    cvs_plain = [("kfold", 2), ("kfold", 3), ("kfold-shuffle", 3, seed + 1), ("single", 0.25, seed + 3, True), ("single", 3, None, False), ("single", 0.4, seed, True)]
    indexes = ["range", "perm", "offset", "rev", "str", "presplit-mixed"]
    orders = [("a", "b", "target"), ("target", "a", "b"), ("a", "target", "b")]
    sizes = [(7, 9)] if tier == "quick" else [(7, 9), (6, 11), (10, 8)]
    i = 0
    for (n1, n2) in sizes:
        for cv in cvs_plain + [("stratified", 2)]:
            for index in indexes:
                i += 1
                order = orders[i % 3]
                feats = [None, ("a",), ("b", "a")][(i // 2) % 3]
                for kind in ("clf", "reg"):
                    if kind == "reg" and cv[0] == "stratified":
                        continue
                    if tier == "quick" and (i + (kind == "reg")) % 2 and index in ("range", "str", "rev", "presplit-mixed"):
                        continue
                    labels = (["int", "str", "negint"] if kind == "clf" else ["unit", "big", "tiny"])[i % 3]
                    frames = {"d1": make_frame(seed * 100 + i, n1, kind, labels, index, order),
                              "d2": make_frame(seed * 100 + i + 50, n2, kind, labels, index, order)}
                    ests = clf_estimators(["nn", "far", "acc"]) if kind == "clf" else reg_estimators(["ols", "ridge", "racc"])
                    out.append(Config(f"{kind} d1(n={n1}) d2(n={n2}) index={index} columns={order} features={feats} labels/scale={labels} cv={cv} strategies={list(ests)} data seed {seed * 100 + i}",
                                      kind, frames, ests, cv, feats))
        for inner in (0, 2):
            for kind in ("clf", "reg"):
                i += 1
                labels = "str" if kind == "clf" else "big"
                frames = {"d1": make_frame(seed * 100 + i, n1, kind, labels, "presplit", orders[i % 3]), "d2": make_frame(seed * 100 + i + 50, n2, kind, labels, "presplit-mixed", orders[i % 3])}
                ests = clf_estimators(["far", "acc"]) if kind == "clf" else reg_estimators(["ridge", "racc"])
                out.append(Config(f"{kind} d1(n={n1}, index train..test) d2(n={n2}, index train/test interleaved) PresplitFilesCV(cv={'KFold(2)' if inner else None}) strategies={list(ests)} data seed {seed * 100 + i}",
                                  kind, frames, ests, ("presplit", inner)))
    return out


def crash_configs(tier, seed):
    """(config, floats) for the crash / resume enumeration: every failure point of each"""
    def c(kind, shape, cv, index, tagseed):
        nd, ns = shape
        names = (["far", "nn", "acc"] if kind == "clf" else ["ridge", "ols", "racc"])[:ns]
        ests = clf_estimators(names) if kind == "clf" else reg_estimators(names)
        labels = "str" if kind == "clf" else "big"
        frames = {f"d{j + 1}": make_frame(seed * 10 + tagseed + j, 7 + j, kind, labels, index, ("a", "target", "b")) for j in range(nd)}
        return Config(f"{kind} {nd} datasets (n=7..) x strategies {names} index={index} cv={cv} data seed {seed * 10 + tagseed}", kind, frames, ests, cv)
    out = [c("clf", (2, 2), ("kfold", 2), "perm", 1), c("reg", (1, 1), ("single", 0.3, seed + 1, True), "offset", 2), c("reg", (2, 1), ("kfold", 2), "range", 3)]
    if tier != "quick":
        out += [c("clf", (1, 3), ("kfold", 3), "str", 4), c("reg", (3, 2), ("kfold", 2), "rev", 5), c("clf", (2, 2), ("presplit", 2), "presplit", 6),
                c("clf", (3, 1), ("stratified", 2), "range", 7), c("reg", (2, 3), ("single", 2, seed + 2, True), "perm", 8)]
    return out


def bounded(tier, seed):
    quick = tier == "quick"
    R = Recorder(
        "Orchestrator.fit_predict on the real code with counting / failing stub estimators (1-NN and farthest-neighbour classifiers, ridge least-squares regressors, each also "
        "in an 'accumulating' variant that exposes a missing clone). VALUES: 2 datasets of sizes " + ("(7,9)" if quick else "(7,9),(6,11),(10,8)") + " x 3 strategies x cv in {KFold(2), KFold(3), "
        "shuffled KFold(3), StratifiedKFold(2), SingleSplit(0.25 / 3 unshuffled / 0.4), PresplitFilesCV with and without inner KFold(2)} x row index in {0..n-1, permutation, offset by 5, "
        "reversed, strings, duplicated train/test labels} x target column first/middle/last x features {all, ['a'], ['b','a']} x labels {int, str, negative int} / float scales {1, 1e4, 3e-7}; "
        "RAMResults (run twice) and HDDResults (files, load_predictions, re-loaded results.pickle, saved fitted strategies, identical re-run with the same and with a new orchestrator), "
        "predict_on_train and save_fitted_strategies on/off; tiny UEA .ts problems on disk through UEADataset + PresplitFilesCV. CRASH: every k-th fit and every k-th predict raising for "
        + ("3 collections (2x2x2 folds, 1x1x1, 2x1x2)" if quick else "8 collections (up to 3 datasets x 2 strategies x 2 folds, 1 x 3 x 3, 2 x 3 x 1, presplit+KFold, stratified)") +
        " x (predict_on_train, save_fitted_strategies) in all 4 combinations, restart with the same and with a brand-new orchestrator/results object, then an identical run, then an overwriting run. "
        "SEQUENCES: all " + ("pairs" if quick else "pairs and triples") + " of complete runs over the 4 (predict_on_train, save_fitted) options plus overwrite variants, checked against an abstract "
        "store model (fits/predicts performed, files created, files byte-identical). Not covered: Orchestrator.fit / predict (not part of fit_predict), metrics / Evaluator, "
        "SingleSplit(random_state=None) (not deterministic), real sktime classifiers (stubs only; TimeSeriesForest does not construct under the shim), y_proba (dropped by HDDResults), "
        "crashes inside a file write (atomic-save assumption), strategy/dataset names containing path separators.")
    prev_disable = logging.root.manager.disable
    logging.disable(logging.CRITICAL)
    try:
        _bounded(R, tier, seed, quick)
    finally:
        logging.disable(prev_disable)
        Ctl.reset()
        Ctl.counting = True
    return R.result()


def _bounded(R, tier, seed, quick):
    # ---- values
    vcs = value_configs(tier, seed)
    for i, cfg in enumerate(vcs):
        floats = cfg.kind == "reg"
        scenario_single(R, cfg, O(pot=bool(i % 3), save=False), floats, "RAM")
        scenario_single(R, cfg, O(pot=bool((i + 1) % 3), save=bool(i % 2)), floats, "HDD")
    # numeric-looking string labels
    fr = make_frame(seed + 7, 8, "clf", "int", "perm", ("a", "b", "target"))
    fr["target"] = np.array(["1", "2", "03"])[fr["target"].values.astype(int)]
    cfgd = Config("clf d1(n=8) labels '1','2','03' (strings) index=perm cv=KFold(2) strategies nn", "clf", {"d1": fr}, clf_estimators(["nn"]), ("kfold", 2))
    scenario_single(R, cfgd, O(pot=True, save=False), False, "RAM")
    scenario_single(R, cfgd, O(pot=True, save=False), False, "HDD")
    # names containing the separator characters of the stores' keys: ("a_b", "c") vs ("a", "b_c") must stay two records
    e2 = clf_estimators(["nn", "far"])
    cfgu = Config("clf datasets 'c', 'b_c' strategies 'a_b', 'a' (names with underscores) cv=KFold(2)", "clf",
                  {"c": make_frame(seed + 21, 7, "clf", "int", "range", ("a", "b", "target")),
                   "b_c": make_frame(seed + 22, 8, "clf", "int", "range", ("a", "b", "target"))},
                  {"a_b": e2["nn"], "a": e2["far"]}, ("kfold", 2))
    scenario_single(R, cfgu, O(pot=True, save=False), False, "RAM")
    scenario_single(R, cfgu, O(pot=False, save=False), False, "HDD")
    # pre-split files on disk
    scenario_uea(R, seed + 11, False, ["a", "b"], 0)
    if not quick:
        scenario_uea(R, seed + 12, False, ["up", "down", "flat"], 2)
    # ---- crash / resume: every failure point
    for ci, cfg in enumerate(crash_configs(tier, seed)):
        floats = cfg.kind == "reg"
        n = len(cfg.cells())
        for pot in (False, True):
            for save in (True, False):
                opt = O(pot=pot, save=save)
                points = [("fit", k) for k in range(1, n + 1)] + [("predict", k) for k in range(1, n * (2 if pot else 1) + 1)]
                for j, (kind, k) in enumerate(points):
                    variants = [bool((j + ci + seed) % 2)] if quick else [False, True]
                    for fresh in variants:
                        scenario_crash(R, cfg, opt, kind, k, fresh, floats, tail_overwrite=(j % 3 == 0))
    # ---- sequences of complete runs
    base = [O(pot=p, save=s) for p in (False, True) for s in (False, True)]
    extra = [O(pot=True, save=True, ow=True, owf=True), O(pot=False, save=False, ow=True), O(pot=True, save=True, ow=True)]
    scfg = crash_configs("quick", seed + 1)[0]
    scfg2 = crash_configs("quick", seed + 1)[2]
    seqs = [(a, b) for a in base for b in base + extra]
    if not quick:
        seqs += [(a, b, c) for a in base for b in base + extra[:1] for c in base + extra]
    for i, seq in enumerate(seqs):
        cfg = scfg if i % 2 == 0 else scfg2
        scenario_sequence(R, cfg, list(seq), cfg.kind == "reg", fresh_each=bool((i // 2) % 2))


_KF_TARGETS = {
    "KF:resume-with-new-results-object-forgets-untouched-strategies-and-datasets": (("hddbaseresults", "save"), ("_append_key",), ("strategy_names",), ("registry",)),
    "KF:disk-readback-numeric-looking-string-labels-become-numbers": (("hddresults", "load_predictions"), ("hddresults", "save_predictions"), ("read_csv",)),
}


def replay(rec):
    m = rec.get("model") or {}
    text = (str(rec.get("target", "")) + " " + str(rec.get("case", "")) + " " + str(rec.get("obligation", ""))).lower()
    R = Recorder("replay")
    seed = abs(mint(m, "seed", 0)) % 1000
    nd = min(max(mint(m, "n_datasets", 2), 1), 3)
    ns = min(max(mint(m, "n_strategies", 2), 1), 3)
    nf = min(max(mint(m, "n_folds", mint(m, "k", 2)), 2), 3)
    pot = bool(mint(m, "predict_on_train", 1))
    save = bool(mint(m, "save_fitted_strategies", 1))
    inp = {"n_datasets": nd, "n_strategies": ns, "n_folds": nf, "predict_on_train": pot, "save_fitted_strategies": save, "seed": seed}
    prev_disable = logging.root.manager.disable
    logging.disable(logging.CRITICAL)
    try:
        cfgs = []
        for kind, index in (("clf", "perm"), ("reg", "offset")):
            names = (["far", "nn", "acc"] if kind == "clf" else ["ridge", "ols", "racc"])[:ns]
            ests = clf_estimators(names) if kind == "clf" else reg_estimators(names)
            frames = {f"d{j + 1}": make_frame(seed + j, 7 + j, kind, "str" if kind == "clf" else "big", index, ("a", "target", "b")) for j in range(nd)}
            cfgs.append(Config(f"{kind} {nd} datasets x {names} index={index} KFold({nf})", kind, frames, ests, ("kfold", nf)))
        for cfg in cfgs:
            fl = cfg.kind == "reg"
            scenario_single(R, cfg, O(pot=pot, save=False), fl, "RAM")
            scenario_single(R, cfg, O(pot=pot, save=save), fl, "HDD")
            n = len(cfg.cells())
            ks = None
            for nm in ("k_fail", "fail_at", "crash_at", "crash"):
                if nm in m:
                    ks = [min(max(mint(m, nm, 1), 1), 2 * n)]
                    break
            opt = O(pot=pot, save=save)
            for kind in ("fit", "predict"):
                top = n * (2 if (pot and kind == "predict") else 1)
                for k in (ks or range(1, top + 1)):
                    for fresh in (False, True):
                        scenario_crash(R, cfg, opt, kind, min(k, top), fresh, fl, True)
            scenario_sequence(R, cfg, [O(pot=False, save=False), O(pot=True, save=True), O(pot=True, save=True), O(pot=True, save=True, ow=True, owf=True)], fl, False)
    finally:
        logging.disable(prev_disable)
        Ctl.reset()
        Ctl.counting = True
    # a known finding (KF:) counts as a reproduction only when the replayed target is the code it is about
    f = [d for d in R.failures if not d["key"].startswith("KF:") or any(all(w in text for w in ws) for ws in _KF_TARGETS.get(d["key"], ()))]
    return {"reproduced": bool(f), "detail": f[:3], "input": inp}
