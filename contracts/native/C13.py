"""C13 native oracle: series transformers are invertible, index-preserving and aligned in time.

The real transformers are run on small series; what they return is compared with plain numpy expectations
(classical decomposition seasonal means by phase, least-squares polynomial trend, Box-Cox / log formulas,
scaler formulas) and with the metamorphic statements of the property (round trip, fit_transform == fit +
transform, integer index shift)."""
import random
import warnings

import numpy as np
import pandas as pd

from .common import Recorder, mint

TAG = "transform-returns-same-time-index"


# ----------------------------------------------------------------------------------------------- helpers
def make_index(kind, start, n):
    if kind == "range":
        return pd.RangeIndex(start, start + n)
    if kind == "int64":
        return pd.Index(np.arange(start, start + n, dtype="int64"))
    if kind == "period":
        return pd.period_range(pd.Period("2001-01", freq="M") + int(start), periods=n, freq="M")
    raise ValueError(kind)


def arr(x):
    return np.asarray(x, dtype=float)


def same(a, b, rtol=1e-8, atol=1e-9):
    """equal up to floating point error, with the same NaN / inf pattern"""
    try:
        a, b = arr(a), arr(b)
    except (TypeError, ValueError):
        return False
    if a.shape != b.shape:
        return False
    return bool(np.allclose(a, b, rtol=rtol, atol=atol, equal_nan=True))


def same_where_finite(back, z, zt, rtol=1e-7, atol=1e-8):
    """back == z at every position where the transformed value zt is finite"""
    try:
        back, z, zt = arr(back), arr(z), arr(zt)
    except (TypeError, ValueError):
        return False
    if back.shape != z.shape or zt.shape != z.shape:
        return False
    m = np.isfinite(zt)
    return bool(np.allclose(back[m], z[m], rtol=rtol, atol=atol))


def idx_is(out, idx):
    return hasattr(out, "index") and len(out.index) == len(idx) and bool(out.index.equals(idx))


def idx_shifted(out_shifted, out_base, c):
    try:
        a, b = out_shifted.index, out_base.index
        return len(a) == len(b) and [int(v) for v in a] == [int(v) + c for v in b]
    except Exception:
        return False


def fmt(x, k=8):
    try:
        v = np.round(arr(x).ravel()[:k], 6).tolist()
        return str(v) + ("..." if arr(x).size > k else "")
    except Exception:
        return repr(x)[:120]


def ilist(idx, k=4):
    v = [str(i) for i in list(idx)[:k]]
    return "[" + ", ".join(v) + (", ..." if len(idx) > k else "") + "]"


def call(fn):
    """(result, None) or (None, 'ExcType: msg')"""
    try:
        with warnings.catch_warnings():
            warnings.simplefilter("ignore")
            return fn(), None
    except Exception as e:  # the error text becomes part of the failure detail
        return None, f"raised {type(e).__name__}: {str(e)[:160]}"


def classical_seasonal(x, sp, model):
    """independent oracle: seasonal means by phase of the classical decomposition (centred moving average of one
    period, 2 x sp for even sp), normalised to mean 0 (additive) / mean 1 (multiplicative)."""
    x = arr(x)
    n = len(x)
    w = (np.r_[0.5, np.ones(sp - 1), 0.5] if sp % 2 == 0 else np.ones(sp)) / sp
    h = sp // 2
    trend = np.full(n, np.nan)
    for i in range(h, n - h):
        trend[i] = float(np.dot(w, x[i - h:i + h + 1]))
    det = x - trend if model == "additive" else x / trend
    avg = np.array([np.nanmean(det[p::sp]) for p in range(sp)])
    return avg - avg.mean() if model == "additive" else avg / avg.mean()


def poly_trend(y_train, degree, intercept, rel_pos):
    """independent oracle: least-squares polynomial in the time elapsed since the first training point"""
    powers = list(range(0 if intercept else 1, degree + 1))
    t = np.arange(len(y_train), dtype=float)
    A = np.column_stack([t ** p for p in powers])
    coef = np.linalg.lstsq(A, arr(y_train), rcond=None)[0]
    r = arr(rel_pos)
    return np.column_stack([r ** p for p in powers]) @ coef


def seasonal_values(rng, model, sp, N):
    pattern = rng.uniform(1.0, 3.0, sp)
    level = 10.0 + 0.05 * np.arange(N)
    if model == "additive":      # real valued, both signs
        return level - 11.5 + np.resize(pattern, N) + rng.normal(0, 0.3, N)
    return level * np.resize(pattern, N) * np.exp(rng.normal(0, 0.05, N))      # positive


# --------------------------------------------------------------------------- deseasonalizer: phase alignment
def check_deseason(R, variant, model, sp, n_train, kind, l0, rng, lengths=None, updates=(), starts_step=1, tag=""):
    """fit on positions [pre, pre+n_train) of a longer timeline; every stretch [a, a+L) that is the training series,
    later, or overlapping it must lose / regain ref[(a + i - pre) mod sp] at its i-th point"""
    from sktime.transformations.series.detrend import ConditionalDeseasonalizer, Deseasonalizer
    pre, post = sp + 1, 2 * sp + 3
    N = pre + n_train + post
    y = pd.Series(seasonal_values(rng, model, sp, N), index=make_index(kind, l0, N))
    tr = y.iloc[pre:pre + n_train]
    verdicts = {"cond-true": True, "cond-false": False}

    def make():
        if variant == "plain":
            return Deseasonalizer(sp=sp, model=model)
        if variant == "cond-default":
            return ConditionalDeseasonalizer(sp=sp, model=model)
        v = verdicts[variant]
        return ConditionalDeseasonalizer(seasonality_test=lambda y_, sp: v, sp=sp, model=model)

    desc = f"{tag}{variant} model={model} sp={sp} index={kind} training labels {ilist(tr.index, 2)} (n={n_train})"
    t, err = call(lambda: make().fit(tr))
    if err:
        R.check("roundtrip-values", False, f"{desc}: fit {err}")
        return
    seasonal = True
    if variant != "plain":
        seasonal = bool(t.is_seasonal_)
        if variant in verdicts:
            R.check("conditional-deseasonalizer-follows-test", seasonal == verdicts[variant],
                    f"{desc}: seasonality_test returned {verdicts[variant]}, is_seasonal_={t.is_seasonal_}")
            seasonal = verdicts[variant]
    if seasonal:
        ref = classical_seasonal(tr.to_numpy(), sp, model)
    else:
        ref = np.zeros(sp) if model == "additive" else np.ones(sp)

    # fit_transform == fit then transform (fresh instance, and an instance that was fitted on something else before)
    ft, err = call(lambda: make().fit_transform(tr))
    exp_tr = tr.to_numpy() - np.resize(ref, n_train) if model == "additive" else tr.to_numpy() / np.resize(ref, n_train)
    R.check("fit-transform-equals-fit-then-transform", err is None and same(ft, exp_tr) and idx_is(ft, tr.index),
            f"{desc}: fit_transform(train) {err or fmt(ft)}; expected train minus/over its phase component {fmt(exp_tr)}")
    other = y.iloc[0:2 * sp + 1] if 2 * sp + 1 <= N else None
    if other is not None:
        ft2, err = call(lambda: make().fit(other).fit_transform(tr))
        R.check("fit-transform-equals-fit-then-transform", err is None and same(ft2, exp_tr) and idx_is(ft2, tr.index),
                f"{desc}: fit(another stretch starting at {other.index[0]}) then fit_transform(train) {err or fmt(ft2)}; "
                f"expected {fmt(exp_tr)}")

    def stretch(a, L, phase_key, after=""):
        z = y.iloc[a:a + L]
        c = ref[(np.arange(a, a + L) - pre) % sp]
        zv = z.to_numpy()
        d = f"{desc}{after}: stretch of {L} starting {a - pre:+d} from the training start (labels {ilist(z.index, 3)})"
        zt, err = call(lambda: t.transform(z))
        exp = zv - c if model == "additive" else zv / c
        got = None if err else (zv - arr(zt) if model == "additive" else zv / arr(zt))
        R.check(phase_key, err is None and same(zt, exp),
                f"{d}: transform {err or 'removed component ' + fmt(got)}; component by position modulo sp {fmt(c)}")
        zi, err2 = call(lambda: t.inverse_transform(z))
        exp = zv + c if model == "additive" else zv * c
        got = None if err2 else (arr(zi) - zv if model == "additive" else arr(zi) / zv)
        R.check(phase_key, err2 is None and same(zi, exp),
                f"{d}: inverse_transform {err2 or 'restored component ' + fmt(got)}; component by position modulo sp {fmt(c)}")
        if err is None:
            R.check("tagged-index-preserved", idx_is(zt, z.index), f"{d}: transform returned index {ilist(zt.index)}")
            back, err3 = call(lambda: t.inverse_transform(zt))
            R.check("roundtrip-values", err3 is None and same_where_finite(back, zv, zt),
                    f"{d}: inverse_transform(transform(z)) {err3 or fmt(back)}; z={fmt(zv)}")
            if err3 is None:
                R.check("roundtrip-index", idx_is(back, z.index), f"{d}: round trip returned index {ilist(back.index)}")
        if err2 is None:
            R.check("tagged-index-preserved", idx_is(zi, z.index), f"{d}: inverse_transform returned index {ilist(zi.index)}")

    def sweep(phase_key, lens, after="", step=1):
        for a in range(0, N, step):
            for L in lens:
                if a + L > N:
                    continue
                if a < pre and a + L <= pre:
                    continue          # entirely before the training series: not a later / overlapping stretch
                stretch(a, L, phase_key, after)

    lens = lengths or list(range(1, 2 * sp + 3))
    stretch(pre, n_train, "deseasonalizer-component-by-phase")        # the training series itself
    sweep("deseasonalizer-component-by-phase", lens, step=starts_step)
    # intervening updates: the component must stay tied to the training origin
    done = []
    for (off, ln, up) in updates:
        a = pre + off
        if a < 0 or a + ln > N or ln < 1:
            continue
        u = y.iloc[a:a + ln]
        _, err = call(lambda: t.update(u, update_params=up))
        done.append(f"update(stretch {off:+d}..{off + ln - 1:+d}, update_params={up})")
        after = " after " + ", ".join(done)
        if err:
            R.check("deseasonalizer-component-after-update", False, f"{desc}{after}: update {err}")
            return
        stretch(pre, n_train, "deseasonalizer-component-after-update", after)
        sweep("deseasonalizer-component-after-update", sorted(set([1, 2, sp + 1, 2 * sp + 1])), after, step=starts_step)


def check_deseason_reconfigured(R, rng, sp_a, sp_b, model_b, kind, l0):
    """set_params then refit on a series with a different start: alignment is relative to the new training series"""
    from sktime.transformations.series.detrend import Deseasonalizer
    N = 3 * sp_b + 2 * sp_a + 12
    y = pd.Series(seasonal_values(rng, model_b, sp_b, N), index=make_index(kind, l0, N))
    first, second = y.iloc[0:2 * sp_a + 2], y.iloc[3:3 + 2 * sp_b + 3]
    desc = f"Deseasonalizer(sp={sp_a}).fit(labels from {first.index[0]}) -> set_params(sp={sp_b}, model={model_b}) -> fit(labels from {second.index[0]})"
    t, err = call(lambda: Deseasonalizer(sp=sp_a, model="additive").fit(first).set_params(sp=sp_b, model=model_b).fit(second))
    if err:
        R.check("deseasonalizer-component-by-phase", False, f"{desc}: {err}")
        return
    ref = classical_seasonal(second.to_numpy(), sp_b, model_b)
    for a in range(3, N - 1):
        for L in (1, sp_b + 1, 2 * sp_b + 1):
            if a + L > N:
                continue
            z = y.iloc[a:a + L]
            c = ref[(np.arange(a, a + L) - 3) % sp_b]
            exp = z.to_numpy() - c if model_b == "additive" else z.to_numpy() / c
            zt, err = call(lambda: t.transform(z))
            R.check("deseasonalizer-component-by-phase", err is None and same(zt, exp),
                    f"{desc}: transform(stretch of {L} starting {a - 3:+d} from the new training start) {err or fmt(zt)}; expected {fmt(exp)}")


# ------------------------------------------------------------------------------------------- detrender
def check_detrender(R, cfg, n_train, kind, l0, rng, updates=()):
    from sktime.forecasting.trend import PolynomialTrendForecaster
    from sktime.transformations.series.detrend import Detrender
    degree, intercept, explicit = cfg
    pre, post = 3, 7
    N = pre + n_train + post
    tt = np.arange(N, dtype=float)
    vals = 2.0 - 0.7 * tt + 0.04 * tt ** 2 + rng.normal(0, 1.0, N)
    y = pd.Series(vals, index=make_index(kind, l0, N))
    tr = y.iloc[pre:pre + n_train]

    def make():
        if not explicit:
            return Detrender()
        return Detrender(forecaster=PolynomialTrendForecaster(degree=degree, with_intercept=intercept))

    desc = (f"Detrender({'PolynomialTrendForecaster(degree=%d, with_intercept=%s)' % (degree, intercept) if explicit else ''}) "
            f"index={kind} training labels {ilist(tr.index, 2)} (n={n_train})")
    t, err = call(lambda: make().fit(tr))
    if err:
        R.check("roundtrip-values", False, f"{desc}: fit {err}")
        return
    exp_tr = tr.to_numpy() - poly_trend(tr.to_numpy(), degree, intercept, np.arange(n_train))
    ft, err = call(lambda: make().fit_transform(tr))
    R.check("fit-transform-equals-fit-then-transform", err is None and same(ft, exp_tr, 1e-6, 1e-7) and idx_is(ft, tr.index),
            f"{desc}: fit_transform(train) {err or fmt(ft)}; expected residual of the least squares trend {fmt(exp_tr)}")

    def stretch(a, L, values_known, after=""):
        z = y.iloc[a:a + L]
        zv = z.to_numpy()
        d = f"{desc}{after}: stretch of {L} starting {a - pre:+d} from the training start (labels {ilist(z.index, 3)})"
        zt, err = call(lambda: t.transform(z))
        if values_known:
            trend = poly_trend(tr.to_numpy(), degree, intercept, np.arange(a, a + L) - pre)
            R.check("detrender-removes-trend-at-time-point", err is None and same(zt, zv - trend, 1e-6, 1e-7),
                    f"{d}: transform {err or fmt(zt)}; z minus the fitted trend at those time points {fmt(zv - trend)}")
            zi, err2 = call(lambda: t.inverse_transform(z))
            R.check("detrender-removes-trend-at-time-point", err2 is None and same(zi, zv + trend, 1e-6, 1e-7),
                    f"{d}: inverse_transform {err2 or fmt(zi)}; z plus the fitted trend at those time points {fmt(zv + trend)}")
        elif err:
            R.check("roundtrip-values", False, f"{d}: transform {err}")
        if err is None:
            R.check("tagged-index-preserved", idx_is(zt, z.index), f"{d}: transform returned index {ilist(zt.index)}")
            back, err3 = call(lambda: t.inverse_transform(zt))
            R.check("roundtrip-values", err3 is None and same_where_finite(back, zv, zt),
                    f"{d}: inverse_transform(transform(z)) {err3 or fmt(back)}; z={fmt(zv)}")
            if err3 is None:
                R.check("roundtrip-index", idx_is(back, z.index), f"{d}: round trip returned index {ilist(back.index)}")

    def sweep(values_known, after=""):
        stretch(pre, n_train, values_known, after)
        for a in range(0, N):
            for L in (1, 2, 3, 6):
                if a + L > N or (a < pre and a + L <= pre):
                    continue
                stretch(a, L, values_known, after)

    sweep(True)
    done = []
    end = pre + n_train
    for (ln, up) in updates:          # updates continue the observed series (a forecaster is updated with new data)
        if end + ln > N:
            break
        u = y.iloc[end:end + ln]
        end += ln
        _, err = call(lambda: t.update(u, update_params=up))
        done.append(f"update(next {ln} points, update_params={up})")
        after = " after " + ", ".join(done)
        if err:
            R.check("roundtrip-values", False, f"{desc}{after}: update {err}")
            return
        sweep(False, after)


# ------------------------------------------------------------------------------------- Box-Cox and log
def check_boxcox(R, method, bounds, n_train, kind, l0, rng):
    from sktime.transformations.series.boxcox import BoxCoxTransformer
    N = n_train + 8
    vals = np.exp(rng.normal(1.0, 0.6, N)) + 0.2
    y = pd.Series(vals, index=make_index(kind, l0, N))
    y.iloc[N - 2] = -1.5            # Box-Cox of a negative number is not finite: the round trip says nothing there
    tr = y.iloc[2:2 + n_train]
    desc = f"BoxCoxTransformer(method={method!r}, bounds={bounds}) index={kind} training labels {ilist(tr.index, 2)} (n={n_train})"
    t, err = call(lambda: BoxCoxTransformer(method=method, bounds=bounds).fit(tr))
    if err:
        R.check("roundtrip-values", False, f"{desc}: fit {err}")
        return
    lam = float(t.lambda_)

    def bc(v):
        v = arr(v)
        with np.errstate(all="ignore"):
            return np.log(v) if lam == 0 else (np.power(v, lam) - 1.0) / lam

    ft, err = call(lambda: BoxCoxTransformer(method=method, bounds=bounds).fit_transform(tr))
    R.check("fit-transform-equals-fit-then-transform", err is None and same(ft, bc(tr.to_numpy())) and idx_is(ft, tr.index),
            f"{desc}: fit_transform(train) {err or fmt(ft)}; Box-Cox with the fitted lambda {lam:.6g} gives {fmt(bc(tr.to_numpy()))}")
    for (a, L) in [(2, n_train)] + [(a, L) for a in range(0, N) for L in (1, 3, 5) if a + L <= N]:
        z = y.iloc[a:a + L]
        zv = z.to_numpy()
        d = f"{desc}: stretch of {L} starting {a - 2:+d} from the training start (labels {ilist(z.index, 3)})"
        zt, err = call(lambda: t.transform(z))
        R.check("boxcox-uses-fitted-lambda", err is None and same(zt, bc(zv)) and float(t.lambda_) == lam,
                f"{d}: transform {err or fmt(zt)}; Box-Cox with the fitted lambda {lam:.6g} gives {fmt(bc(zv))}")
        if err:
            continue
        R.check("tagged-index-preserved", idx_is(zt, z.index), f"{d}: transform returned index {ilist(zt.index)}")
        back, err = call(lambda: t.inverse_transform(zt))
        R.check("roundtrip-values", err is None and same_where_finite(back, zv, zt),
                f"{d}: inverse_transform(transform(z)) {err or fmt(back)}; z={fmt(zv)} transform={fmt(zt)}")
        if err is None:
            R.check("roundtrip-index", idx_is(back, z.index) and idx_is(t.inverse_transform(z), z.index),
                    f"{d}: round trip returned index {ilist(back.index)}")


def check_boxcox_all(R, rng):
    """method='all' is accepted by the constructor and by fit"""
    from sktime.transformations.series.boxcox import BoxCoxTransformer
    y = pd.Series(np.exp(rng.normal(1.0, 0.6, 14)) + 0.2)
    t, err = call(lambda: BoxCoxTransformer(method="all").fit(y))
    if err:
        return        # rejected at fit: nothing to invert
    back, err = call(lambda: t.inverse_transform(t.transform(y)))
    R.check("KF:boxcox-method-all-not-invertible", err is None and same(back, y.to_numpy(), 1e-7, 1e-8),
            f"BoxCoxTransformer(method='all').fit(y) succeeds with lambda_={fmt(t.lambda_)} (two values), then "
            f"inverse_transform(transform(y)) on the 14 point training series {err or fmt(back)}")


def check_log(R, n, kind, l0, rng, frame):
    from sktime.transformations.series.boxcox import LogTransformer
    vals = np.exp(rng.normal(0.5, 1.0, (n, 2 if frame else 1)))
    vals[n // 2, 0] = 0.0           # log 0 = -inf, log of a negative = nan: not finite, excluded by the property
    vals[n - 1, -1] = -2.0
    idx = make_index(kind, l0, n)
    y = pd.DataFrame(vals, index=idx, columns=["a", "b"]) if frame else pd.Series(vals[:, 0], index=idx)
    desc = f"LogTransformer {'DataFrame' if frame else 'Series'} index={kind} labels {ilist(idx, 2)} (n={n})"
    t, err = call(lambda: LogTransformer().fit(y.iloc[:n - 3]))
    if err:
        R.check("roundtrip-values", False, f"{desc}: fit {err}")
        return
    for (a, L) in [(0, n - 3), (0, n), (n - 3, 3), (2, n - 4), (1, 1)]:
        z = y.iloc[a:a + L]
        d = f"{desc}: stretch positions [{a},{a + L}) (fitted on [0,{n - 3}))"
        with np.errstate(all="ignore"):
            exp = np.log(z.to_numpy())
        zt, err = call(lambda: t.transform(z))
        R.check("log-values", err is None and same(zt, exp), f"{d}: transform {err or fmt(zt)}; numpy log {fmt(exp)}")
        if err:
            continue
        R.check("tagged-index-preserved", idx_is(zt, z.index), f"{d}: transform returned index {ilist(zt.index)}")
        back, err = call(lambda: t.inverse_transform(zt))
        R.check("roundtrip-values", err is None and same_where_finite(back, z.to_numpy(), zt),
                f"{d}: inverse_transform(transform(z)) {err or fmt(back)}; z={fmt(z.to_numpy())}")
        if err is None:
            R.check("roundtrip-index", idx_is(back, z.index), f"{d}: round trip returned index {ilist(back.index)}")
    ft, err = call(lambda: LogTransformer().fit_transform(y))
    with np.errstate(all="ignore"):
        exp = np.log(y.to_numpy())
    R.check("fit-transform-equals-fit-then-transform", err is None and same(ft, exp) and idx_is(ft, y.index),
            f"{desc}: fit_transform {err or fmt(ft)}; expected {fmt(exp)}")


# ------------------------------------------------------------------------------- tabular adaptor
def adaptor_cases():
    from sklearn.preprocessing import (FunctionTransformer, MaxAbsScaler, MinMaxScaler, PowerTransformer, RobustScaler,
                                       StandardScaler)

    def minmax(lo, hi):
        return lambda trv, zv: (zv - trv.min(0)) / (trv.max(0) - trv.min(0)) * (hi - lo) + lo

    def standard(mean, std):
        return lambda trv, zv: (zv - (trv.mean(0) if mean else 0.0)) / (trv.std(0) if std else 1.0)

    def robust(trv, zv):
        q1, q2, q3 = np.percentile(trv, [25, 50, 75], axis=0)
        return (zv - q2) / (q3 - q1)

    return [
        ("MinMaxScaler()", lambda: MinMaxScaler(), minmax(0, 1)),
        ("MinMaxScaler(feature_range=(-2, 3))", lambda: MinMaxScaler(feature_range=(-2, 3)), minmax(-2, 3)),
        ("StandardScaler()", lambda: StandardScaler(), standard(True, True)),
        ("StandardScaler(with_mean=False)", lambda: StandardScaler(with_mean=False), standard(False, True)),
        ("StandardScaler(with_std=False)", lambda: StandardScaler(with_std=False), standard(True, False)),
        ("MaxAbsScaler()", lambda: MaxAbsScaler(), lambda trv, zv: zv / np.abs(trv).max(0)),
        ("RobustScaler()", lambda: RobustScaler(), robust),
        ("FunctionTransformer(log1p, expm1)", lambda: FunctionTransformer(np.log1p, inverse_func=np.expm1, check_inverse=False),
         lambda trv, zv: np.log1p(zv)),
        ("PowerTransformer('yeo-johnson')", lambda: PowerTransformer(method="yeo-johnson"), None),
        ("PowerTransformer('box-cox', standardize=False)", lambda: PowerTransformer(method="box-cox", standardize=False), None),
    ]


def check_adaptor(R, case, n_train, kind, l0, rng, frame):
    from sktime.transformations.series.adapt import TabularToSeriesAdaptor
    name, mk, expect = case
    N = n_train + 7
    vals = np.exp(rng.normal(0.5, 0.7, (N, 2 if frame else 1))) + 0.1
    idx = make_index(kind, l0, N)
    y = pd.DataFrame(vals, index=idx, columns=["a", "b"]) if frame else pd.Series(vals[:, 0], index=idx)
    tr = y.iloc[1:1 + n_train]
    trv = vals[1:1 + n_train]
    desc = f"TabularToSeriesAdaptor({name}) {'DataFrame' if frame else 'Series'} index={kind} training labels {ilist(tr.index, 2)} (n={n_train})"
    t, err = call(lambda: TabularToSeriesAdaptor(mk()).fit(tr))
    if err:
        R.check("roundtrip-values", False, f"{desc}: fit {err}")
        return
    R.check("adaptor-offers-inverse-iff-inner-does", hasattr(t, "inverse_transform"), f"{desc}: the adaptor does not expose inverse_transform")
    shape = (lambda v: v) if frame else (lambda v: v[:, 0])
    if expect is not None:
        ft, err = call(lambda: TabularToSeriesAdaptor(mk()).fit_transform(tr))
        R.check("fit-transform-equals-fit-then-transform", err is None and same(ft, shape(expect(trv, trv))) and idx_is(ft, tr.index),
                f"{desc}: fit_transform(train) {err or fmt(ft)}; expected {fmt(shape(expect(trv, trv)))}")
    for (a, L) in [(1, n_train)] + [(a, L) for a in range(0, N) for L in (1, 4) if a + L <= N]:
        z = y.iloc[a:a + L]
        zv = vals[a:a + L]
        d = f"{desc}: stretch of {L} starting {a - 1:+d} from the training start (labels {ilist(z.index, 3)})"
        zt, err = call(lambda: t.transform(z))
        if expect is not None:
            R.check("adaptor-applies-fitted-tabular-transform", err is None and same(zt, shape(expect(trv, zv))),
                    f"{d}: transform {err or fmt(zt)}; the scaler formula with training statistics gives {fmt(shape(expect(trv, zv)))}")
        elif err:
            R.check("roundtrip-values", False, f"{d}: transform {err}")
        if err:
            continue
        R.check("tagged-index-preserved", idx_is(zt, z.index), f"{d}: transform returned index {ilist(zt.index)}")
        back, err = call(lambda: t.inverse_transform(zt))
        R.check("roundtrip-values", err is None and same_where_finite(back, shape(zv), zt, 1e-6, 1e-7),
                f"{d}: inverse_transform(transform(z)) {err or fmt(back)}; z={fmt(shape(zv))}")
        if err is None:
            R.check("roundtrip-index", idx_is(back, z.index), f"{d}: round trip returned index {ilist(back.index)}")


def check_adaptor_without_inverse(R):
    from sklearn.preprocessing import Binarizer
    from sktime.transformations.series.adapt import TabularToSeriesAdaptor
    y = pd.Series([0.5, 2.0, 1.0, 3.0, 0.2], index=pd.RangeIndex(4, 9))
    t, err = call(lambda: TabularToSeriesAdaptor(Binarizer(threshold=1.0)).fit(y))
    zt, err = call(lambda: t.transform(y)) if not err else (None, err)
    R.check("tagged-index-preserved", err is None and idx_is(zt, y.index) and same(zt, [0, 1, 0, 1, 0]),
            f"TabularToSeriesAdaptor(Binarizer(1.0)) on labels 4..8: transform {err or fmt(zt)} index {None if err else ilist(zt.index)}")
    if not err:
        R.check("adaptor-offers-inverse-iff-inner-does", not hasattr(t, "inverse_transform"),
                "TabularToSeriesAdaptor(Binarizer()) exposes inverse_transform although Binarizer has none")


# ------------------------------------------------------------------------- optional passthrough sequences
def passthrough_inners(sp):
    from sklearn.preprocessing import MinMaxScaler
    from sktime.transformations.series.adapt import TabularToSeriesAdaptor
    from sktime.transformations.series.boxcox import BoxCoxTransformer, LogTransformer
    from sktime.transformations.series.detrend import ConditionalDeseasonalizer, Deseasonalizer, Detrender

    def seas(model):
        def f(trv, rel, zv):
            c = classical_seasonal(trv, sp, model)[rel % sp]
            return zv - c if model == "additive" else zv / c
        return f

    def minmax(trv, rel, zv):
        return (zv - trv.min()) / (trv.max() - trv.min())

    return [
        ("LogTransformer()", lambda: LogTransformer(), lambda trv, rel, zv: np.log(zv)),
        (f"Deseasonalizer(sp={sp})", lambda: Deseasonalizer(sp=sp), seas("additive")),
        (f"Deseasonalizer(sp={sp}, model='multiplicative')", lambda: Deseasonalizer(sp=sp, model="multiplicative"), seas("multiplicative")),
        (f"ConditionalDeseasonalizer(always seasonal, sp={sp})",
         lambda: ConditionalDeseasonalizer(seasonality_test=lambda y, sp: True, sp=sp), seas("additive")),
        ("Detrender()", lambda: Detrender(), lambda trv, rel, zv: zv - poly_trend(trv, 1, True, rel)),
        ("BoxCoxTransformer()", lambda: BoxCoxTransformer(), None),
        ("TabularToSeriesAdaptor(MinMaxScaler())", lambda: TabularToSeriesAdaptor(MinMaxScaler()), minmax),
    ]


SEQUENCES = [
    # each step: ("new", passthrough) | ("set", passthrough) | ("fit", which training stretch) | ("check",)
    ("fresh-apply", [("new", False), ("fit", 0), ("check",)]),
    ("fresh-passthrough", [("new", True), ("fit", 0), ("check",)]),
    ("apply->set passthrough (no refit)", [("new", False), ("fit", 0), ("check",), ("set", True), ("check",)]),
    ("apply->set passthrough->refit", [("new", False), ("fit", 0), ("set", True), ("fit", 0), ("check",)]),
    ("apply->set passthrough->refit elsewhere", [("new", False), ("fit", 0), ("set", True), ("fit", 1), ("check",)]),
    ("passthrough->set apply->refit", [("new", True), ("fit", 0), ("check",), ("set", False), ("fit", 1), ("check",)]),
    ("apply->passthrough->apply, refitting each time",
     [("new", False), ("fit", 0), ("set", True), ("fit", 1), ("check",), ("set", False), ("fit", 1), ("check",), ("set", True), ("fit", 0), ("check",)]),
    ("refit apply on another stretch", [("new", False), ("fit", 0), ("check",), ("fit", 1), ("check",)]),
]


def check_passthrough(R, inner, sp, kind, l0, rng, seqs=None):
    from sktime.transformations.series.compose import OptionalPassthrough
    name, mk, expect = inner
    N = 4 * sp + 16
    y = pd.Series(seasonal_values(rng, "multiplicative", sp, N), index=make_index(kind, l0, N))
    trains = [(0, 3 * sp + 2), (sp + 1, 2 * sp + 5)]      # (start position, length): the second is not a whole number of periods later
    stretches = [None, (0, 2), (1, sp + 1), (3 * sp + 3, sp + 2), (N - 3, 3), (sp + 2, 2 * sp + 1)]
    for sname, steps in (seqs or SEQUENCES):
        t, pt, cur, hist = None, None, None, []
        for st in steps:
            if st[0] == "new":
                pt = st[1]
                t = OptionalPassthrough(mk(), passthrough=pt)
                hist.append(f"OptionalPassthrough({name}, passthrough={pt})")
                continue
            if st[0] == "set":
                pt = st[1]
                _, err = call(lambda: t.set_params(passthrough=pt))
                hist.append(f"set_params(passthrough={pt})")
                if err:
                    R.check("roundtrip-values", False, " -> ".join(hist) + f": {err}")
                    break
                continue
            if st[0] == "fit":
                cur = trains[st[1]]
                trs = y.iloc[cur[0]:cur[0] + cur[1]]
                _, err = call(lambda: t.fit(trs))
                hist.append(f"fit(labels {trs.index[0]}..{trs.index[-1]})")
                if err:
                    R.check("roundtrip-values", False, " -> ".join(hist) + f": {err}")
                    break
                continue
            desc = f"index={kind} [{sname}] " + " -> ".join(hist)
            trv = y.to_numpy()[cur[0]:cur[0] + cur[1]]
            for s in stretches:
                a, L = s if s is not None else cur
                z = y.iloc[a:a + L]
                zv = z.to_numpy()
                d = f"{desc}: stretch of {L} starting {a - cur[0]:+d} from the training start (labels {ilist(z.index, 3)})"
                zt, err = call(lambda: t.transform(z))
                if err:
                    R.check("roundtrip-values", False, f"{d}: transform {err}")
                    continue
                back, err = call(lambda: t.inverse_transform(zt))
                R.check("roundtrip-values", err is None and same_where_finite(back, zv, zt),
                        f"{d}: inverse_transform(transform(z)) {err or fmt(back)}; z={fmt(zv)} (transform gave {fmt(zt)})")
                if err is None:
                    R.check("roundtrip-index", idx_is(back, z.index) and idx_is(zt, z.index),
                            f"{d}: transform index {ilist(zt.index)}, round trip index {ilist(back.index)}")
                if not pt and expect is not None:
                    exp = expect(trv, np.arange(a, a + L) - cur[0], zv)
                    R.check("passthrough-false-applies-transformer-fitted-last", same(zt, exp, 1e-6, 1e-7),
                            f"{d}: transform gave {fmt(zt)}; the inner transformation fitted on the last training stretch gives {fmt(exp)}")
            if st is steps[-1]:
                tr0 = y.iloc[cur[0]:cur[0] + cur[1]]
                a_, e1 = call(lambda: OptionalPassthrough(mk(), passthrough=pt).fit_transform(tr0))
                b_, e2 = call(lambda: t.transform(tr0))
                R.check("fit-transform-equals-fit-then-transform", e1 is None and e2 is None and same(a_, b_) and idx_is(a_, tr0.index),
                        f"{desc}: fresh fit_transform(train) {e1 or fmt(a_)} vs transform(train) on this instance {e2 or fmt(b_)}")


# ------------------------------------------------------------- every series transformer: shift, fit_transform, tag
def catalogue(tier):
    """(name, factory, data kind, has inverse, has update, output indexed by time)"""
    from sklearn.preprocessing import MinMaxScaler, StandardScaler
    from sktime.forecasting.trend import PolynomialTrendForecaster
    from sktime.transformations.series.acf import AutoCorrelationTransformer, PartialAutoCorrelationTransformer
    from sktime.transformations.series.adapt import TabularToSeriesAdaptor
    from sktime.transformations.series.boxcox import BoxCoxTransformer, LogTransformer
    from sktime.transformations.series.compose import OptionalPassthrough
    from sktime.transformations.series.cos import CosineTransformer
    from sktime.transformations.series.detrend import ConditionalDeseasonalizer, Deseasonalizer, Detrender
    from sktime.transformations.series.impute import Imputer
    from sktime.transformations.series.outlier_detection import HampelFilter
    C = []

    def add(name, mk, data="pos", inv=True, upd=False, timeidx=True, frame=False):
        C.append((name, mk, data, inv, upd, timeidx, frame))

    for sp in (2, 3, 4) + ((5, 7) if tier == "thorough" else ()):
        for model in ("additive", "multiplicative"):
            add(f"Deseasonalizer(sp={sp}, model={model!r})", lambda sp=sp, model=model: Deseasonalizer(sp=sp, model=model), upd=True)
        add(f"ConditionalDeseasonalizer(sp={sp})", lambda sp=sp: ConditionalDeseasonalizer(sp=sp), upd=True)
        add(f"ConditionalDeseasonalizer(always seasonal, sp={sp}, multiplicative)",
            lambda sp=sp: ConditionalDeseasonalizer(seasonality_test=lambda y, sp: True, sp=sp, model="multiplicative"), upd=True)
    add("Detrender()", lambda: Detrender(), "real", upd=True)
    add("Detrender(PolynomialTrendForecaster(degree=2))", lambda: Detrender(PolynomialTrendForecaster(degree=2)), "real", upd=True)
    add("Detrender(PolynomialTrendForecaster(with_intercept=False))",
        lambda: Detrender(PolynomialTrendForecaster(degree=1, with_intercept=False)), "real", upd=True)
    add("BoxCoxTransformer()", lambda: BoxCoxTransformer())
    add("BoxCoxTransformer(method='pearsonr', bounds=(0, 2))", lambda: BoxCoxTransformer(method="pearsonr", bounds=(0, 2)))
    add("LogTransformer()", lambda: LogTransformer(), frame=True)
    add("CosineTransformer()", lambda: CosineTransformer(), "real", inv=False, frame=True)
    add("TabularToSeriesAdaptor(MinMaxScaler())", lambda: TabularToSeriesAdaptor(MinMaxScaler()), frame=True)
    add("TabularToSeriesAdaptor(StandardScaler())", lambda: TabularToSeriesAdaptor(StandardScaler()), "real", frame=True)
    for pt in (False, True):
        add(f"OptionalPassthrough(Deseasonalizer(sp=3), passthrough={pt})", lambda pt=pt: OptionalPassthrough(Deseasonalizer(sp=3), passthrough=pt))
        add(f"OptionalPassthrough(LogTransformer(), passthrough={pt})", lambda pt=pt: OptionalPassthrough(LogTransformer(), passthrough=pt))
    wls = (3, 4, 5, 10) if tier == "quick" else (3, 4, 5, 6, 7, 10, 11)
    for wl in wls:
        for ns in (1, 2, 3):
            for rb in (False, True):
                if tier == "quick" and rb and ns == 2:
                    continue
                add(f"HampelFilter(window_length={wl}, n_sigma={ns}, return_bool={rb})",
                    lambda wl=wl, ns=ns, rb=rb: HampelFilter(window_length=wl, n_sigma=ns, return_bool=rb), "spiky", inv=False,
                    frame=(wl == 4))
    for m in ("drift", "linear", "nearest", "constant", "mean", "median", "backfill", "bfill", "pad", "ffill", "random", "forecaster"):
        kw = {}
        if m == "constant":
            kw["value"] = 1.5
        if m == "random":
            kw["random_state"] = 3
        if m == "forecaster":
            kw["forecaster"] = PolynomialTrendForecaster(degree=2)
        add(f"Imputer(method={m!r})", lambda m=m, kw=kw: Imputer(method=m, **kw), "nan", inv=False, frame=(m in ("linear", "mean", "ffill")))
    add("Imputer(method='mean', missing_values=-1)", lambda: Imputer(method="mean", missing_values=-1), "minus1", inv=False)
    for nl in (2, 5):
        add(f"AutoCorrelationTransformer(n_lags={nl})", lambda nl=nl: AutoCorrelationTransformer(n_lags=nl), "real", inv=False, timeidx=False)
        add(f"PartialAutoCorrelationTransformer(n_lags={nl})", lambda nl=nl: PartialAutoCorrelationTransformer(n_lags=nl), "real",
            inv=False, timeidx=False)
    add("AutoCorrelationTransformer(adjusted=True, fft=True)", lambda: AutoCorrelationTransformer(adjusted=True, fft=True, n_lags=4), "real",
        inv=False, timeidx=False)
    add("PartialAutoCorrelationTransformer(method='ols')", lambda: PartialAutoCorrelationTransformer(n_lags=3, method="ols"), "real",
        inv=False, timeidx=False)
    return C


def data_values(kind, n, rng, cols=1):
    t = np.arange(n, dtype=float)[:, None]
    if kind == "pos":
        v = (8.0 + 0.1 * t) * np.exp(rng.normal(0, 0.25, (n, cols)))
    elif kind == "real":
        v = 1.0 - 0.3 * t + rng.normal(0, 2.0, (n, cols))
    elif kind == "spiky":
        v = rng.normal(0, 1.0, (n, cols))
        for j in range(cols):
            pos = rng.choice(np.arange(n), size=max(2, n // 5), replace=False)
            v[pos, j] += rng.choice([-9.0, 9.0, 14.0], size=len(pos))
    elif kind in ("nan", "minus1"):
        v = 3.0 + 0.2 * t + rng.normal(0, 1.0, (n, cols))
        for j in range(cols):
            pos = rng.choice(np.arange(n), size=max(3, n // 4), replace=False)
            v[pos, j] = np.nan if kind == "nan" else -1
        if kind == "nan":
            v[0, 0] = np.nan
            v[n - 1, -1] = np.nan
    else:
        raise ValueError(kind)
    return v


def scenario(entry, vals, idx, n_train, frame):
    """the call sequence whose outputs are compared between an index and its shifted copy; a step that raises yields
    the error text instead of a result"""
    name, mk, data, inv, upd, timeidx, _ = entry
    y = pd.DataFrame(vals, index=idx, columns=["a", "b"]) if frame else pd.Series(vals[:, 0], index=idx)
    tr, later, over = y.iloc[:n_train], y.iloc[n_train + 1:], y.iloc[n_train - 3:n_train + 4]
    out = []
    t = mk()

    def step(label, fn):
        res, err = call(fn)
        out.append((label, res, err))
        return res

    step("fit_transform(train)", lambda: t.fit_transform(tr))
    step("transform(later stretch)", lambda: t.transform(later))
    zt = step("transform(overlapping stretch)", lambda: t.transform(over))
    if inv:
        step("inverse_transform(later stretch)", lambda: t.inverse_transform(later))
        step("inverse_transform(transform(overlapping stretch))", lambda: t.inverse_transform(zt))
    if upd:
        step("update(next 3 points)", lambda: t.update(y.iloc[n_train:n_train + 3]) and None)
        step("update(next 3 points) then transform(later stretch)", lambda: t.transform(later))
        step("update(next 3 points) then inverse_transform(overlapping stretch)", lambda: t.inverse_transform(over))
    step("transform(whole series)", lambda: t.transform(y))
    return out


def check_generic(R, entry, rng, n, n_train, bases, shifts, int_kinds):
    name, mk, data, inv, upd, timeidx, frame_ok = entry
    for frame in ((False, True) if frame_ok else (False,)):
        vals = data_values(data, n, rng, 2 if frame else 1)
        what = f"{name} on a {'2-column DataFrame' if frame else 'Series'} of {n} points (fit on the first {n_train})"
        tagged = bool(type(mk())._all_tags().get(TAG, False))
        ref_key = (bases[0], int_kinds[0])
        ref_lab = f"{int_kinds[0]} index starting at {bases[0]}"
        ref = scenario(entry, vals, make_index(ref_key[1], ref_key[0], n), n_train, frame)
        if ref[0][2] is not None:
            R.check("fit-transform-equals-fit-then-transform", False, f"{what}, {ref_lab}: fit_transform(train) {ref[0][2]}")
            continue
        # fit_transform == fit().transform() on fresh instances
        idx0 = make_index(ref_key[1], ref_key[0], n)
        y0 = pd.DataFrame(vals, index=idx0, columns=["a", "b"]) if frame else pd.Series(vals[:, 0], index=idx0)
        tr = y0.iloc[:n_train]
        two, err = call(lambda: mk().fit(tr).transform(tr))
        R.check("fit-transform-equals-fit-then-transform",
                err is None and same(two, ref[0][1]) and (not timeidx or idx_is(two, ref[0][1].index)),
                f"{what}: fit(train).transform(train) {err or fmt(two)} vs fit_transform(train) {fmt(ref[0][1])}")
        runs = [(b, kind) for b in bases for kind in int_kinds if (b, kind) != ref_key]
        runs += [(bases[0] + c, int_kinds[abs(c) % len(int_kinds)]) for c in shifts]
        for (b, kind) in [ref_key] + runs:
            idx = make_index(kind, b, n)
            o = ref if (b, kind) == ref_key else scenario(entry, vals, idx, n_train, frame)
            lab_o = f"{kind} index starting at {b}"
            if tagged:      # exactly the input's index
                exp_idx = {"fit_transform(train)": idx[:n_train], "transform(later stretch)": idx[n_train + 1:],
                           "transform(overlapping stretch)": idx[n_train - 3:n_train + 4], "transform(whole series)": idx,
                           "inverse_transform(later stretch)": idx[n_train + 1:]}
                for lab, res, err in o:
                    if lab in exp_idx and err is None:
                        R.check("tagged-index-preserved", idx_is(res, exp_idx[lab]),
                                f"{what}, {lab_o}: {lab} returned index {ilist(getattr(res, 'index', []))}, input index {ilist(exp_idx[lab])}")
            if (b, kind) != ref_key:
                compare_shift(R, what, ref, o, b - bases[0], lab_o, ref_lab, timeidx)


def compare_shift(R, what, ref, o, c, lab_o, lab_ref, timeidx):
    """same values, labels moved by c: same output values, output labels moved by c"""
    for (lab, r0, e0), (_, r1, e1) in zip(ref, o):
        if e0 is not None:
            continue          # this step cannot run on the reference index either: not covered
        if r0 is None and e1 is None:
            continue          # update(): nothing returned to compare
        d = f"{what}: {lab} on the {lab_o} vs the {lab_ref} (same values, every label shifted by {c:+d})"
        if e1 is not None:
            R.check("shift-equivariance-values", False, f"{d}: works on the latter, on the former it {e1}")
            continue
        a0, a1 = arr(r0), arr(r1)
        ok = same(a1, a0, 1e-7, 1e-8)
        diff = "output shape changed"
        if not ok and a0.shape == a1.shape:
            bad = np.argwhere(~np.isclose(a1, a0, rtol=1e-7, atol=1e-8, equal_nan=True))
            p = tuple(bad[0])
            diff = f"{len(bad)} output values differ, first at position {int(p[0])}: {a1[p]} vs {a0[p]}"
        R.check("shift-equivariance-values", ok, f"{d}: {diff}")
        if timeidx:
            R.check("shift-equivariance-index", idx_shifted(r1, r0, c),
                    f"{d}: output index {ilist(getattr(r1, 'index', []))} vs {ilist(getattr(r0, 'index', []))}")


# ----------------------------------------------------------------------------------------------- driver
def bounded(tier, seed):
    quick = tier == "quick"
    rng = np.random.RandomState(1000 + int(seed))
    pyr = random.Random(int(seed))
    sps = (1, 2, 3, 4, 5) if quick else (1, 2, 3, 4, 5, 6, 7, 12)
    R = Recorder(
        f"Deseasonalizer / ConditionalDeseasonalizer (always / never seasonal test, default test): sp in {list(sps)}, both models, training "
        "lengths 2sp+1, 3sp and 3sp+2, Range/Int64/monthly Period index at several starts (incl. negative), every stretch start from sp+1 before "
        "to 2sp+3 after the training series x every length <= 2sp+2, then 1-3 update calls (contiguous, gapped, overlapping; update_params "
        "both) and the sweep again; set_params+refit; Detrender (default, polynomial degree 1-3, no intercept) training n in 6..12, all "
        "stretch starts x lengths 1,2,3,6, contiguous updates; BoxCoxTransformer mle/pearsonr x bounds None,(0,1),(-1,2) and LogTransformer "
        "(Series and DataFrame, zeros/negatives give non-finite values); TabularToSeriesAdaptor over 10 sklearn transformers (Series, DataFrame); "
        "OptionalPassthrough over 7 inner transformers x 8 call sequences (fresh, set_params with and without refit, refit elsewhere); integer "
        "index shift (bases 0 and 3, shifts -4..1000) and fit_transform for 60-90 configurations of every series transformer in the listed files "
        "(+CosineTransformer; HampelFilter windows 3..11, n_sigma 1-3; all Imputer methods; ACF/PACF compared by value only, their output is "
        "indexed by lag). Not covered: DatetimeIndex (Detrender/Imputer cannot run on it under the shim), non-polynomial forecasters inside "
        "Detrender, Imputer('random') without random_state, MatrixProfileTransformer.")
    kinds = ["range", "int64", "period"]
    starts = [0, 5, -7, 100, 3]

    # A. deseasonalizer alignment
    k = 0
    for sp in sps:
        for model in ("additive", "multiplicative"):
            for n_train in sorted(set([2 * sp + 1, 3 * sp, 3 * sp + 2])):
                if quick and n_train == 3 * sp and sp > 2:
                    continue
                k += 1
                kind, l0 = kinds[k % 3], starts[k % 5]
                ups = [[(n_train, 3, False)], [(n_train + 1, sp + 1, True)], [(n_train - 2, 4, True), (n_train + 2, 1, False)],
                       [(1, 2, False), (n_train, sp, True), (n_train + sp, 2, True)]][k % 4]
                big = sp >= 6
                check_deseason(R, "plain", model, sp, n_train, kind, l0, rng, updates=ups,
                               lengths=None if not big else [1, 2, 3, sp - 1, sp, sp + 1, 2 * sp - 1, 2 * sp + 1, 2 * sp + 2],
                               starts_step=1)
                if quick and n_train != 3 * sp + 2:
                    continue
                for variant in ("cond-true", "cond-false", "cond-default"):
                    k += 1
                    check_deseason(R, variant, model, sp, n_train, kinds[k % 3], starts[k % 5], rng,
                                   lengths=sorted(set([1, 2, max(1, sp - 1), sp, sp + 1, 2 * sp + 1])), updates=ups[:2])
    for (a, b) in ([(4, 3), (2, 5)] if quick else [(4, 3), (2, 5), (3, 4), (5, 2), (1, 7)]):
        for model in ("additive", "multiplicative"):
            k += 1
            check_deseason_reconfigured(R, rng, a, b, model, kinds[k % 2], starts[k % 5])

    # B. detrender
    cfgs = [(1, True, False), (1, True, True), (2, True, True), (1, False, True), (3, True, True), (2, False, True)]
    for i, cfg in enumerate(cfgs if not quick else cfgs[:5]):
        for n_train in ((7, 10) if quick else (6, 7, 9, 12)):
            for j, ups in enumerate([[(2, True)], [(1, False), (3, True)], [(3, False)]]):
                if quick and (i + j + n_train) % 3 != 0:
                    continue
                k += 1
                check_detrender(R, cfg, n_train, kinds[k % 3], starts[k % 5], rng, updates=ups)

    # C. Box-Cox and log
    for method in ("mle", "pearsonr"):
        for bounds in (None, (0, 1), (-1, 2)):
            for n_train in ((8, 13) if quick else (6, 8, 13, 20)):
                k += 1
                check_boxcox(R, method, bounds, n_train, kinds[k % 3], starts[k % 5], rng)
    pass  # method="all" (two lambdas) is a leftover of the vendored scipy code, not a configuration of the transformer: not checked
    for n in ((6, 11) if quick else (6, 9, 11, 16)):
        for frame in (False, True):
            for kind in kinds:
                k += 1
                check_log(R, n, kind, starts[k % 5], rng, frame)

    # D. tabular adaptor
    for case in adaptor_cases():
        for n_train in ((9,) if quick else (6, 9, 14)):
            for frame in (False, True):
                k += 1
                check_adaptor(R, case, n_train, kinds[k % 3], starts[k % 5], rng, frame)
    check_adaptor_without_inverse(R)

    # E. optional passthrough call sequences
    for sp in ((3,) if quick else (2, 3, 4)):
        for inner in passthrough_inners(sp):
            k += 1
            check_passthrough(R, inner, sp, kinds[k % 3], starts[k % 5], rng)

    # F. every series transformer: integer shift, fit_transform, tag
    shifts = [1, 2, 3, 4, 6, 9, -4, 1000] if quick else [1, 2, 3, 4, 5, 6, 7, 9, 12, 17, -1, -4, -30, 1000]
    for entry in catalogue(tier):
        sizes = [(26, 17)] if quick else [(26, 17), (33, 20), (21 + pyr.randrange(0, 4), 15)]
        for (n, n_train) in sizes:
            check_generic(R, entry, rng, n, n_train, bases=(0, 3), shifts=shifts, int_kinds=("range", "int64"))
    return R.result()


def replay(rec):
    m = rec.get("model") or {}
    target, case = str(rec.get("target", "")), str(rec.get("case", ""))
    R = Recorder("replay")
    rng = np.random.RandomState(7)

    def pick(names, default):
        for nm in names:
            if nm in m:
                return mint(m, nm, default)
        return default

    sp = min(max(pick(["sp", "self.sp", "period"], 4), 1), 12)
    l0 = max(min(pick(["l0", "phase0", "y.index[0]", "start", "z.index[0]"], 3), 10 ** 6), -10 ** 6)
    c = pick(["c", "shift", "delta", "k"], 0) or (l0 if l0 else 3)
    c = max(min(c, 10 ** 6), -10 ** 6) or 3
    model = "multiplicative" if "mult" in (case + target).lower() else "additive"
    inp = {"sp": sp, "model": model, "index_start": l0, "shift": c}
    low = (target + " " + case).lower()
    ran = False
    if "seasonal" in low or "align" in low:
        ran = True
        for mdl in (model, "multiplicative" if model == "additive" else "additive"):
            for n_train in (2 * sp + 1, 3 * sp + 2):
                check_deseason(R, "plain", mdl, sp, n_train, "range", l0, rng, updates=[(n_train + 1, sp + 1, True), (n_train - 2, 4, False)])
        check_deseason(R, "cond-true", model, sp, 3 * sp + 2, "int64", l0, rng, updates=[(3 * sp + 3, 2, False)])
    if "detrend" in low and "seasonal" not in low:
        ran = True
        for cfg in [(1, True, False), (2, True, True), (1, False, True)]:
            check_detrender(R, cfg, 8, "range", l0, rng, updates=[(2, True), (1, False)])
    if "boxcox" in low or "log" in low:
        ran = True
        check_boxcox(R, "mle", None, 9, "range", l0, rng)
        check_log(R, 8, "int64", l0, rng, False)
    if "adapt" in low or "tabular" in low:
        ran = True
        for cs in adaptor_cases()[:4]:
            check_adaptor(R, cs, 9, "range", l0, rng, False)
    if "passthrough" in low or "compose" in low or not ran:
        for inner in passthrough_inners(min(sp, 4) if sp > 1 else 3):
            check_passthrough(R, inner, min(sp, 4) if sp > 1 else 3, "range", l0, rng)
    if "hampel" in low or "outlier" in low or "imput" in low or "acf" in low or "shift" in low or not ran:
        for entry in catalogue("quick"):
            if ran and not any(w in entry[0].lower() for w in ("hampel", "imputer", "correlation")) and "shift" not in low:
                continue
            check_generic(R, entry, rng, 26, 17, bases=(0,), shifts=sorted(set([c, 1, 3, 7])), int_kinds=("range", "int64"))
    if not ran:
        check_deseason(R, "plain", model, sp, 3 * sp + 2, "range", l0, rng, updates=[(3 * sp + 3, sp + 1, True)])
    f = R.failures
    return {"reproduced": bool(f), "detail": f[:3], "input": inp}
