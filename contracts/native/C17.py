"""C17 native oracle: classifier probabilities / predictions on the real code.

Families (every one runs the library's own fit / predict_proba / predict / score):

* generic clauses for every runnable classifier (TimeSeriesForestClassifier, RandomIntervalSpectralForest,
  SupervisedTimeSeriesForest, IndividualBOSS, BOSSEnsemble, ContractableBOSS, IndividualTDE,
  TemporalDictionaryEnsemble, MUSE, ColumnEnsembleClassifier, and BaseClassifier.predict/score through a table
  classifier): shape, range, row sums, classes_ = training label set, predict in the label set / of the user's type /
  attaining the row maximum, score = fraction of matching predictions.
* "columns ordered like classes_": the probabilities are recomputed from the fitted parts (trees / ensemble members),
  each part's output being credited to the column of its LABEL in classes_.
* time series forest (classifier and regressor): mean / std / least-squares slope of the fitted intervals recomputed
  in plain numpy, then averaged over `estimators_`; `_transform` and `_slope` also checked on all intervals directly.
* column ensemble: every member is re-fitted here (clone) on its own columns with the encoded labels and the plain
  mean of the members' probabilities is the expectation; "drop" entries / empty selections / every column-spec type /
  refit / set_params-then-refit / remainder.

The forest constructors do not run under the installed scikit-learn (`base_estimator` keyword): the objects are made
with `__new__` and the constructor attributes are set by hand (constructor is tried first).
"""
import itertools
import warnings

import numpy as np
import pandas as pd

from .common import Recorder, ints_from_model, mint

TOL = 1e-9

LABELSETS = {
    2: [[0, 1], ["no", "yes"], [7, -5], [True, False], [2.0, 1.0]],
    3: [[3, 10, 42], ["ant", "bee", "cat"], [42, 3, 10], [-7, 0, 10 ** 6], ["c", "a", "b"], [2.0, 5.0, 9.0]],
    4: [[11, 5, 8, 2], ["d", "a", "c", "b"], [0, 1, 2, 3]],
}
BALANCES = ["balanced", "rare-middle", "rare-first", "rare-last", "skewed"]


# ----------------------------------------------------------------------------------------------------------------
# data
# ----------------------------------------------------------------------------------------------------------------
def make_panel(rng, cls_idx, L, kind, noise=0.4):
    """2d array (instances x time); the class index decides where / how the signal sits"""
    cls_idx = np.asarray(cls_idx)
    t = np.arange(L)
    c = cls_idx[:, None].astype(float)
    A = rng.normal(scale=noise, size=(len(cls_idx), L))
    h = min(4, L)
    if kind == "head":
        A[:, :h] += 3.0 * c
    elif kind == "tail":
        A[:, L - h:] += 3.0 * c
    elif kind == "level":
        A += 2.0 * c
    elif kind == "trend":
        A += 4.0 * c * t[None, :] / L
    elif kind == "shape":
        A += 3.0 * np.sin(2 * np.pi * c * t[None, :] / L) + 0.5 * c
    else:
        raise KeyError(kind)
    return A


def class_pattern(rng, k, n, balance):
    if balance == "balanced":
        idx = np.arange(n) % k
    elif balance == "skewed":
        idx = np.array([min(k - 1, int(v)) for v in np.floor(k * (np.arange(n) / n) ** 2)])
        idx[:k] = np.arange(k)
    else:
        rare = {"rare-first": 0, "rare-middle": k // 2 if k > 2 else 1, "rare-last": k - 1}[balance]
        others = [c for c in range(k) if c != rare]
        idx = np.array([rare] + [others[i % len(others)] for i in range(n - 1)])
    idx = np.array(idx)
    rng.shuffle(idx)
    return idx


def nested(A, index_start=0, name=None):
    from sktime.utils.data_processing import from_2d_array_to_nested
    X = from_2d_array_to_nested(np.asarray(A, dtype=float))
    if name is not None:
        X.columns = [name]
    if index_start:
        X.index = np.arange(index_start, index_start + len(X))
    return X


def as_y(labels, idx, container, start=100):
    vals = [labels[i] for i in idx]
    if container == "series":
        return pd.Series(vals, index=np.arange(start, start + len(vals)))
    if container == "object":
        return np.array(vals, dtype=object)
    return np.array(vals)


def plain(v):
    """python values of a label container"""
    return np.asarray(v).tolist()


def problem(seed, k, n, n_test, L, kind, balance, labels, container="ndarray", offset=0, ncols=1):
    rng = np.random.RandomState(seed)
    idx = class_pattern(rng, k, n, balance)
    tidx = rng.randint(0, k, size=n_test)
    tidx[:k] = np.arange(k)
    kinds = [kind] + ["level", "shape", "head"][: ncols - 1]
    cols_tr, cols_te, arrs_tr, arrs_te = {}, {}, [], []
    for j, kd in enumerate(kinds):
        A, At = make_panel(rng, idx, L, kd), make_panel(rng, tidx, L, kd)
        arrs_tr.append(A)
        arrs_te.append(At)
        cols_tr["dim%d" % j] = nested(A).iloc[:, 0]
        cols_te["dim%d" % j] = nested(At).iloc[:, 0]
    X, Xt = pd.DataFrame(cols_tr), pd.DataFrame(cols_te)
    if offset:
        X.index = np.arange(offset, offset + n)
        Xt.index = np.arange(3 * offset + n_test, 3 * offset, -1)
    y, yt = as_y(labels, idx, container), as_y(labels, tidx, container, start=7)
    desc = (f"seed={seed} k={k} labels={labels} ({container}) balance={balance} class_idx={idx.tolist()} "
            f"n_test={n_test} length={L} signal={kinds} index_offset={offset}")
    return dict(X=X, y=y, Xt=Xt, yt=yt, A=arrs_tr, At=arrs_te, idx=idx, tidx=tidx, labels=labels, desc=desc, k=k, L=L)


# ----------------------------------------------------------------------------------------------------------------
# generic clauses
# ----------------------------------------------------------------------------------------------------------------
def same_label(a, b):
    return type(a) is type(b) and a == b


def generic_checks(R, name, clf, P, desc, want_proba=None, want_key=None, want_what=""):
    """all clauses that hold for every classifier; returns (classes, proba, pred) or None if something raised"""
    Xt, yt = P["Xt"], P["yt"]
    train = []
    for v in plain(P["y"]):
        if not any(same_label(v, w) for w in train):
            train.append(v)
    n = Xt.shape[0]
    try:
        with warnings.catch_warnings():
            warnings.simplefilter("ignore")
            proba = np.asarray(clf.predict_proba(Xt))
            pred = clf.predict(Xt)
            score = clf.score(Xt, yt)
            classes = np.asarray(clf.classes_)
    except Exception as e:
        R.check("runs", False, f"{name} {desc}: predict_proba/predict/score raised {type(e).__name__}: {e}")
        return None
    R.check("runs", True, "")
    cl = classes.tolist()
    ok = len(cl) == len(train) and all(any(same_label(c, v) for v in train) for c in cl)
    R.check("classes-are-training-labels", ok, f"{name} {desc}: classes_={cl!r} but the training label set is {train!r}")
    ok_shape = proba.shape == (n, len(train))
    R.check("proba-shape", ok_shape, f"{name} {desc}: predict_proba shape {proba.shape}, expected ({n}, {len(train)})")
    if not ok_shape:
        return None
    okr = bool(np.all(np.isfinite(proba)) and np.all(proba >= -1e-12) and np.all(proba <= 1 + 1e-12))
    R.check("proba-in-unit-interval", okr, f"{name} {desc}: predict_proba has entries outside [0,1]: min={np.nanmin(proba)} max={np.nanmax(proba)} "
                                           f"nan={int(np.isnan(proba).sum())}")
    sums = proba.sum(axis=1)
    R.check("proba-rows-sum-to-one", bool(np.allclose(sums, 1.0, atol=1e-9)),
            f"{name} {desc}: row sums {np.round(sums, 6).tolist()}")
    pl = plain(pred)
    R.check("predict-one-per-instance", len(pl) == n, f"{name} {desc}: predict returned {len(pl)} labels for {n} instances")
    if len(pl) != n:
        return None
    bad = [i for i, p in enumerate(pl) if not any(p == v for v in train)]
    R.check("predict-in-training-labels", not bad, f"{name} {desc}: predict returned {[pl[i] for i in bad][:4]!r} (instances {bad[:4]}), "
                                                  f"not in the training label set {train!r}")
    badt = [i for i, p in enumerate(pl) if not any(same_label(p, v) for v in train)]
    R.check("predict-label-type", not badt, f"{name} {desc}: predict returned {[(pl[i], type(pl[i]).__name__) for i in badt][:3]!r}, "
                                            f"user labels are {[(v, type(v).__name__) for v in train]!r}")
    if not bad and ok:
        col = lambda p: [j for j, c in enumerate(cl) if c == p][0]      # noqa: E731
        notmax = [i for i, p in enumerate(pl) if proba[i, col(p)] < proba[i].max() - 1e-12]
        i = notmax[0] if notmax else 0
        R.check("predict-attains-max-proba", not notmax,
                f"{name} {desc}: instance {i}: predict={pl[i]!r} but predict_proba row is {np.round(proba[i], 6).tolist()} over classes_={cl!r}")
    ytl = plain(yt)
    frac = sum(1 for p, t in zip(pl, ytl) if p == t) / float(n)
    R.check("score-is-fraction-correct", abs(float(score) - frac) <= 1e-12,
            f"{name} {desc}: score={score} but {frac} of the predictions {pl!r} match y={ytl!r}")
    if want_proba is not None:
        okw = want_proba.shape == proba.shape and bool(np.allclose(proba, want_proba, atol=TOL))
        i = int(np.argmax(np.abs(proba - want_proba).max(axis=1))) if want_proba.shape == proba.shape else 0
        R.check(want_key, okw, f"{name} {desc}: instance {i}: predict_proba={np.round(proba[i], 6).tolist()} but {want_what} gives "
                               f"{np.round(want_proba[i], 6).tolist()} over classes_={cl!r}")
    return classes, proba, pred


def credit(classes, parts_labels, parts_proba, weights=None):
    """sum_k w_k * proba_k, every column of part k credited to the column of ITS label in `classes`; / sum w"""
    cl = classes.tolist()
    n = parts_proba[0].shape[0]
    out = np.zeros((n, len(cl)))
    weights = [1.0] * len(parts_proba) if weights is None else list(weights)
    for w, labs, p in zip(weights, parts_labels, parts_proba):
        for j, lab in enumerate(labs):
            out[:, cl.index(lab)] += w * p[:, j]
    return out / float(np.sum(weights))


def onehot_votes(member_preds, weights, classes):
    cl = classes.tolist()
    n = len(member_preds[0])
    out = np.zeros((n, len(cl)))
    for w, preds in zip(weights, member_preds):
        for i, lab in enumerate(plain(preds)):
            out[i, cl.index(lab)] += w
    return out / float(np.sum(weights))


# ----------------------------------------------------------------------------------------------------------------
# forests
# ----------------------------------------------------------------------------------------------------------------
def by_hand(cls, attrs):
    est = cls.__new__(cls)
    for k, v in attrs.items():
        setattr(est, k, v)
    est._is_fitted = False
    return est


def make_tsf(cls, n_estimators, min_interval, random_state):
    try:
        return cls(n_estimators=n_estimators, min_interval=min_interval, random_state=random_state, n_jobs=1)
    except TypeError:
        return by_hand(cls, dict(base_estimator=cls._base_estimator, n_estimators=n_estimators, min_interval=min_interval,
                                 random_state=random_state, n_jobs=1, n_classes=0, series_length=0, n_intervals=0,
                                 estimators_=[], intervals_=[], classes_=[]))


def make_rise(n_estimators, min_interval, acf_lag, acf_min_values, random_state):
    from sklearn.tree import DecisionTreeClassifier
    from sktime.classification.interval_based import RandomIntervalSpectralForest as cls
    kw = dict(n_estimators=n_estimators, min_interval=min_interval, acf_lag=acf_lag, acf_min_values=acf_min_values,
              n_jobs=None, random_state=random_state)
    try:
        return cls(**kw)
    except TypeError:
        return by_hand(cls, dict(base_estimator=DecisionTreeClassifier(random_state=random_state), **kw))


def make_stsf(n_estimators, random_state):
    from scipy import stats
    from sklearn.tree import DecisionTreeClassifier
    from sktime.classification.interval_based import SupervisedTimeSeriesForest as cls
    from sktime.utils.slope_and_trend import _slope
    try:
        return cls(n_estimators=n_estimators, random_state=random_state, n_jobs=1)
    except TypeError:
        return by_hand(cls, dict(base_estimator=DecisionTreeClassifier(criterion="entropy"), n_estimators=n_estimators,
                                 random_state=random_state, n_jobs=1, n_classes=0, estimators_=[], intervals_=[], classes_=[],
                                 stats=[np.mean, np.median, np.std, _slope, stats.iqr, np.min, np.max]))


def interval_features(A, intervals):
    """independent: mean, population standard deviation, least-squares slope (against time) of every interval"""
    A = np.asarray(A, dtype=float)
    cols = []
    for s, e in np.asarray(intervals).tolist():
        S = A[:, s:e]
        m = S.shape[1]
        mean = S.sum(axis=1) / m
        dev = S - mean[:, None]
        std = np.sqrt((dev * dev).sum(axis=1) / m)
        t = np.arange(m, dtype=float) - (m - 1) / 2.0
        slope = (dev * t[None, :]).sum(axis=1) / (t * t).sum()
        cols += [mean, std, slope]
    return np.asarray(cols).T.astype(np.float32)


def fit_quiet(est, X, y):
    with warnings.catch_warnings():
        warnings.simplefilter("ignore")
        return est.fit(X, y)


def tsf_case(R, P, n_estimators, min_interval, rs, refit_from=None):
    from sktime.classification.interval_based import TimeSeriesForestClassifier
    name = f"TimeSeriesForestClassifier(n_estimators={n_estimators}, min_interval={min_interval}, random_state={rs})"
    desc = P["desc"]
    clf = make_tsf(TimeSeriesForestClassifier, n_estimators, min_interval, rs)
    try:
        if refit_from is not None:
            fit_quiet(clf, refit_from["X"], refit_from["y"])
            desc += " [second fit of the same object; first fit: " + refit_from["desc"] + "]"
        fit_quiet(clf, P["X"], P["y"])
    except Exception as e:
        R.check("runs", False, f"{name} {desc}: fit raised {type(e).__name__}: {e}")
        return
    L = P["L"]
    ivs = [np.asarray(iv) for iv in clf.intervals_]
    inside = all(iv.ndim == 2 and iv.shape[1] == 2 and np.all(iv[:, 0] >= 0) and np.all(iv[:, 1] <= L) and np.all(iv[:, 1] - iv[:, 0] >= 1)
                 for iv in ivs) and len(ivs) == len(clf.estimators_) and len(ivs) > 0
    R.check("tsf-intervals-within-series", inside, f"{name} {desc}: intervals_={[iv.tolist() for iv in ivs][:3]} for series length {L}")
    if not inside:
        return
    classes = np.asarray(clf.classes_)
    want = None
    try:
        want = credit(classes, [t.classes_.tolist() for t in clf.estimators_],
                      [t.predict_proba(interval_features(P["At"][0], iv)) for t, iv in zip(clf.estimators_, ivs)])
    except Exception as e:
        R.check("tsf-average-of-trees", False, f"{name} {desc}: fitted trees cannot be evaluated on the interval features: {type(e).__name__}: {e}")
    generic_checks(R, name, clf, P, desc, want, "tsf-average-of-trees",
                   f"the mean of the {len(ivs)} fitted trees on numpy mean/std/slope of intervals_ (first tree: {ivs[0].tolist()})")


def tsr_case(R, P, n_estimators, min_interval, rs):
    from sktime.regression.interval_based import TimeSeriesForestRegressor
    name = f"TimeSeriesForestRegressor(n_estimators={n_estimators}, min_interval={min_interval}, random_state={rs})"
    desc = P["desc"]
    rng = np.random.RandomState(rs + 17)
    y = P["idx"] * 2.5 + rng.normal(scale=0.2, size=len(P["idx"])) + 0.3 * P["A"][0][:, :3].sum(axis=1)
    reg = make_tsf(TimeSeriesForestRegressor, n_estimators, min_interval, rs)
    try:
        fit_quiet(reg, P["X"], y)
        got = np.asarray(reg.predict(P["Xt"]), dtype=float)
    except Exception as e:
        R.check("runs", False, f"{name} {desc}: fit/predict raised {type(e).__name__}: {e}")
        return
    ivs = [np.asarray(iv) for iv in reg.intervals_]
    want = np.mean([t.predict(interval_features(P["At"][0], iv)) for t, iv in zip(reg.estimators_, ivs)], axis=0)
    ok = got.shape == (P["Xt"].shape[0],) and bool(np.allclose(got, want, atol=TOL))
    i = int(np.argmax(np.abs(got - want))) if got.shape == want.shape else 0
    R.check("tsf-regressor-average-of-trees", ok,
            f"{name} {desc} y={np.round(y, 3).tolist()}: predict shape {got.shape}; instance {i}: predict={got.flat[i] if got.size else None} "
            f"but the mean of the fitted trees on numpy mean/std/slope of intervals_ is {want[i]} (first tree: {ivs[0].tolist()})")


def transform_direct(R, Ls, seed, intervals=None, rows=None):
    """`_transform` on every interval of short series; `_slope` against the polynomial least-squares fit"""
    try:
        from sktime.series_as_features.base.estimators.interval_based._tsf import _transform
    except Exception:
        _transform = None
    try:
        from sktime.utils.slope_and_trend import _slope
    except Exception:
        _slope = None
    rng = np.random.RandomState(seed)
    for L in Ls:
        A = rng.normal(size=(4, L)) * 3
        A[1] += 50.0
        A[2] = np.round(A[2])
        if rows is not None:
            A = np.vstack([A, np.asarray(rows, dtype=float).reshape(1, -1)[:, :L]]) if len(rows) >= L else A
        allint = [(s, e) for s in range(L) for e in range(s + 2, L + 1)] if intervals is None else list(intervals)
        if _transform is not None:
            groups = [[iv] for iv in allint]
            perm = [allint[i] for i in rng.permutation(len(allint))]
            groups += [perm, perm[: max(1, len(perm) // 2)][::-1] + perm[:2]]
            for g in groups:
                arr = np.array(g, dtype=int).reshape(-1, 2)
                try:
                    got = np.asarray(_transform(A, arr))
                    want = interval_features(A, arr)
                    ok = got.shape == want.shape and bool(np.allclose(got, want, rtol=1e-5, atol=1e-5))
                    j = int(np.argmax(np.abs(got - want).max(axis=0))) if got.shape == want.shape else 0
                    R.check("tsf-interval-features", ok,
                            f"_transform(X, intervals={arr.tolist() if len(arr) < 4 else str(arr[:3].tolist()) + '...'}) on a {A.shape} panel "
                            f"(row 0 = {np.round(A[0], 3).tolist()}): column {j} (interval {arr[j // 3].tolist()}, "
                            f"{['mean', 'std', 'slope'][j % 3]}) = {got[:, j].tolist() if got.shape == want.shape else got.shape}, numpy gives {want[:, j].tolist()}")
                except Exception as e:
                    R.check("tsf-interval-features", False, f"_transform(X {A.shape}, intervals={arr.tolist()[:4]}) raised {type(e).__name__}: {e}")
        if _slope is not None:
            for s, e in allint:
                S = A[:, s:e]
                want = np.array([np.polyfit(np.arange(e - s), row, 1)[0] for row in S])
                try:
                    with warnings.catch_warnings():
                        warnings.simplefilter("ignore")
                        g1 = np.asarray(_slope(S, axis=1), dtype=float).ravel()
                        g0 = np.asarray(_slope(S.T.copy(), axis=0), dtype=float).ravel()
                        gv = np.asarray(_slope(S[0].copy(), axis=0), dtype=float).ravel()
                    ok = g1.shape == want.shape and np.allclose(g1, want, atol=1e-8) and np.allclose(g0, want, atol=1e-8) \
                        and gv.shape == (1,) and np.allclose(gv, want[:1], atol=1e-8)
                    R.check("slope-is-least-squares", bool(ok), f"_slope of rows {np.round(S, 3).tolist()}: axis=1 {g1.tolist()}, transposed axis=0 {g0.tolist()}, "
                                                               f"1d {gv.tolist()}; least squares slope {want.tolist()}")
                except Exception as ex:
                    R.check("slope-is-least-squares", False, f"_slope on a {S.shape} slice raised {type(ex).__name__}: {ex}")


def rise_case(R, P, n_estimators, min_interval, acf_lag, acf_min_values, rs):
    name = (f"RandomIntervalSpectralForest(n_estimators={n_estimators}, min_interval={min_interval}, acf_lag={acf_lag}, "
            f"acf_min_values={acf_min_values}, random_state={rs})")
    clf = make_rise(n_estimators, min_interval, acf_lag, acf_min_values, rs)
    try:
        fit_quiet(clf, P["X"], P["y"])
    except Exception as e:
        R.check("runs", False, f"{name} {P['desc']}: fit raised {type(e).__name__}: {e}")
        return
    want = None
    try:
        from sktime.classification.interval_based._rise import _transform as rise_transform
        with warnings.catch_warnings():
            warnings.simplefilter("ignore")
            want = credit(np.asarray(clf.classes_), [t.classes_.tolist() for t in clf.estimators_],
                          [t.predict_proba(rise_transform(P["At"][0], clf.intervals[i], clf.lags[i])) for i, t in enumerate(clf.estimators_)])
    except Exception:
        want = None
    generic_checks(R, name, clf, P, P["desc"], want, "proba-columns-ordered-like-classes",
                   "crediting every fitted tree's probabilities to the columns of the tree's own class labels (mean over trees)")


def stsf_case(R, P, n_estimators, rs):
    name = f"SupervisedTimeSeriesForest(n_estimators={n_estimators}, random_state={rs})"
    desc = P["desc"]
    clf = make_stsf(n_estimators, rs)
    try:
        fit_quiet(clf, P["X"], P["y"])
    except Exception as e:
        R.check("runs", False, f"{name} {desc}: fit raised {type(e).__name__}: {e}")
        return
    k = len(set(map(repr, plain(P["y"]))))
    short = [len(t.classes_) for t in clf.estimators_ if len(t.classes_) < k]
    if short:
        # genuine defect of the unchanged tree: a bootstrap bag that misses a class gives a tree with fewer probability
        # columns and predict_proba adds the ragged per-tree arrays
        try:
            with warnings.catch_warnings():
                warnings.simplefilter("ignore")
                p = np.asarray(clf.predict_proba(P["Xt"]))
            ok = p.shape == (P["Xt"].shape[0], k) and np.allclose(p.sum(axis=1), 1.0)
            obs = f"returned shape {p.shape}, row sums {np.round(p.sum(axis=1), 4).tolist() if p.ndim == 2 else '-'}"
        except Exception as e:
            ok, obs = False, f"raised {type(e).__name__}: {e}"
        if not ok:
            R.check("KF:stsf-bootstrap-bag-misses-class", False,
                    f"{name} {desc}: {len(short)} of {n_estimators} trees were fitted on a bootstrap bag lacking a class "
                    f"(tree class counts {[len(t.classes_) for t in clf.estimators_]}, {k} classes in training); predict_proba {obs}")
            return
    want = None
    try:
        from scipy import signal
        At = P["At"][0]
        _, Xp = signal.periodogram(At)
        Xd = np.diff(At, 1)
        with warnings.catch_warnings():
            warnings.simplefilter("ignore")
            parts = []
            for t, iv in zip(clf.estimators_, clf.intervals_):
                F = np.concatenate([clf._transform(At, iv[0]), clf._transform(Xp, iv[1]), clf._transform(Xd, iv[2])], axis=1)
                parts.append(t.predict_proba(F))
        want = credit(np.asarray(clf.classes_), [t.classes_.tolist() for t in clf.estimators_], parts)
    except Exception:
        want = None
    generic_checks(R, name, clf, P, desc, want, "proba-columns-ordered-like-classes",
                   "crediting every fitted tree's probabilities to the columns of the tree's own class labels (mean over trees)")


# ----------------------------------------------------------------------------------------------------------------
# dictionary based
# ----------------------------------------------------------------------------------------------------------------
def member_votes(clf, Xt):
    members = list(clf.classifiers)
    weights = list(getattr(clf, "weights", None) or [1.0] * len(members))
    with warnings.catch_warnings():
        warnings.simplefilter("ignore")
        preds = [m.predict(Xt) for m in members]
    return onehot_votes(preds, weights, np.asarray(clf.classes_)), members


def dictionary_case(R, which, P, rs, params, refit_from=None):
    from sktime.classification.dictionary_based import (MUSE, BOSSEnsemble, ContractableBOSS, IndividualBOSS,
                                                        TemporalDictionaryEnsemble)
    from sktime.classification.dictionary_based._tde import IndividualTDE
    desc = P["desc"]
    if which == "IndividualBOSS":
        clf = IndividualBOSS(random_state=rs, **params)
    elif which == "IndividualTDE":
        clf = IndividualTDE(random_state=rs, **params)
    elif which == "BOSSEnsemble":
        clf = BOSSEnsemble(random_state=rs, **params)
    elif which == "ContractableBOSS":
        clf = ContractableBOSS(random_state=rs, **params)
    elif which == "TemporalDictionaryEnsemble":
        clf = TemporalDictionaryEnsemble(random_state=rs, **params)
        clf.igb_options = [False]      # information-gain binning does not run under the installed scikit-learn
    elif which == "MUSE":
        clf = MUSE(random_state=rs, **params)
    else:
        raise KeyError(which)
    name = f"{which}({', '.join(f'{k}={v}' for k, v in params.items())}, random_state={rs})"
    try:
        if refit_from is not None:
            fit_quiet(clf, refit_from["X"], refit_from["y"])
            desc += " [second fit of the same object; first fit: " + refit_from["desc"] + "]"
        fit_quiet(clf, P["X"], P["y"])
    except Exception as e:
        R.check("runs", False, f"{name} {desc}: fit raised {type(e).__name__}: {e}")
        return
    want, what = None, ""
    if which in ("BOSSEnsemble", "ContractableBOSS", "TemporalDictionaryEnsemble"):
        try:
            want, members = member_votes(clf, P["Xt"])
            k = len(np.asarray(clf.classes_))
            partial = [np.asarray(m.classes_).tolist() for m in members if len(np.asarray(m.classes_)) < k]
            what = (f"the weighted vote of the {len(members)} fitted members (each member's predicted LABEL credited to that label's column; "
                    f"weights {np.round(getattr(clf, 'weights', None) or [1.0] * len(members), 4).tolist()}; members fitted on a subsample lacking a class saw {partial})")
        except Exception as e:
            R.check("runs", False, f"{name} {desc}: a fitted member's predict raised {type(e).__name__}: {e}")
            return
    elif which == "MUSE":
        try:
            inner = clf.clf
            with warnings.catch_warnings():
                warnings.simplefilter("ignore")
                p = inner.predict_proba(clf._transform_words(P["Xt"]))
            want = credit(np.asarray(clf.classes_), [np.asarray(inner.classes_).tolist()], [p])
            what = "crediting the fitted linear model's probabilities to the columns of the model's own class labels"
        except Exception:
            want = None
    generic_checks(R, name, clf, P, desc, want, "proba-columns-ordered-like-classes", what)


# ----------------------------------------------------------------------------------------------------------------
# BaseClassifier.predict / score through a table classifier
# ----------------------------------------------------------------------------------------------------------------
def table_classifier():
    from sklearn.preprocessing import LabelEncoder
    from sktime.classification.base import BaseClassifier
    from sktime.utils.data_processing import from_nested_to_3d_numpy

    class TableClassifier(BaseClassifier):
        """probabilities are read from a table; the first value of a series is the row number"""

        def __init__(self, table=None):
            self.table = table
            super(TableClassifier, self).__init__()

        def fit(self, X, y):
            self.label_encoder = LabelEncoder().fit(y)
            self.classes_ = self.label_encoder.classes_
            self._is_fitted = True
            return self

        def predict_proba(self, X):
            A = X if isinstance(X, np.ndarray) else from_nested_to_3d_numpy(X)
            return np.asarray(self.table)[np.round(A[:, 0, 0]).astype(int)]

    return TableClassifier


def base_case(R, labels, container, grid, seed, offset=0):
    k = len(labels)
    rows = [np.array(c) / float(grid) for c in itertools.product(range(grid + 1), repeat=k) if sum(c) == grid]
    rng = np.random.RandomState(seed)
    order = rng.permutation(len(rows))
    table = np.array(rows)
    n = len(rows)
    A = np.zeros((n, 3))
    A[:, 0] = order
    Xt = nested(A, index_start=offset)
    idx_tr = np.arange(2 * k) % k
    X = nested(np.zeros((2 * k, 3)))
    y = as_y(labels, idx_tr, container)
    desc = f"labels={labels} ({container}) seed={seed}: table classifier over all probability rows with entries in multiples of 1/{grid}"
    clf = table_classifier()(table=table)
    try:
        clf.fit(X, y)
        pred = plain(clf.predict(Xt))
    except Exception as e:
        R.check("runs", False, f"BaseClassifier.predict {desc}: raised {type(e).__name__}: {e}")
        return
    srt = sorted(labels)        # classes_ of a label encoder: sorted labels; column j belongs to srt[j]
    bad = [i for i in range(n) if not (any(same_label(pred[i], v) for v in labels) and
                                       table[order[i], srt.index(pred[i])] >= table[order[i]].max() - 1e-12)]
    i = bad[0] if bad else 0
    R.check("base-predict-attains-max-proba", len(pred) == n and not bad,
            f"BaseClassifier.predict {desc}: instance {i} with probabilities {table[order[i]].tolist()} over {srt!r} -> {pred[i] if pred else None!r}")
    # score on tie-free rows only: the expected value does not depend on how ties are broken
    free = [i for i in range(n) if np.sum(table[order[i]] == table[order[i]].max()) == 1]
    for frac_wrong in (0.0, 0.4, 1.0):
        truth = []
        for pos, i in enumerate(free):
            best = srt[int(np.argmax(table[order[i]]))]
            wrong = rng.rand() < frac_wrong if frac_wrong not in (0.0, 1.0) else bool(frac_wrong)
            truth.append(srt[(srt.index(best) + 1) % k] if wrong else best)
        expect = sum(1 for t, i in zip(truth, free) if t == srt[int(np.argmax(table[order[i]]))]) / float(len(free))
        A2 = np.zeros((len(free), 3))
        A2[:, 0] = [order[i] for i in free]
        try:
            got = clf.score(nested(A2, index_start=offset), as_y(truth, range(len(truth)), container))
            R.check("score-is-fraction-correct", abs(got - expect) <= 1e-12,
                    f"BaseClassifier.score {desc}: tie-free rows {[table[order[i]].tolist() for i in free][:4]}..., y={truth!r}: score={got}, expected {expect}")
        except Exception as e:
            R.check("runs", False, f"BaseClassifier.score {desc}: raised {type(e).__name__}: {e}")


# ----------------------------------------------------------------------------------------------------------------
# column ensemble
# ----------------------------------------------------------------------------------------------------------------
def stub_member():
    from sklearn.base import BaseEstimator as SkBase
    from sktime.utils.data_processing import from_nested_to_3d_numpy

    class SoftCentroid(SkBase):
        """panel classifier on (mean, std, first value) of every column; soft nearest class centroid"""

        def __init__(self, temp=1.0):
            self.temp = temp

        @staticmethod
        def _feat(X):
            A = from_nested_to_3d_numpy(X)
            return np.concatenate([A.mean(axis=2), A.std(axis=2), A[:, :, 0]], axis=1)

        def fit(self, X, y):
            F, y = self._feat(X), np.asarray(y)
            self.classes_ = np.unique(y)
            self.centroids_ = np.array([F[y == c].mean(axis=0) for c in self.classes_])
            return self

        def predict_proba(self, X):
            F = self._feat(X)
            d = ((F[:, None, :] - self.centroids_[None, :, :]) ** 2).sum(axis=2) / F.shape[1]
            w = np.exp(-(d - d.min(axis=1, keepdims=True)) / self.temp)
            return w / w.sum(axis=1, keepdims=True)

    return SoftCentroid


def resolve_columns(X, spec):
    """independent: positional indices selected by a column specification"""
    names = list(X.columns)
    ncols = len(names)
    if callable(spec):
        spec = spec(X)
    if isinstance(spec, (bool, np.bool_)):
        raise TypeError(spec)
    if isinstance(spec, (int, np.integer)):
        return [range(ncols)[int(spec)]]
    if isinstance(spec, str):
        return [names.index(spec)]
    if isinstance(spec, slice):
        if isinstance(spec.start, str) or isinstance(spec.stop, str):
            a = names.index(spec.start) if spec.start is not None else 0
            b = names.index(spec.stop) + 1 if spec.stop is not None else ncols
            return list(range(a, b))
        return list(range(ncols))[spec]
    arr = np.asarray(spec)
    if arr.size == 0:
        return []
    if arr.dtype.kind == "b":
        return np.flatnonzero(arr).tolist()
    if arr.dtype.kind in "US" or arr.dtype.kind == "O":
        return [names.index(v) for v in arr.tolist()]
    return [range(ncols)[int(v)] for v in arr.tolist()]


def spec_repr(spec):
    if callable(spec):
        return "callable->" + spec_repr(spec(None))
    if isinstance(spec, np.ndarray):
        return "array(" + repr(spec.tolist()) + ")"
    return repr(spec)


def est_repr(e):
    return e if isinstance(e, str) else repr(e).replace("\n", "").replace(" ", "")


class MemberCache:
    """expected member probabilities: clone fitted on the member's own columns with labels encoded 0..k-1"""

    def __init__(self, X, y, Xt):
        self.X, self.Xt = X, Xt
        labs = plain(y)
        self.sorted_labels = sorted(set(labs))
        self.y_enc = np.array([self.sorted_labels.index(v) for v in labs])
        self.memo = {}

    def proba(self, est, cols):
        from sklearn.base import clone
        key = (est_repr(est), tuple(cols))
        if key not in self.memo:
            with warnings.catch_warnings():
                warnings.simplefilter("ignore")
                m = clone(est).fit(self.X.iloc[:, list(cols)], self.y_enc)
                p = np.asarray(m.predict_proba(self.Xt.iloc[:, list(cols)]))
            full = np.zeros((p.shape[0], len(self.sorted_labels)))
            for j, c in enumerate(np.asarray(m.classes_).tolist()):
                full[:, int(c)] = p[:, j]
            self.memo[key] = full
        return self.memo[key]

    def average(self, entries):
        parts = []
        for _, est, spec in entries:
            cols = resolve_columns(self.X, spec)
            if isinstance(est, str) or len(cols) == 0:
                continue
            parts.append(self.proba(est, cols))
        return np.mean(parts, axis=0) if parts else None


def ce_problem(seed, labels, container, ncols, n, n_test, L, offset=0):
    k = len(labels)
    rng = np.random.RandomState(seed)
    idx = class_pattern(rng, k, n, "balanced" if seed % 2 == 0 else "rare-middle")
    tidx = rng.randint(0, k, size=n_test)
    names = ["alpha", "beta", "gamma", "delta"][:ncols]
    kinds = ["level", "head", "trend", "shape"]
    tr, te = {}, {}
    for j, nm in enumerate(names):
        sign = -1.0 if j % 2 else 1.0
        tr[nm] = nested(sign * (j + 1) * make_panel(rng, idx, L, kinds[j], noise=0.8)).iloc[:, 0]
        te[nm] = nested(sign * (j + 1) * make_panel(rng, tidx, L, kinds[j], noise=0.8)).iloc[:, 0]
    X, Xt = pd.DataFrame(tr), pd.DataFrame(te)
    if offset:
        X.index = np.arange(offset, offset + n)
        Xt.index = np.arange(offset + 50, offset + 50 + n_test)
    return dict(X=X, Xt=Xt, y=as_y(labels, idx, container), yt=as_y(labels, tidx, container, start=3), labels=labels,
                desc=f"seed={seed} labels={labels} ({container}) class_idx={idx.tolist()} columns={names} n_test={n_test} length={L} index_offset={offset}")


def ce_desc(entries, extra=""):
    return "estimators=[" + ", ".join(f"({n!r}, {est_repr(e)}, {spec_repr(s)})" for n, e, s in entries) + "]" + extra


def ce_case(R, P, cache, entries, generic=True, remainder=None):
    from sktime.classification.compose import ColumnEnsembleClassifier
    name = "ColumnEnsembleClassifier"
    desc = ce_desc(entries) + " " + P["desc"]
    want = cache.average(entries)
    if want is None:
        return None
    try:
        kw = {} if remainder is None else {"remainder": remainder}
        clf = ColumnEnsembleClassifier(estimators=list(entries), **kw)
        fit_quiet(clf, P["X"], P["y"])
    except Exception as e:
        R.check("runs", False, f"{name} {desc}: constructor/fit raised {type(e).__name__}: {e}")
        return None
    if remainder is not None:
        used = set()
        for _, _, spec in entries:
            used.update(resolve_columns(P["X"], spec))
        rest = [j for j in range(P["X"].shape[1]) if j not in used]
        desc += f" remainder={est_repr(remainder)} (unselected columns {rest})"
        if rest:
            with_rem = cache.average(list(entries) + [("remainder", remainder, rest)])
            try:
                with warnings.catch_warnings():
                    warnings.simplefilter("ignore")
                    got = np.asarray(clf.predict_proba(P["Xt"]))
            except Exception as e:
                R.check("runs", False, f"{name} {desc}: predict_proba raised {type(e).__name__}: {e}")
                return clf
            ok = got.shape == with_rem.shape and np.allclose(got, with_rem, atol=TOL)
            if not ok and got.shape == want.shape and np.allclose(got, want, atol=TOL):
                R.check("KF:column-ensemble-constructor-drops-remainder", False,
                        f"{name} {desc}: predict_proba row 0 = {np.round(got[0], 6).tolist()} is the average of the listed members only; with the remainder "
                        f"estimator on the unselected columns it would be {np.round(with_rem[0], 6).tolist()} (get_params()['remainder']={clf.get_params(deep=False).get('remainder')!r})")
                return clf
            want = with_rem
    if generic:
        generic_checks(R, name, clf, P, desc, want, "column-ensemble-average-of-members",
                       "the mean of the members' probabilities (each member re-fitted here on its own columns)")
    else:
        try:
            with warnings.catch_warnings():
                warnings.simplefilter("ignore")
                got = np.asarray(clf.predict_proba(P["Xt"]))
            ok = got.shape == want.shape and bool(np.allclose(got, want, atol=TOL))
            i = int(np.argmax(np.abs(got - want).max(axis=1))) if got.shape == want.shape else 0
            R.check("column-ensemble-average-of-members", ok,
                    f"{name} {desc}: instance {i}: predict_proba={np.round(got[i], 6).tolist() if got.ndim == 2 else got.shape} but the mean of the members' "
                    f"probabilities on their own columns is {np.round(want[i], 6).tolist()}")
        except Exception as e:
            R.check("runs", False, f"{name} {desc}: predict_proba raised {type(e).__name__}: {e}")
    return clf


def ce_reconfigure(R, P, P2, entries, new_entries, how):
    """fit, then change the configuration, fit again (on other data): the second fit must be a fit of the NEW members"""
    from sklearn.base import clone
    from sktime.classification.compose import ColumnEnsembleClassifier
    name = "ColumnEnsembleClassifier"
    # set_params mutates the member objects the caller handed over: keep an independent copy of the first configuration
    before = [(n, e if isinstance(e, str) else clone(e), c) for n, e, c in entries]
    try:
        clf = ColumnEnsembleClassifier(estimators=list(entries))
        fit_quiet(clf, P["X"], P["y"])
        clf.predict_proba(P["Xt"])
        if how == "refit":
            pass
        elif how == "set_params-estimators":
            clf.set_params(estimators=list(new_entries))
        elif how == "set_params-nested":
            for (n0, e0, _), (n1, e1, _) in zip(entries, new_entries):
                if not isinstance(e0, str) and e0.temp != e1.temp:
                    clf.set_params(**{n0 + "__temp": e1.temp})
        elif how == "set_params-replace":
            for (n0, e0, _), (n1, e1, _) in zip(entries, new_entries):
                if est_repr(e0) != est_repr(e1):
                    clf.set_params(**{n0: e1})
        fit_quiet(clf, P2["X"], P2["y"])
        with warnings.catch_warnings():
            warnings.simplefilter("ignore")
            got = np.asarray(clf.predict_proba(P2["Xt"]))
    except Exception as e:
        R.check("runs", False, f"{name} {ce_desc(before)} then {how} -> {ce_desc(new_entries)}: raised {type(e).__name__}: {e}")
        return
    cache2 = MemberCache(P2["X"], P2["y"], P2["Xt"])
    want, stale = cache2.average(new_entries), cache2.average(before)
    desc = (f"{ce_desc(before)} fitted on [{P['desc']}], then {how} to {ce_desc(new_entries)} (get_params now reports "
            f"{[(n, est_repr(e), spec_repr(c)) for n, e, c in clf.estimators]}) and fitted again on [{P2['desc']}]")
    ok = got.shape == want.shape and bool(np.allclose(got, want, atol=TOL))
    if not ok and how != "refit" and got.shape == stale.shape and np.allclose(got, stale, atol=TOL):
        R.check("KF:column-ensemble-refit-uses-previous-members", False,
                f"{name} {desc}: predict_proba row 0 = {np.round(got[0], 6).tolist()} is the average of the PREVIOUS configuration re-fitted on the new data; "
                f"the members the user configured give {np.round(want[0], 6).tolist()}")
        return
    R.check("column-ensemble-average-of-members", ok,
            f"{name} {desc}: predict_proba row 0 = {np.round(got[0], 6).tolist() if got.ndim == 2 else got.shape}, mean of the configured members' "
            f"probabilities on their own columns = {np.round(want[0], 6).tolist()}")


def column_ensemble_family(R, tier, seed, only_small=False):
    Stub = stub_member()
    temps = [1.0, 4.0, 0.3, 2.0]
    thorough = tier == "thorough"
    # (1) all entry sequences over {member, "drop", member with empty selection} x single columns
    lab_cycle = [([3, 10, 42], "ndarray"), (["ant", "bee", "cat"], "ndarray"), ([7, -5], "series"), (["d", "a", "c", "b"], "object")]
    probs = []
    for li, (labels, cont) in enumerate(lab_cycle if thorough else lab_cycle[:2]):
        P = ce_problem(seed * 11 + li, labels, cont, 3, 9 + li, 5, 6, offset=(li % 2) * 20)
        probs.append((P, MemberCache(P["X"], P["y"], P["Xt"])))
    pool = [(kind, c) for kind in ("member", "drop", "empty") for c in (0, 1, 2)]
    count = 0
    for length in ((1, 2, 3) if not only_small else (2, 3)):
        for combo in itertools.product(pool, repeat=length):
            if not any(kd == "member" for kd, _ in combo):
                continue
            if only_small and (count % 7):
                count += 1
                continue
            entries = []
            for pos, (kd, c) in enumerate(combo):
                if kd == "member":
                    entries.append((f"e{pos}", Stub(temps[pos]), [c] if (pos + c) % 2 else c))
                elif kd == "drop":
                    entries.append((f"e{pos}", "drop", [c]))
                else:
                    entries.append((f"e{pos}", Stub(temps[pos]), []))
            P, cache = probs[count % len(probs)]
            ce_case(R, P, cache, entries, generic=(count % 5 == 0) or thorough)
            count += 1
    # (2) every kind of column specification, a skipped entry in every position
    P4 = ce_problem(seed * 11 + 5, [11, 5, 8, 2], "ndarray", 4, 12, 6, 7, offset=5)
    cache4 = MemberCache(P4["X"], P4["y"], P4["Xt"])
    specs = [0, 3, -1, "beta", [1], [2, 0], ["gamma"], ["delta", "alpha"], slice(1, 3), slice(None, 2), slice("beta", "gamma"),
             np.array([False, True, True, False]), np.array([True, False, False, False]), np.array([3, 1]),
             (lambda X: [2]), (lambda X: "alpha"), np.array([False] * 4), []]
    rng = np.random.RandomState(seed + 5)
    triples = list(itertools.permutations(range(len(specs)), 3))
    rng.shuffle(triples)
    for ti, (a, b, c) in enumerate(triples[: (len(triples) if thorough else 160) if not only_small else 30]):
        for skip_pos in (None, 0, 1, 2):
            if not thorough and skip_pos is not None and (ti + skip_pos) % 3:
                continue
            entries = [("first", Stub(1.0), specs[a]), ("second", Stub(4.0), specs[b]), ("third", Stub(0.3), specs[c])]
            if skip_pos is not None:
                entries[skip_pos] = (entries[skip_pos][0], "drop", entries[skip_pos][2])
            ce_case(R, P4, cache4, entries, generic=(ti % 9 == 0))
    # (3) real members (deterministic given random_state)
    from sktime.classification.dictionary_based import IndividualBOSS
    from sktime.classification.dictionary_based._tde import IndividualTDE
    for li, (labels, cont) in enumerate([([3, 10, 42], "ndarray"), (["no", "yes"], "series")] + ([(["c", "a", "b"], "object")] if thorough else [])):
        Pr = ce_problem(seed * 11 + 7 + li, labels, cont, 3, 12, 6, 14)
        cr = MemberCache(Pr["X"], Pr["y"], Pr["Xt"])
        boss = lambda: IndividualBOSS(window_size=8, word_length=4, random_state=seed)        # noqa: E731
        tde = lambda: IndividualTDE(window_size=7, word_length=4, random_state=seed)          # noqa: E731
        for entries in ([("b", boss(), [0]), ("t", tde(), [1]), ("s", Stub(), [2])],
                        [("skip", "drop", [0]), ("b", boss(), [1]), ("t", tde(), [2])],
                        [("b", boss(), "gamma"), ("none", Stub(), []), ("t", tde(), [0, 1]), ("b2", boss(), [0])],
                        [("t", tde(), [2]), ("skip", "drop", [2]), ("s", Stub(2.0), [0, 2]), ("b", boss(), 1)]):
            ce_case(R, Pr, cr, entries, generic=True)
    # (4) fit again / reconfigure then fit again
    Pa = ce_problem(seed * 11 + 1, [3, 10, 42], "ndarray", 3, 10, 5, 6)
    Pb = ce_problem(seed * 11 + 2, ["bee", "ant"], "ndarray", 3, 11, 6, 8, offset=9)
    base = lambda: [("a", Stub(1.0), [0]), ("b", Stub(4.0), [1])]        # noqa: E731
    ce_reconfigure(R, Pa, Pb, base(), base(), "refit")
    ce_reconfigure(R, Pa, Pa, [("d", "drop", [0])] + base(), [("d", "drop", [0])] + base(), "refit")
    ce_reconfigure(R, Pa, Pb, base(), [("a", Stub(9.0), [0]), ("b", Stub(4.0), [1])], "set_params-nested")
    ce_reconfigure(R, Pa, Pb, base(), [("a", Stub(1.0), [0]), ("b", Stub(0.2), [1])], "set_params-replace")
    ce_reconfigure(R, Pa, Pb, base(), [("a", Stub(1.0), [2]), ("c", Stub(2.0), [0, 1])], "set_params-estimators")
    ce_reconfigure(R, Pa, Pa, base(), [("a", "drop", [0]), ("b", Stub(4.0), [1])], "set_params-replace")
    # (5) remainder
    cachea = MemberCache(Pa["X"], Pa["y"], Pa["Xt"])
    ce_case(R, Pa, cachea, [("a", Stub(1.0), [0])], remainder="drop")
    ce_case(R, Pa, cachea, [("a", Stub(1.0), [0]), ("b", Stub(4.0), [1, 2])], remainder=Stub(2.0))
    ce_case(R, Pa, cachea, [("a", Stub(1.0), [0])], remainder=Stub(2.0))
    ce_case(R, Pa, cachea, [("d", "drop", [1]), ("a", Stub(1.0), [0])], remainder=Stub(0.3))


# ----------------------------------------------------------------------------------------------------------------
# the enumerations
# ----------------------------------------------------------------------------------------------------------------
def scenario_cycle(seed):
    """endless deterministic cycle over (k, labels, container, balance, index offset)"""
    out = []
    for k in (3, 2, 4):
        for labels in LABELSETS[k]:
            for bal in BALANCES:
                out.append((k, labels, bal))
    rng = np.random.RandomState(seed)
    rng.shuffle(out)
    i = 0
    while True:
        k, labels, bal = out[i % len(out)]
        strs = isinstance(labels[0], str)
        cont = ["ndarray", "series", "object" if strs else "ndarray"][i % 3]
        yield k, labels, cont, bal, (0, 40)[i % 4 == 1]
        i += 1


def forest_family(R, tier, seed, lengths=None):
    from sktime.classification.interval_based import TimeSeriesForestClassifier     # noqa: F401
    thorough = tier == "thorough"
    cyc = scenario_cycle(seed)
    kinds = ["head", "level", "tail", "trend", "shape"]
    lengths = lengths or ([5, 6, 7, 8, 9, 10, 12] if not thorough else [4, 5, 6, 7, 8, 9, 10, 11, 12, 14, 16, 20])
    i = 0
    for L in lengths:
        for mi in (2, 3, 4) if not thorough else (2, 3, 4, 5):
            if L <= mi:
                continue
            for ne in ((1, 6) if not thorough else (1, 5, 15)):
                for rep in range(2 if not thorough else 5):
                    k, labels, cont, bal, off = next(cyc)
                    rs = seed * 1000 + i
                    P = problem(rs, k, 10 + 2 * k + (i % 3), 2 * k + 3, L, kinds[i % len(kinds)], bal, labels, cont, off)
                    first = None
                    if i % 6 == 5:
                        k2, labels2, cont2, bal2, off2 = next(cyc)
                        first = problem(rs + 1, k2, 9 + k2, k2 + 1, L + 3, "level", bal2, labels2, cont2, off2)
                    tsf_case(R, P, ne, mi, rs, refit_from=first)
                    tsr_case(R, P, ne, mi, rs)
                    i += 1
    transform_direct(R, [3, 4, 5, 6, 7] if not thorough else [2, 3, 4, 5, 6, 7, 8, 9, 10, 12], seed)
    # RISE
    j = 0
    for L in ((10, 16) if not thorough else (9, 10, 13, 16, 24)):
        for mi, lag, amv in ((4, 100, 4), (5, 3, 2), (3, 6, 1)) if thorough else ((4, 100, 4), (5, 3, 2)):
            for rep in range(3 if not thorough else 6):
                k, labels, cont, bal, off = next(cyc)
                rs = seed * 1000 + 500 + j
                P = problem(rs, k, 10 + 2 * k, 2 * k + 2, L, ["shape", "level", "trend"][j % 3], bal, labels, cont, off)
                rise_case(R, P, (1, 4, 7)[j % 3], mi, lag, amv, rs)
                j += 1
    # STSF (series shorter than 16 cannot be fitted: float slice index in _get_intervals)
    j = 0
    for L in ((16, 21) if not thorough else (16, 19, 24, 30)):
        for rep in range(4 if not thorough else 8):
            k, labels, cont, bal, off = next(cyc)
            rs = seed * 1000 + 700 + j
            P = problem(rs, k, 10 + 3 * k, 2 * k + 1, L, ["shape", "level", "head"][j % 3], bal, labels, cont, off)
            stsf_case(R, P, (2, 4)[j % 2], rs)
            j += 1
    # tiny balanced training sets: a bootstrap bag easily misses a class
    for rep in range(4 if not thorough else 10):
        rs = seed * 1000 + 800 + rep
        P = problem(rs, 3, 6, 4, 18, "shape", "balanced", [3, 10, 42] if rep % 2 else ["ant", "bee", "cat"])
        stsf_case(R, P, 4, rs)


def dictionary_family(R, tier, seed, which_only=None):
    thorough = tier == "thorough"
    cyc = scenario_cycle(seed + 1)
    plan = [
        ("IndividualBOSS", [dict(window_size=6, word_length=4), dict(window_size=8, word_length=6, norm=True), dict(window_size=10, word_length=8)], (12, 20), 3),
        ("IndividualTDE", [dict(window_size=6, word_length=4), dict(window_size=8, word_length=6, levels=2, bigrams=False), dict(window_size=10, word_length=8, norm=True)], (12, 20), 3),
        ("ContractableBOSS", [dict(n_parameter_samples=8, max_ensemble_size=8, min_window=8), dict(n_parameter_samples=10, max_ensemble_size=3, min_window=6)], (16, 20), 5),
        ("TemporalDictionaryEnsemble", [dict(n_parameter_samples=8, max_ensemble_size=8, randomly_selected_params=6, min_window=8),
                                        dict(n_parameter_samples=9, max_ensemble_size=3, randomly_selected_params=4, min_window=6)], (16, 20), 4),
        ("BOSSEnsemble", [dict(min_window=10, max_ensemble_size=5), dict(min_window=10, max_ensemble_size=2, threshold=0.5)], (14, 20), 2),
        ("MUSE", [dict(window_inc=4), dict(window_inc=3, bigrams=False, use_first_order_differences=False)], (14, 18), 2),
    ]
    j = 0
    for which, paramsets, lengths, reps in plan:
        if which_only and which not in which_only:
            continue
        for L in lengths if not thorough else tuple(lengths) + (lengths[-1] + 5,):
            for params in paramsets:
                for rep in range(reps if not thorough else 3 * reps):
                    k, labels, cont, bal, off = next(cyc)
                    rs = seed * 1000 + j
                    ncols = 2 if which in ("MUSE", "TemporalDictionaryEnsemble") and j % 4 == 3 else 1
                    n = 12 + 2 * k + (j % 2)
                    P = problem(rs, k, n, 2 * k + 3, L, "shape", bal, labels, cont, off, ncols=ncols)
                    first = None
                    if j % 5 == 4:
                        k2, labels2, cont2, bal2, off2 = next(cyc)
                        first = problem(rs + 1, k2, 10 + k2, k2 + 1, L, "shape", bal2, labels2, cont2, off2, ncols=ncols)
                    dictionary_case(R, which, P, rs % 50, params, refit_from=first)
                    j += 1
        # the unbalanced corner of the quantifier for the subsampling ensembles: a single instance of a class that is not the
        # last one in label order, so that some members never see it
        if which in ("ContractableBOSS", "TemporalDictionaryEnsemble"):
            for rep in range(6 if not thorough else 20):
                labels = [[3, 10, 42], ["ant", "bee", "cat"], [42, 3, 10], [11, 5, 8, 2]][rep % 4]
                rs = seed * 1000 + 300 + rep
                P = problem(rs, len(labels), 15, 9, 16, "shape", ["rare-middle", "rare-first"][rep % 2], labels, "ndarray")
                dictionary_case(R, which, P, rs % 50, paramsets[0])


def base_family(R, tier, seed):
    sets = [([3, 10, 42], "ndarray"), (["ant", "bee", "cat"], "ndarray"), ([7, -5], "series"), (["no", "yes"], "object"),
            ([11, 5, 8, 2], "ndarray"), ([True, False], "ndarray"), ([2.0, 5.0, 9.0], "ndarray"), (["d", "a", "c", "b"], "series")]
    for i, (labels, cont) in enumerate(sets):
        for grid in ((4,) if tier == "quick" else (3, 4, 6)):
            if len(labels) == 4 and grid > 4:
                continue
            base_case(R, labels, cont, grid, seed + i, offset=(i % 2) * 13)


def bounded(tier, seed):
    quick = tier == "quick"
    R = Recorder(
        "real fit/predict_proba/predict/score on small panels: 2-4 classes, label sets {ints, non-contiguous/unsorted/negative ints, strings, bools, "
        "integer-valued floats} given as ndarray / pd.Series (index from 100) / object array, balanced, skewed and single-instance rare class "
        "(first/middle/last), panel index with and without offset, second fit of the same object on other labels; "
        + ("TimeSeriesForest classifier+regressor: lengths 5-12, min_interval 2-4, 1 and 6 trees, 2 seeds each; _transform/_slope on ALL intervals "
           "of length>=2 of series of length 3-7; RISE lengths 10,16; STSF lengths 16,21 (+ tiny training sets); IndividualBOSS/IndividualTDE/cBOSS/TDE/"
           "BOSSEnsemble/MUSE lengths 12-20 with 2-3 parameter sets; BaseClassifier.predict/score on every probability row in multiples of 1/4; "
           "ColumnEnsemble: all sequences of <=3 entries over {member, 'drop', empty selection} x 3 columns, 160 sampled triples of 18 column-spec "
           "kinds with a 'drop' in each position, real BOSS/TDE members, refit / set_params+refit, remainder"
           if quick else
           "TimeSeriesForest classifier+regressor: lengths 4-20, min_interval 2-5, 1/5/15 trees, 5 seeds each; _transform/_slope on ALL intervals of "
           "series of length 2-12; RISE lengths 9-24; STSF lengths 16-30; dictionary classifiers lengths 12-25, 3x repetitions; BaseClassifier on "
           "grids 1/3,1/4,1/6; ColumnEnsemble: all <=3-entry sequences on 4 label sets, ALL ordered triples of 18 column-spec kinds with and "
           "without a 'drop' in each position")
        + ". Not covered: forest constructors (objects built with __new__ + hand-set constructor attributes), n_jobs>1, random_state=None, "
          "TDE with information-gain binning, WEASEL, BOSSEnsemble with min_window<10 (IndexError in SFA under this environment), STSF on series "
          "shorter than 16, ColumnEnsemble with forest members (not clonable here), non-integer float labels (rejected by scikit-learn).")
    forest_family(R, tier, seed)
    dictionary_family(R, tier, seed)
    base_family(R, tier, seed)
    column_ensemble_family(R, tier, seed)
    return R.result()


def replay(rec):
    m = rec.get("model") or {}
    txt = (str(rec.get("target", "")) + " " + str(rec.get("case", "")) + " " + str(rec.get("obligation", ""))).lower()
    R = Recorder("replay")
    seed = 0
    ran = []
    used = {}
    if any(w in txt for w in ("_transform", "slope", "interval", "tsf", "timeseriesforest", "forest", "regress")):
        s = max(mint(m, "start", mint(m, "a", mint(m, "intervals[j][0]", 0))), 0)
        e = mint(m, "end", mint(m, "b", mint(m, "intervals[j][1]", s + 3)))
        e = max(e, s + 2)
        L = min(max(mint(m, "series_length", mint(m, "m", e + 2)), e), 40)
        if L - s >= 2 and e <= L:
            mx = m.get("X")
            while isinstance(mx, list) and mx and isinstance(mx[0], list):
                mx = mx[0]
            if isinstance(mx, list):
                mx = [str(int(float(x))) if str(x).replace(".", "", 1).replace("-", "", 1).isdigit() else "0" for x in mx]
                m = dict(m, X=mx)
            row = ints_from_model(m, "X", L) if isinstance(m.get("X"), list) else None
            transform_direct(R, [L], seed, intervals=[(s, e), (0, e), (s, L), (0, L)], rows=row)
            used.update(start=s, end=e, series_length=L)
        transform_direct(R, [4, 6], seed)
        forest_family(R, "quick", seed, lengths=sorted({6, 9, min(max(L, 5), 14)}))
        ran.append("forests")
    if any(w in txt for w in ("column", "_iter", "collect", "_get_column", "key_type", "heterogen")):
        column_ensemble_family(R, "quick", seed, only_small=True)
        ran.append("column-ensemble")
    if any(w in txt for w in ("baseclassifier", "base.py", "score", "classification.base", "label_encoder")):
        base_family(R, "quick", seed)
        ran.append("base")
    fams = [w for w, keys in (("IndividualBOSS", ("individualboss",)), ("BOSSEnsemble", ("bossensemble",)), ("ContractableBOSS", ("cboss", "contractable")),
                              ("TemporalDictionaryEnsemble", ("tde", "temporal")), ("IndividualTDE", ("individualtde",)), ("MUSE", ("muse",)))
            if any(k in txt for k in keys)]
    if fams:
        dictionary_family(R, "quick", seed, which_only=fams)
        ran.append("dictionary:" + ",".join(fams))
    if not ran:
        forest_family(R, "quick", seed, lengths=[6, 9])
        base_family(R, "quick", seed)
        column_ensemble_family(R, "quick", seed, only_small=True)
        dictionary_family(R, "quick", seed, which_only=["ContractableBOSS", "IndividualBOSS"])
        ran = ["forests", "base", "column-ensemble", "dictionary:ContractableBOSS,IndividualBOSS"]
    f = [x for x in R.failures if not x["key"].startswith("KF:")]
    used.update(families=ran, cases=R.cases)
    return {"reproduced": bool(f), "detail": f[:3], "input": used}
