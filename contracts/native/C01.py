"""C01 native oracle: the property statement evaluated on the real splitters."""
import itertools
import random

import numpy as np
import pandas as pd

from .common import Recorder, ints_from_model, mint


def expected_cutoffs(kind, n, fh, w, step, iw, sww):
    """independent oracle: all feasible cutoffs (positions), first to last, advancing by step"""
    fmax = max(fh)
    if kind == "single":
        return [n - fmax - 1]
    out = []
    if iw is not None:
        c = iw - 1
    elif sww:
        c = w - 1
    else:
        c = -1
    while c + fmax <= n - 1:
        out.append(c)
        c += step
    return out


def check_splitter(R, kind, n, fh, w, step=1, iw=None, sww=True, series=True, tag=""):
    from sktime.forecasting.model_selection import (ExpandingWindowSplitter, SingleWindowSplitter, SlidingWindowSplitter)
    y = pd.Series(np.arange(n, dtype=float), index=pd.RangeIndex(3, 3 + n)) if series else pd.RangeIndex(n)
    desc = f"{tag}{kind} n={n} fh={fh} w={w} step={step} iw={iw} sww={sww}"
    fmax = max(fh)
    try:
        if kind == "sliding":
            cv = SlidingWindowSplitter(fh=list(fh), window_length=w, step_length=step, initial_window=iw, start_with_window=sww)
        elif kind == "expanding":
            cv = ExpandingWindowSplitter(fh=list(fh), initial_window=w, step_length=step, start_with_window=sww)
        else:
            cv = SingleWindowSplitter(fh=list(fh), window_length=w)
        splits = [(np.asarray(tr), np.asarray(te)) for tr, te in cv.split(y)]
    except ValueError as e:
        fits = (w is None or w + fmax <= n) and (iw is None or (iw + fmax <= n and sww and iw > w)) and fmax < n
        R.check("accepts-valid", not fits, f"{desc}: valid configuration rejected: {e}")
        return
    except Exception as e:
        R.check("no-unrelated-error", False, f"{desc}: {type(e).__name__}: {e}")
        return
    fits = (w is None or w + fmax <= n) and (iw is None or (iw + fmax <= n and sww and iw > w)) and fmax < n
    R.check("rejects-window-that-does-not-fit", fits, f"{desc}: accepted although a window does not fit ({len(splits)} splits)")
    if not fits:
        return
    exp = expected_cutoffs(kind, n, fh, w if w is not None else n, step, iw, sww)
    cuts = []
    for j, (tr, te) in enumerate(splits):
        d = f"{desc} split#{j} train={tr.tolist()} test={te.tolist()}"
        c = exp[j] if j < len(exp) else None
        if len(tr):
            R.check("train-contiguous", bool(np.all(np.diff(tr) == 1)), d)
            R.check("train-ends-at-cutoff", c is not None and tr[-1] == c, d + f" expected cutoff {c}")
        cc = (tr[-1] if len(tr) else (te[0] - fh[0]))
        cuts.append(int(cc))
        R.check("test-is-cutoff-plus-fh", te.tolist() == [cc + h for h in fh], d)
        R.check("positions-inside-series", bool(np.all(tr >= 0) and np.all(tr < n) and np.all(te >= 0) and np.all(te < n)), d)
        R.check("no-leak", (len(tr) == 0) or tr.max() < te.min(), d)
        if kind == "sliding":
            want = (iw if (iw is not None and j == 0) else w) if sww else min(w, cc + 1)
            R.check("sliding-length", len(tr) == want, d + f" expected length {want}")
        if kind == "expanding" and len(tr):
            R.check("expanding-starts-at-0", tr[0] == 0, d)
        if kind == "single":
            R.check("single-window", (len(tr) == (w if w is not None else n - fmax)) and te[-1] == n - 1, d)
    R.check("cutoffs-first-to-last-by-step", cuts == exp, f"{desc}: yielded cutoffs {cuts}, feasible cutoffs {exp}")
    try:
        rep = [int(v) for v in cv.get_cutoffs(y)]
        ns = int(cv.get_n_splits(y))
        R.check("reported-cutoffs", rep == cuts, f"{desc}: get_cutoffs={rep} yielded={cuts}")
        R.check("reported-n-splits", ns == len(splits), f"{desc}: get_n_splits={ns} yielded={len(splits)}")
        # a splitter whose parameters are re-assigned must report what it then yields
        if kind != "single" and step == 1 and n >= 8:
            cv.step_length = 2
            s2 = [(np.asarray(a), np.asarray(b)) for a, b in cv.split(y)]
            rep2 = [int(v) for v in cv.get_cutoffs(y)]
            R.check("reported-cutoffs-after-reconfiguration", rep2 == [int(a[-1]) if len(a) else int(b[0] - fh[0]) for a, b in s2] and
                    int(cv.get_n_splits(y)) == len(s2), f"{desc}: after step_length=2 get_cutoffs={rep2}")
    except Exception as e:
        R.check("no-unrelated-error", False, f"{desc}: get_cutoffs/get_n_splits: {type(e).__name__}: {e}")


def check_cutoff_splitter(R, n, fh, w, cutoffs, tag=""):
    from sktime.forecasting.model_selection import CutoffSplitter
    y = pd.Series(np.arange(n, dtype=float))
    desc = f"{tag}cutoff n={n} fh={fh} w={w} cutoffs={list(cutoffs)}"
    fmax = max(fh)
    valid = len(cutoffs) > 0 and max(cutoffs) + fmax <= n - 1
    try:
        cv = CutoffSplitter(np.array(cutoffs, dtype=int), fh=list(fh), window_length=w)
        splits = [(np.asarray(tr), np.asarray(te)) for tr, te in cv.split(y)]
    except ValueError as e:
        R.check("accepts-valid", not valid, f"{desc}: valid configuration rejected: {e}")
        return
    except Exception as e:
        R.check("no-unrelated-error", False, f"{desc}: {type(e).__name__}: {e}")
        return
    R.check("rejects-cutoffs-that-do-not-fit", valid, f"{desc}: accepted; splits={[(a.tolist(), b.tolist()) for a, b in splits]}")
    if not valid:
        return
    sc = sorted(cutoffs)
    R.check("one-split-per-cutoff", len(splits) == len(sc), desc)
    for c, (tr, te) in zip(sc, splits):
        d = f"{desc} cutoff={c} train={tr.tolist()} test={te.tolist()}"
        R.check("train-ends-at-cutoff", len(tr) > 0 and tr[-1] == c and bool(np.all(np.diff(tr) == 1)), d)
        R.check("test-is-cutoff-plus-fh", te.tolist() == [c + h for h in fh], d)
        R.check("positions-inside-series", bool(np.all(tr >= 0) and np.all(te < n)), d)
        R.check("no-leak", tr.max() < te.min(), d)
        R.check("sliding-length", len(tr) == min(w, c + 1), d)
    R.check("reported-cutoffs", [int(v) for v in cv.get_cutoffs()] == sc and cv.get_n_splits() == len(sc), desc)


def check_tts(R, n, fh, relative, with_X, l0=0, tail=0):
    """temporal_train_test_split with fh"""
    from sktime.forecasting.base import ForecastingHorizon
    from sktime.forecasting.model_selection import temporal_train_test_split
    idx = pd.RangeIndex(l0, l0 + n)
    y = pd.Series(np.arange(n, dtype=float) * 2 + 1, index=idx)
    X = pd.DataFrame({"a": np.arange(n, dtype=float) + 100}, index=idx) if with_X else None
    if relative:
        f = ForecastingHorizon(list(fh), is_relative=True)
        cutoff = l0 + n - max(fh) - 1
        want_test = [cutoff + h for h in fh]
    else:
        # absolute horizon possibly ending before the end of the series (`tail` points remain after it)
        cutoff = l0 + n - max(fh) - 1 - tail
        want_test = [cutoff + h for h in fh]
        f = ForecastingHorizon(want_test, is_relative=False)
    desc = f"tts n={n} fh={fh} relative={relative} X={with_X} l0={l0} tail={tail}"
    if cutoff < l0:
        return
    try:
        out = temporal_train_test_split(y, X, fh=f)
    except Exception as e:
        R.check("tts-no-error", False, f"{desc}: {type(e).__name__}: {e}")
        return
    y_tr, y_te = out[0], out[1]
    want_train = list(range(l0, min(want_test)) if not relative else range(l0, cutoff + 1))
    R.check("tts-train-contiguous-before-test", list(y_tr.index) == want_train, f"{desc}: y_train index {list(y_tr.index)} expected {want_train}")
    R.check("tts-test-is-cutoff-plus-fh", list(y_te.index) == want_test, f"{desc}: y_test index {list(y_te.index)} expected {want_test}")
    R.check("tts-values", list(y_tr.values) == [y.loc[i] for i in want_train] and list(y_te.values) == [y.loc[i] for i in want_test], desc)
    if with_X:
        X_tr, X_te = out[2], out[3]
        R.check("tts-X-train-aligned-with-y-train", list(X_tr.index) == want_train, f"{desc}: X_train index {list(X_tr.index)} expected {want_train}")
        R.check("tts-X-test-no-training-rows", len(X_te) > 0 and min(X_te.index) > max(want_train) and max(X_te.index) == max(want_test),
                f"{desc}: X_test index {list(X_te.index)}")


def check_tts_sizes(R, n, test_size, train_size):
    from sktime.forecasting.model_selection import temporal_train_test_split
    y = pd.Series(np.arange(n, dtype=float))
    try:
        a, b = temporal_train_test_split(y, test_size=test_size, train_size=train_size)
    except ValueError:
        return
    d = f"tts-size n={n} test_size={test_size} train_size={train_size}: train={list(a.index)} test={list(b.index)}"
    R.check("tts-size-contiguous-prefix-suffix", list(a.index) == list(range(len(a))) and list(b.index) == list(range(len(a), len(a) + len(b))) and len(b) > 0, d)
    if isinstance(test_size, int):
        R.check("tts-size-test-size", len(b) == test_size, d)
    if isinstance(train_size, int):
        R.check("tts-size-train-size", len(a) == train_size, d)


FHS = [(1,), (2,), (1, 2), (1, 3), (2, 4), (1, 2, 3), (3,), (2, 3, 6)]


def bounded(tier, seed):
    nmax = 11 if tier == "quick" else 16
    R = Recorder(f"all n<={nmax}, fh in {FHS}, window/initial window <= 5, step <= 3 (4 thorough), both start modes, Series and Index inputs; "
                 f"all cutoff sets of size <=2 (3 thorough) from [0,n); temporal_train_test_split for n<=9, offsets 0/3, X on/off")
    wmax, smax = (4, 3) if tier == "quick" else (5, 4)
    for n in range(2, nmax + 1):
        for fh in FHS[: (6 if tier == "quick" else 8)]:
            for w in range(1, wmax + 1):
                for step in range(1, smax + 1):
                    for sww in (True, False):
                        check_splitter(R, "sliding", n, fh, w, step, None, sww, series=(n % 2 == 0))
                        check_splitter(R, "expanding", n, fh, w, step, None, sww, series=(n % 2 == 1))
                    for iw in range(w + 1, wmax + 2):
                        check_splitter(R, "sliding", n, fh, w, step, iw, True)
                check_splitter(R, "single", n, fh, w)
            check_splitter(R, "single", n, fh, None)
    for n in range(3, (9 if tier == "quick" else 11)):
        for fh in FHS[:5]:
            for w in (1, 3):
                for k in range(1, (3 if tier == "quick" else 4)):
                    for cs in itertools.combinations(range(n), k):
                        check_cutoff_splitter(R, n, fh, w, list(reversed(cs)))
    for n in range(4, 10):
        for fh in FHS[:6]:
            for rel in (True, False):
                for wx in (False, True):
                    for l0 in (0, 3):
                        for tail in ((0,) if rel else (0, 2)):
                            check_tts(R, n, fh, rel, wx, l0, tail)
        for ts in (1, 2, 3, 0.25, None):
            for tr in (None, 2, 0.5):
                check_tts_sizes(R, n, ts, tr)
    return R.result()


def replay(rec):
    m = rec.get("model") or {}
    target, case = rec["target"], rec["case"]
    R = Recorder("replay")
    n = max(mint(m, "n", 5), 1)
    nf = max(mint(m, "len(fh)", 1), 1)
    fh = ints_from_model(m, "fh", nf)
    if any(h < 1 for h in fh) or sorted(set(fh)) != fh:
        fh = sorted(set(abs(h) + 1 for h in fh)) or [1]
    w = max(mint(m, "w", 1), 1)
    step = max(mint(m, "step", 1), 1)
    iw = max(mint(m, "iw", w + 1), 1) if case.startswith("init") else None
    sww = "nosww" not in case
    inp = {"n": n, "fh": fh, "w": w, "step": step, "iw": iw, "sww": sww}
    if "CutoffSplitter" in target:
        nc = max(mint(m, "len(cutoffs)", 1), 1)
        cs = [abs(c) for c in ints_from_model(m, "cutoffs", nc)]
        inp["cutoffs"] = cs
        check_cutoff_splitter(R, n, fh, w, cs)
    elif "SingleWindow" in target:
        check_splitter(R, "single", n, fh, None if "wnone" in case else w)
    elif "Expanding" in target:
        check_splitter(R, "expanding", n, fh, w, step, None, sww)
    elif "Sliding" in target:
        check_splitter(R, "sliding", n, fh, w, step, iw, sww)
    else:
        return {"reproduced": False, "detail": "no native replay for this target", "input": inp}
    f = R.failures
    return {"reproduced": bool(f), "detail": f[:3], "input": inp}
