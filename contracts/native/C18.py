"""C18 native oracle: .ts write -> load round trips, .ts/.arff/.tsv agreement and the bundled data set loaders,
all on the real code; every expectation comes from the in-memory panel or from a plain-Python reading of the file text."""
import itertools
import os
import shutil
import tempfile
import warnings
from decimal import Decimal

import numpy as np
import pandas as pd

from .common import Recorder, mint


# ------------------------------------------------------------------ plain-Python readers (tokens stay strings)
def _num(tok):
    t = tok.strip()
    return float("nan") if t.lower() in ("?", "nan", "") else float(t)


def read_ts_tokens(path):
    """-> (has_labels, [([tokens of dim 0], [tokens of dim 1], ...), label-or-None]) of a timestamp-free .ts file"""
    cases, started, has_labels = [], False, False
    with open(path, "r", encoding="utf-8") as fh:
        for line in fh:
            s = line.strip()
            if not s:
                continue
            if not started:
                low = s.lower()
                if low == "@data":
                    started = True
                elif low.startswith("@classlabel"):
                    has_labels = low.split()[1] == "true"
                continue
            parts = s.split(":")
            label = parts.pop().strip() if has_labels else None
            cases.append(([[t for t in p.split(",")] if p.strip() else [] for p in parts], label))
    return has_labels, cases


def read_arff_tokens(path, has_labels=True):
    cases, started = [], False
    with open(path, "r") as fh:
        for line in fh:
            s = line.strip()
            if not s:
                continue
            if not started:
                started = s.lower().startswith("@data")
                continue
            if s.startswith("'"):                          # relational (multivariate): 'a,b\nc,d',label
                body, label = s.rsplit("',", 1) if has_labels else (s.rstrip("'"), None)
                dims = [d.split(",") for d in body.lstrip("'").split("\\n")]
            else:
                toks = s.split(",")
                label = toks.pop() if has_labels else None
                dims = [toks]
            cases.append((dims, label.strip() if label is not None else None))
    return cases


def read_tsv_tokens(path):
    cases = []
    with open(path, "r") as fh:
        for line in fh:
            if line.strip():
                toks = line.rstrip("\n").split("\t")
                cases.append(([toks[1:]], toks[0].strip()))
    return cases


def unit_of(tok):
    """one unit of the last digit the token prints (1.764052e+06 -> 1, 0.400157 -> 1e-6, 12 -> 1)"""
    return Decimal(10) ** Decimal(tok.strip()).as_tuple().exponent


def cells(frame, col=0):
    return [np.asarray(s, dtype=float) for s in frame.iloc[:, col]]


def norm_label(v):
    return f"{v}".strip().lower()


def short(rows):
    return "[" + "; ".join(",".join(repr(float(v)) for v in r) for r in rows) + "]"


# ------------------------------------------------------------------ clause 1: write -> load round trip
MAGNITUDES = ("1e-8", "1e-5", "1e-3", "1", "30", "250", "1e4", "3e5", "1e6", "1e9", "1e12", "1e300",
              "mixed-fixed", "mixed-wide", "ints", "int-valued", "negative", "float32", "zeros-const")

LABEL_KINDS = ("none", "lower", "mixed-case", "digit-strings", "ints-from-0", "ints-from-1", "all-zero-ints",
               "negative-ints", "floats", "bools", "single-class", "word-labels", "upper")

COMMENTS = (None, "", "a short comment",
            "A long comment: it wraps over several lines, mentions @data and @classLabel true x y, has commas, colons: "
            "and numbers 1,2,3:4 so that a careless parser could take it for a case; " + "filler words " * 8,
            "@problemName not a tag")
HEADERS = ("none", "equal+length", "length-only")
CONTAINERS = ("list", "ndarray", "series", "tuple")
OUTER_INDEX = ("range", "offset", "strings")
INNER_INDEX = ("range", "offset")
NAMES = ("p", "MyData_1")


def make_rows(kind, n, m, rng):
    if kind == "ints":
        return [np.asarray(rng.randint(-60, 60, size=m) + 1000 * i, dtype=np.int64) for i in range(n)]
    if kind == "int-valued":
        return [np.asarray(rng.randint(-60, 60, size=m) + 1000 * i, dtype=float) for i in range(n)]
    if kind == "zeros-const":
        return [np.full(m, float(i % 2) * 2.5) for i in range(n)]
    if kind == "mixed-fixed":
        return [rng.choice([-1.0, 1.0], size=m) * 10.0 ** rng.uniform(-2, 5, size=m) for _ in range(n)]
    if kind == "mixed-wide":
        return [rng.choice([-1.0, 1.0], size=m) * 10.0 ** rng.uniform(-9, 9, size=m) for _ in range(n)]
    if kind == "negative":
        return [-np.abs(rng.randn(m)) * 40 - 0.5 for _ in range(n)]
    if kind == "float32":
        return [np.asarray(rng.randn(m) * 20, dtype=np.float32) for _ in range(n)]
    return [rng.randn(m) * float(kind) for _ in range(n)]


def make_labels(kind, n, shift):
    pools = {"lower": ["a", "b", "c"], "mixed-case": ["Yes", "NO", "maybE"], "digit-strings": ["0", "1", "2"],
             "ints-from-0": [0, 1, 2], "ints-from-1": [1, 2, 3], "all-zero-ints": [0], "negative-ints": [-1, 1],
             "floats": [0.0, 1.0, 2.5], "bools": [False, True], "single-class": ["x"],
             "word-labels": ["class_A", "class-B", "C3"], "upper": ["ABC", "A", "B"]}
    if kind == "none":
        return None
    pool = pools[kind]
    return [pool[(i + shift) % len(pool)] for i in range(n)]


def roundtrip_case(R, tmp, rows, labels, comment, header, container, outer, inner, name, tag):
    from sktime.utils.data_io import load_from_tsfile_to_dataframe, write_dataframe_to_tsfile
    n, m = len(rows), len(rows[0])
    in0 = 3 if inner == "offset" else 0
    frame = pd.DataFrame({"dim_0": [pd.Series(r, index=pd.RangeIndex(in0, in0 + m)) for r in rows]})
    if outer == "offset":
        frame.index = pd.RangeIndex(5, 5 + n)
    elif outer == "strings":
        frame.index = [f"case{n - i}" for i in range(n)]
    kw = {"problem_name": name}
    if comment is not None:
        kw["comment"] = comment
    if header == "equal+length":
        kw.update(equal_length=True, series_length=m)
    elif header == "length-only":
        kw.update(series_length=m)
    expected_labels = None
    if labels is not None:
        expected_labels = [norm_label(v) for v in labels]
        classes = []
        for v in labels:
            if v not in classes:
                classes.append(v)
        vals = {"list": list(labels), "tuple": tuple(labels), "ndarray": np.array(labels),
                "series": pd.Series(labels, index=pd.RangeIndex(7, 7 + n))}[container]
        kw.update(class_label=classes, class_value_list=vals)
    desc = (f"{tag} panel {n}x{m} rows={short(rows)} dtype={rows[0].dtype} labels={labels!r} ({container}) comment={comment!r:.40} "
            f"header={header} outer-index={outer} inner-index={inner} name={name}")
    path = os.path.join(tmp, name, name + "_transform.ts")
    try:
        with warnings.catch_warnings():
            warnings.simplefilter("ignore")
            write_dataframe_to_tsfile(frame, tmp, **kw)
    except Exception as e:
        R.check("write-no-error", False, f"{desc}: write_dataframe_to_tsfile raised {type(e).__name__}: {e}")
        return
    try:
        with warnings.catch_warnings():
            warnings.simplefilter("ignore")
            res = load_from_tsfile_to_dataframe(path)
    except Exception as e:
        R.check("written-file-loads", False, f"{desc}: loading the written file raised {type(e).__name__}: {e}")
        return
    R.check("written-file-loads", True, desc)
    if labels is None:
        ok = isinstance(res, pd.DataFrame) and list(res.columns) == ["dim_0"]
        R.check("labels-roundtrip", ok, f"{desc}: no labels written but the loader returned {type(res).__name__} "
                                        f"{list(res.columns) if isinstance(res, pd.DataFrame) else [type(r).__name__ for r in res]}")
        Xl = res if isinstance(res, pd.DataFrame) else res[0]
    else:
        if not (isinstance(res, tuple) and len(res) == 2):
            R.check("labels-roundtrip", False, f"{desc}: labels written but the loader returned {type(res).__name__}, not (X, y)")
            return
        Xl, yl = res
        got = [str(v) for v in yl]
        R.check("labels-roundtrip", got == expected_labels, f"{desc}: loaded labels {got}, expected {expected_labels}")
    got_n = len(Xl)
    R.check("same-number-of-instances", got_n == n and Xl.shape[1] == 1, f"{desc}: loaded frame has shape {Xl.shape}, expected ({n}, 1)")
    if got_n != n or Xl.shape[1] < 1:
        return
    L = cells(Xl)
    lens = [len(v) for v in L]
    R.check("same-series-lengths", lens == [m] * n, f"{desc}: loaded series lengths {lens}, expected {[m] * n}")
    if lens != [m] * n:
        return
    # precision the writer printed, read off the file text with a plain parser
    try:
        _, toks = read_ts_tokens(path)
        units = [[unit_of(t) for t in toks[i][0][0]] for i in range(n)]
        printed = [[Decimal(t.strip()) for t in toks[i][0][0]] for i in range(n)]
        if [len(u) for u in units] != [m] * n:
            raise ValueError("token count")
    except Exception:
        units = printed = None
    O = [np.asarray(r, dtype=float) for r in rows]
    def matches(i, j):      # loaded row i agrees with written row j to the precision printed for row i
        return all(abs(L[i][k] - O[j][k]) <= float(units[i][k] if units else 1e-6) + 2 * float(np.spacing(abs(O[j][k]))) for k in range(m))
    in_place = all(matches(i, i) for i in range(n))
    permuted = (not in_place) and n <= 6 and any(
        all(matches(i, p[i]) for i in range(n)) for p in itertools.permutations(range(n)))
    R.check("same-instance-order", not permuted, f"{desc}: loaded rows {short(L)} are the written rows in a different order")
    bad = bad2 = None
    for i in range(n):
        for j in range(m):
            u = units[i][j] if units else Decimal(10) ** -6
            slack = float(np.spacing(abs(O[i][j]))) * 2
            if bad is None and not abs(L[i][j] - O[i][j]) <= float(u) + slack:
                bad = (f"instance {i} position {j}: written value {O[i][j]!r}, file prints {toks[i][0][0][j].strip() if units else '?'}, "
                       f"loaded {L[i][j]!r} (off by {abs(L[i][j] - O[i][j]):.3g}, one printed unit is {u})")
            if units and bad2 is None and np.isfinite(L[i][j]):
                d = abs(Decimal(float(L[i][j])) - printed[i][j])
                if d > u / 2 + Decimal(slack):
                    bad2 = (f"instance {i} position {j}: file prints {toks[i][0][0][j].strip()} but the loader returned {L[i][j]!r} "
                            f"(off by {float(d):.3g}, more than half a unit of the last printed digit {u})")
            elif units and bad2 is None:
                bad2 = f"instance {i} position {j}: loaded {L[i][j]!r} for the finite printed {toks[i][0][0][j]}"
    R.check("values-equal-to-printed-precision", bad is None, f"{desc}: {bad}")
    R.check("loaded-value-is-the-printed-number", bad2 is None, f"{desc}: {bad2}")
    if labels is not None:
        try:
            with warnings.catch_warnings():
                warnings.simplefilter("ignore")
                one = load_from_tsfile_to_dataframe(path, return_separate_X_and_y=False)
            got = [str(v) for v in one.iloc[:, -1]]
            same = one.shape == (n, 2) and all(np.array_equal(a, b) for a, b in zip(cells(one), L))
            R.check("single-frame-load-same-panel-and-labels", got == expected_labels and same,
                    f"{desc}: return_separate_X_and_y=False gave shape {one.shape}, labels {got} (expected {expected_labels}), panel equal to (X, y) form: {same}")
        except Exception as e:
            R.check("single-frame-load-same-panel-and-labels", False, f"{desc}: return_separate_X_and_y=False raised {type(e).__name__}: {e}")


def roundtrips(R, tmp, seed, ns, ms, mags, label_kinds, full_options=False):
    combos = [(c, h, k, o, i, nm) for c in COMMENTS for h in HEADERS for k in CONTAINERS for o in OUTER_INDEX
              for i in INNER_INDEX for nm in NAMES]
    rng0 = np.random.RandomState(1000 + seed)
    rng0.shuffle(combos)
    counter = 0
    for n in ns:
        for m in ms:
            for mag in mags:
                for lk in label_kinds:
                    rng = np.random.RandomState((seed * 7919 + counter * 31 + 17) % (2 ** 31))
                    rows = make_rows(mag, n, m, rng)
                    labels = make_labels(lk, n, counter)
                    todo = [combos[(counter * 7) % len(combos)]]
                    if full_options:
                        todo.append(combos[(counter * 7 + 3) % len(combos)])
                    for (c, h, k, o, i, nm) in todo:
                        roundtrip_case(R, tmp, rows, labels, c, h, k, o, i, nm, f"[{mag}/{lk}]")
                    counter += 1


def option_sweep(R, tmp, seed):
    """every writer option combination once on one small labelled and one unlabelled panel"""
    rng = np.random.RandomState(77 + seed)
    rows = [rng.randn(4) * 300 for _ in range(3)]
    for c in COMMENTS:
        for h in HEADERS:
            for o in OUTER_INDEX:
                for i in INNER_INDEX:
                    for nm in NAMES:
                        for k in CONTAINERS:
                            roundtrip_case(R, tmp, rows, [0, 2, 1], c, h, k, o, i, nm, "[options]")
                        roundtrip_case(R, tmp, rows, None, c, h, "list", o, i, nm, "[options]")


# ------------------------------------------------------------------ clause 2: the three formats parse to the same panel
def write_formats(tmp, stem, rows, labels, style):
    """hand-written .ts / .arff / .tsv files of one panel, values printed with repr (shortest exact decimal)"""
    n, m = len(rows), len(rows[0])
    txt = [[repr(float(v)) for v in r] for r in rows]
    classes = sorted(set(str(v) for v in labels)) if labels is not None else []
    ts = []
    if style >= 1:
        ts += ["# a comment line, with: punctuation", "#second comment", ""]
    tags = ["@problemName " + stem, "@timeStamps false"]
    if style == 2:
        tags = ["@PROBLEMNAME " + stem, "@timestamps false", "@missing false"]
    ts += tags + ["@univariate true"]
    if style >= 1:
        ts += ["@equalLength true", f"@seriesLength {m}"]
    ts += ["@classLabel true " + " ".join(classes) if labels is not None else "@classLabel false", "@data"]
    for i in range(n):
        if style == 2 and i == 1:
            ts.append("")
        ts.append(",".join(txt[i]) + (f":{labels[i]}" if labels is not None else ""))
    arff = ["%  comment", "@relation " + stem, ""] + [f"@attribute att{j} numeric" for j in range(m)]
    if labels is not None:
        arff.append("@attribute target {" + ",".join(classes) + "}")
    arff += ["", "@data"]
    for i in range(n):
        arff.append(",".join(txt[i] + ([str(labels[i])] if labels is not None else [])))
    paths = {}
    for ext, lines in (("ts", ts), ("arff", arff)):
        paths[ext] = os.path.join(tmp, stem + "." + ext)
        with open(paths[ext], "w", encoding="utf-8") as fh:
            fh.write("\n".join(lines) + "\n")
    if labels is not None and all(isinstance(v, (int, np.integer)) for v in labels):
        paths["tsv"] = os.path.join(tmp, stem + ".tsv")
        with open(paths["tsv"], "w") as fh:
            for i in range(n):
                fh.write("\t".join([str(labels[i])] + txt[i]) + "\n")
    return paths


def formats_case(R, tmp, rows, labels, style, tag):
    from sktime.utils.data_io import (load_from_arff_to_dataframe, load_from_tsfile_to_dataframe,
                                      load_from_ucr_tsv_to_dataframe)
    n, m = len(rows), len(rows[0])
    paths = write_formats(tmp, "fmt", rows, labels, style)
    desc = f"{tag} panel {n}x{m} rows={short(rows)} labels={labels!r} file-style={style}"
    exp_lab = [norm_label(v) for v in labels] if labels is not None else None
    loaded = {}
    for ext in ("ts", "arff", "tsv"):
        if ext not in paths:
            continue
        for single in (False, True):
            form = "single-frame" if single else "(X, y)"
            try:
                with warnings.catch_warnings():
                    warnings.simplefilter("ignore")
                    if ext == "ts":
                        res = load_from_tsfile_to_dataframe(paths[ext], return_separate_X_and_y=not single)
                    elif ext == "arff":
                        res = load_from_arff_to_dataframe(paths[ext], has_class_labels=labels is not None, return_separate_X_and_y=not single)
                    else:
                        res = load_from_ucr_tsv_to_dataframe(paths[ext], return_separate_X_and_y=not single)
            except Exception as e:
                R.check(f"{ext}-file-parses", False, f"{desc}: loading the .{ext} file ({form}) raised {type(e).__name__}: {e}")
                continue
            if labels is None:
                X, y = res, None
                okform = isinstance(res, pd.DataFrame) and res.shape[1] == 1
            elif single:
                okform = isinstance(res, pd.DataFrame) and res.shape[1] == 2
                X, y = (res.iloc[:, :1], list(res.iloc[:, -1])) if okform else (None, None)
            else:
                okform = isinstance(res, tuple) and len(res) == 2
                X, y = (res[0], list(res[1])) if okform else (None, None)
            R.check(f"{ext}-file-parses", okform, f"{desc}: .{ext} loader ({form}) returned {type(res).__name__} of unexpected shape")
            if not okform:
                continue
            L = cells(X)
            shape_ok = len(L) == n and [len(v) for v in L] == [m] * n
            vals_ok = shape_ok and all(np.allclose(L[i], np.asarray(rows[i], dtype=float), rtol=1e-12, atol=0) for i in range(n))
            R.check(f"{ext}-panel-equals-file-content", vals_ok,
                    f"{desc}: .{ext} loader ({form}) returned {short(L) if len(L) <= 4 else len(L)} instead of the values in the file")
            if labels is not None:
                got = [norm_label(v) for v in y]
                R.check(f"{ext}-labels-equal-file-content", got == exp_lab, f"{desc}: .{ext} loader ({form}) returned labels {got}, file has {exp_lab}")
            if not single and shape_ok:
                loaded[ext] = (L, [norm_label(v) for v in y] if y is not None else None)
    exts = sorted(loaded)
    for a in range(len(exts)):
        for b in range(a + 1, len(exts)):
            La, ya = loaded[exts[a]]
            Lb, yb = loaded[exts[b]]
            same = all(np.allclose(La[i], Lb[i], rtol=1e-12, atol=0) for i in range(n))
            R.check("formats-same-panel", same, f"{desc}: .{exts[a]} gives {short(La)} but .{exts[b]} gives {short(Lb)}")
            R.check("formats-same-labels", ya == yb, f"{desc}: .{exts[a]} labels {ya} but .{exts[b]} labels {yb}")


def formats_synthetic(R, tmp, seed, ns, ms, mags):
    counter = 0
    label_sets = ([0, 1, 2], [1, 2, 3], [-1, 1], [7], ["Ab", "cD", "e"], None)
    for n in ns:
        for m in ms:
            for mag in mags:
                for pool in label_sets:
                    rng = np.random.RandomState((seed * 104729 + counter * 13 + 5) % (2 ** 31))
                    rows = [np.asarray(r, dtype=float) for r in make_rows(mag, n, m, rng)]
                    labels = [pool[(i + counter) % len(pool)] for i in range(n)] if pool is not None else None
                    formats_case(R, tmp, rows, labels, counter % 3, f"[{mag}]")
                    counter += 1


def data_dir():
    import sktime.datasets.base as base
    return os.path.join(os.path.dirname(base.__file__), "data")


def own_parse(path):
    """(panel as list of cases, each a list of float arrays per dimension; labels) by the plain readers"""
    if path.endswith(".ts"):
        cases = read_ts_tokens(path)[1]
    elif path.endswith(".arff"):
        cases = read_arff_tokens(path)
    else:
        cases = read_tsv_tokens(path)
    return cases


def formats_bundled(R):
    from sktime.utils.data_io import (load_from_arff_to_dataframe, load_from_tsfile_to_dataframe,
                                      load_from_ucr_tsv_to_dataframe)
    loaders = {"ts": load_from_tsfile_to_dataframe, "arff": load_from_arff_to_dataframe, "tsv": load_from_ucr_tsv_to_dataframe}
    root = data_dir()
    for name in sorted(os.listdir(root)):
        d = os.path.join(root, name)
        if not os.path.isdir(d):
            continue
        stems = sorted(set(os.path.splitext(f)[0] for f in os.listdir(d) if f.endswith((".arff", ".tsv"))))
        for stem in stems:
            got = {}
            for ext in ("ts", "arff", "tsv"):
                path = os.path.join(d, stem + "." + ext)
                if not os.path.exists(path):
                    continue
                desc = f"bundled {stem}.{ext}"
                try:
                    with warnings.catch_warnings():
                        warnings.simplefilter("ignore")
                        X, y = loaders[ext](path)
                except Exception as e:
                    R.check(f"{ext}-file-parses", False, f"{desc}: loader raised {type(e).__name__}: {e}")
                    continue
                toks = own_parse(path)
                ndim = len(toks[0][0])
                shape_ok = X.shape == (len(toks), ndim) and all(
                    [len(s) for s in X.iloc[:, k]] == [len(c[0][k]) for c in toks] for k in range(ndim))
                R.check(f"{ext}-file-parses", shape_ok, f"{desc}: loader returned shape {X.shape}, the file has {len(toks)} cases x {ndim} dimensions (or series lengths differ)")
                if not shape_ok:
                    continue
                L = [cells(X, k) for k in range(ndim)]
                bad = None
                for k in range(ndim):
                    for i, c in enumerate(toks):
                        want = np.array([_num(t) for t in c[0][k]])
                        if not np.allclose(L[k][i], want, rtol=1e-12, atol=0, equal_nan=True):
                            j = int(np.argmax(np.abs(L[k][i] - want)))
                            bad = f"case {i} dim {k} position {j}: file has {c[0][k][j]} but loader returned {L[k][i][j]!r}"
                            break
                    if bad:
                        break
                R.check(f"{ext}-panel-equals-file-content", bad is None, f"{desc}: {bad}")
                lab = [norm_label(v) for v in y]
                want_lab = [norm_label(c[1]) for c in toks]
                R.check(f"{ext}-labels-equal-file-content", lab == want_lab, f"{desc}: labels {lab[:8]}... differ from the file's {want_lab[:8]}...")
                got[ext] = (L, lab, toks)
            exts = sorted(got)
            for a in range(len(exts)):
                for b in range(a + 1, len(exts)):
                    La, ya, ta = got[exts[a]]
                    Lb, yb, tb = got[exts[b]]
                    desc = f"bundled {stem}: .{exts[a]} vs .{exts[b]}"
                    same_shape = len(La) == len(Lb) and all(len(La[k]) == len(Lb[k]) and all(len(u) == len(v) for u, v in zip(La[k], Lb[k])) for k in range(len(La)))
                    R.check("formats-same-panel-shape", same_shape, f"{desc}: different numbers of cases / dimensions / series lengths")
                    R.check("formats-same-labels", ya == yb, f"{desc}: labels differ, e.g. {ya[:6]} vs {yb[:6]}")
                    if not same_shape:
                        continue
                    # the shipped files are rounded to different numbers of decimals: equal up to one unit of the coarser one
                    bad = None
                    for k in range(len(La)):
                        for i in range(len(La[k])):
                            diff = np.abs(La[k][i] - Lb[k][i])
                            if bad is None and diff.size and diff.max() > 0:
                                for j in np.nonzero(diff > 0)[0]:
                                    u = max(unit_of(ta[i][0][k][j]), unit_of(tb[i][0][k][j]))
                                    if diff[j] > float(u) * (1 + 1e-9):
                                        bad = (f"case {i} dim {k} position {j}: {La[k][i][j]!r} vs {Lb[k][i][j]!r} "
                                               f"(files print {ta[i][0][k][j].strip()} and {tb[i][0][k][j].strip()})")
                                        break
                    R.check("formats-same-panel", bad is None, f"{desc}: {bad}")


# ------------------------------------------------------------------ clause 3: data set loaders, split x return_X_y
def loader_checks(R, call, train_path, test_path, desc0):
    """call(split, return_X_y) is the real loader; the files are read independently"""
    want = {"train": own_parse(train_path), "test": own_parse(test_path)}
    want[None] = want["train"] + want["test"]
    results = {}
    for split in ("train", "test", None):
        desc = f"{desc0} split={split!r}"
        exp = want[split]
        ndim = len(exp[0][0])
        exp_lab = [norm_label(c[1]) for c in exp]
        for rxy in (True, False):
            form = "return_X_y=True" if rxy else "return_X_y=False"
            try:
                with warnings.catch_warnings():
                    warnings.simplefilter("ignore")
                    res = call(split, rxy)
            except Exception as e:
                R.check("loader-no-error", False, f"{desc} {form}: raised {type(e).__name__}: {e}")
                continue
            if rxy:
                okform = isinstance(res, tuple) and len(res) == 2 and isinstance(res[0], pd.DataFrame)
                X, y = (res[0], [norm_label(v) for v in res[1]]) if okform else (None, None)
            else:
                okform = isinstance(res, pd.DataFrame) and res.shape[1] == ndim + 1
                X, y = (res.iloc[:, :ndim], [norm_label(v) for v in res.iloc[:, -1]]) if okform else (None, None)
            R.check("loader-return-form", okform, f"{desc} {form}: returned {type(res).__name__}" + (f" with shape {res.shape}" if isinstance(res, pd.DataFrame) else ""))
            if not okform:
                continue
            nwant = len(exp)
            key = "split-none-is-train-then-test" if split is None else "split-returns-its-file"
            R.check(key + "-count", len(X) == nwant and len(y) == nwant and X.shape[1] == ndim,
                    f"{desc} {form}: {len(X)} instances x {X.shape[1]} dimensions and {len(y)} labels, the files hold {nwant} x {ndim}"
                    + (f" ({len(want['train'])} train + {len(want['test'])} test)" if split is None else ""))
            if len(X) != nwant or len(y) != nwant or X.shape[1] != ndim:
                continue
            L = [cells(X, k) for k in range(ndim)]
            bad = None
            for i, c in enumerate(exp):
                for k in range(ndim):
                    w = np.array([_num(t) for t in c[0][k]])
                    if len(L[k][i]) != len(w) or not np.allclose(L[k][i], w, rtol=1e-12, atol=0, equal_nan=True):
                        part = "" if split is not None else (f" (train row {i})" if i < len(want["train"]) else f" (test row {i - len(want['train'])})")
                        bad = f"instance {i}{part} dim {k}: loader has {np.round(L[k][i][:4], 6).tolist()}..., file has {c[0][k][:4]}..."
                        break
                if bad:
                    break
            R.check(key + "-instances", bad is None, f"{desc} {form}: {bad}")
            diff = [i for i in range(nwant) if y[i] != exp_lab[i]]
            R.check(key + "-labels", not diff,
                    f"{desc} {form}: {len(diff)} of {nwant} labels differ from the file(s), first at row {diff[0] if diff else None}: "
                    f"{y[diff[0]] if diff else None!r} vs {exp_lab[diff[0]] if diff else None!r}")
            results[(split, rxy)] = (L, y)
        if (split, True) in results and (split, False) in results:
            (La, ya), (Lb, yb) = results[(split, True)], results[(split, False)]
            same = all(len(La[k]) == len(Lb[k]) and all(np.array_equal(u, v, equal_nan=True) for u, v in zip(La[k], Lb[k])) for k in range(ndim))
            R.check("single-frame-consistent-with-X-y-panel", same, f"{desc}: the frame of return_X_y=False holds different series than X of return_X_y=True")
            diff = [i for i in range(min(len(ya), len(yb))) if ya[i] != yb[i]]
            R.check("single-frame-consistent-with-X-y-labels", len(ya) == len(yb) and not diff,
                    f"{desc}: class_val of the single frame differs from y of the (X, y) form in {len(diff)} of {len(ya)} rows"
                    + (f" (first at row {diff[0]}: {yb[diff[0]]!r} vs {ya[diff[0]]!r})" if diff else ""))
    # split=None against the loader's own per-split results
    if all((s, True) in results for s in ("train", "test", None)):
        (Lt, yt), (Le, ye), (Ln, yn) = results[("train", True)], results[("test", True)], results[(None, True)]
        ok = yn == yt + ye and all(
            len(Ln[k]) == len(Lt[k]) + len(Le[k]) and all(np.array_equal(u, v, equal_nan=True) for u, v in zip(Ln[k], Lt[k] + Le[k]))
            for k in range(len(Ln)))
        R.check("split-none-equals-train-plus-test-loads", ok, f"{desc0}: split=None (X, y) is not load(train) followed by load(test)")


SPECIFIC = {"GunPoint": "load_gunpoint", "OSULeaf": "load_osuleaf", "ItalyPowerDemand": "load_italy_power_demand",
            "JapaneseVowels": "load_japanese_vowels", "ArrowHead": "load_arrow_head", "ACSF1": "load_acsf1",
            "BasicMotions": "load_basic_motions"}


def bundled_loaders(R, names=None, generic_too=True):
    import sktime.datasets.base as base
    root = data_dir()
    for name in sorted(os.listdir(root)):
        tr = os.path.join(root, name, name + "_TRAIN.ts")
        te = os.path.join(root, name, name + "_TEST.ts")
        if not (os.path.exists(tr) and os.path.exists(te)) or (names is not None and name not in names):
            continue
        if name in SPECIFIC:
            fn = getattr(base, SPECIFIC[name])
            loader_checks(R, lambda s, r, fn=fn: fn(split=s, return_X_y=r), tr, te, f"{SPECIFIC[name]}()")
        if generic_too or name not in SPECIFIC:
            loader_checks(R, lambda s, r, name=name: base.load_UCR_UEA_dataset(name, split=s, return_X_y=r), tr, te,
                          f"load_UCR_UEA_dataset({name!r})")


def extracted_loaders(R, tmp, seed, sizes):
    """small hand-written data sets under an extract_path, loaded by load_UCR_UEA_dataset (never downloads: the folder exists)"""
    import sktime.datasets.base as base
    root = os.path.join(tmp, "extracted")
    os.makedirs(root, exist_ok=True)
    counter = 0
    for ntr, nte in sizes:
        for m in (1, 3):
            for pools in ((["a", "b"], ["b", "a"]), (["1", "2", "3"], ["3", "3", "1"]), (["x"], ["y"])):
                rng = np.random.RandomState((seed * 31 + counter * 101 + 3) % (2 ** 31))
                name = f"Syn{counter % 2}"
                d = os.path.join(root, name)
                os.makedirs(d, exist_ok=True)
                info = {}
                for part, cnt, pool in (("TRAIN", ntr, pools[0]), ("TEST", nte, pools[1])):
                    rows = [np.round(rng.randn(m) * 50, 4) for _ in range(cnt)]
                    labs = [pool[(i + counter) % len(pool)] for i in range(cnt)]
                    lines = ["# synthetic", f"@problemName {name}", "@timeStamps false", "@univariate true",
                             "@classLabel true " + " ".join(sorted(set(pools[0] + pools[1]))), "@data"]
                    lines += [",".join(repr(float(v)) for v in r) + ":" + l for r, l in zip(rows, labs)]
                    with open(os.path.join(d, f"{name}_{part}.ts"), "w", encoding="utf-8") as fh:
                        fh.write("\n".join(lines) + "\n")
                    info[part] = (short(rows), labs)
                loader_checks(R, lambda s, r: base.load_UCR_UEA_dataset(name, split=s, return_X_y=r, extract_path=root),
                              os.path.join(d, name + "_TRAIN.ts"), os.path.join(d, name + "_TEST.ts"),
                              f"load_UCR_UEA_dataset(extract_path=<tmp>) train={info['TRAIN']} test={info['TEST']}")
                counter += 1


# ------------------------------------------------------------------ entry points
def bounded(tier, seed):
    quick = tier == "quick"
    ns = (1, 2, 4) if quick else (1, 2, 3, 4, 6)
    ms = (1, 2, 3, 5, 7) if quick else (1, 2, 3, 4, 5, 7, 10, 24)
    fn = (1, 3) if quick else (1, 2, 3, 4)
    fm = (1, 2, 4) if quick else (1, 2, 3, 4, 6)
    fmag = ("1e-5", "1", "250", "1e6", "mixed-wide", "ints") if quick else MAGNITUDES
    R = Recorder(
        f"write->load of .ts: univariate equal-length panels with {ns} instances x {ms} time points, value families {MAGNITUDES} "
        f"(float64/float32/int64, finite), label sets {LABEL_KINDS} in list/ndarray/Series/tuple containers, comments {len(COMMENTS)} kinds "
        f"(absent, empty, short, wrapping with tag-like words), headers {HEADERS}, outer/inner index range/offset/strings, two problem names "
        f"(option combinations rotated over the cases, plus one full sweep of all {len(COMMENTS) * len(HEADERS) * len(OUTER_INDEX) * len(INNER_INDEX) * len(NAMES)} "
        f"option combinations on a 3x4 panel), files rewritten in place; hand-written .ts/.arff/.tsv files of panels {fn} x {fm} "
        f"(families {fmag}, integer/string/no labels, 3 header styles, both return forms) and every bundled data set shipping more than one format "
        f"(ArrowHead, GunPoint: ts/arff/tsv; BasicMotions: ts/arff, 6 dimensions); every bundled data set with TRAIN/TEST .ts files "
        f"(specific load_* function and load_UCR_UEA_dataset) x split train/test/None x return_X_y, and small hand-written data sets under extract_path. "
        f"Not covered: timestamps, multivariate writing (univariate=False), missing values, unequal-length writing, empty panels/series, "
        f"labels containing spaces/colons/empty strings, downloads.")
    tmp = tempfile.mkdtemp(prefix="c18_")
    try:
        roundtrips(R, tmp, seed, ns, ms, MAGNITUDES, LABEL_KINDS, full_options=not quick)
        option_sweep(R, tmp, seed)
        formats_synthetic(R, tmp, seed, fn, fm, fmag)
        formats_bundled(R)
        extracted_loaders(R, tmp, seed, [(1, 1), (2, 3), (3, 2)] if quick else [(a, b) for a in (1, 2, 3, 4) for b in (1, 2, 3, 4)])
        bundled_loaders(R, generic_too=not quick)
    finally:
        shutil.rmtree(tmp, ignore_errors=True)
    return R.result()


def replay(rec):
    m = rec.get("model") or {}
    target = str(rec.get("target") or "")
    R = Recorder("replay")
    n = min(max(mint(m, "n", 3), 1), 6)
    T = min(max(mint(m, "T", mint(m, "m", mint(m, "series_length", 4))), 1), 12)
    inp = {"n": n, "T": T}
    tmp = tempfile.mkdtemp(prefix="c18_")
    try:
        if "dataset" in target or "base" in target:
            extracted_loaders(R, tmp, 0, [(n, max(1, T % 4 + 1)), (2, 3)])
            bundled_loaders(R, names=("UnitTest", "GunPoint", "ArrowHead", "ItalyPowerDemand", "BasicMotions"), generic_too=False)
            inp["datasets"] = ["UnitTest", "GunPoint", "ArrowHead", "ItalyPowerDemand", "BasicMotions"]
        else:
            roundtrips(R, tmp, 0, sorted({n, 2}), sorted({T, 3}), MAGNITUDES, LABEL_KINDS)
            formats_synthetic(R, tmp, 0, sorted({n, 2}), sorted({T, 3}), ("1", "250", "1e6", "ints"))
            if "arff" in target or "tsv" in target:
                formats_bundled(R)
    finally:
        shutil.rmtree(tmp, ignore_errors=True)
    f = R.failures
    return {"reproduced": bool(f), "detail": f[:3], "input": inp}
