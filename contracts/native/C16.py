"""C16 native oracle: fitted panel estimators treat instances independently and ignore the container.

Every runnable panel transformer / classifier of the snapshot is fitted on a small panel and applied to a second
panel; the property clauses are then evaluated on the REAL code by comparing its outputs on independently built
variants of the same data (containers are built here with plain pandas / numpy, never with the library's converters;
permutations / selections are made on plain python lists before the container is built).
"""
import random

import numpy as np
import pandas as pd

from .common import Recorder, ints_from_model, mint  # noqa: F401

TOL = 1e-9

# --------------------------------------------------------------------------------------------------------------
# data: a panel is a python list of instances, an instance is a list of 1-D float arrays (one per column)


def _walk(rng, n, d, m, kind):
    """kind: 'smooth' random walks (2 decimals), 'coarse' integer valued walks (many equal values / ties)"""
    X = rng.normal(size=(n, d, m)).cumsum(axis=-1)
    X = np.round(X, 0) if kind == "coarse" else np.round(X, 2)
    return [[np.array(X[i, j], dtype=float) for j in range(d)] for i in range(n)]


def _container(P, how):
    """build the container `how` for the panel P independently of the library"""
    n, d = len(P), len(P[0])
    if how == "3d":
        return np.array([[np.array(c, dtype=float) for c in inst] for inst in P], dtype=float)
    cells = "np" if how == "nested-np" else "series"
    prefix = "dim" if how == "nested-named" else "var"
    cols = {}
    for j in range(d):
        cols["%s_%d" % (prefix, j)] = [pd.Series(np.array(P[i][j], dtype=float)) if cells == "series"
                                       else np.array(P[i][j], dtype=float) for i in range(n)]
    df = pd.DataFrame(cols)
    if how == "nested-named":
        df.index = pd.RangeIndex(3, 3 + n)
    return df


def _desc(P):
    return "[" + "; ".join(" | ".join(np.array2string(c, separator=",", max_line_width=10000) for c in inst) for inst in P) + "]"


# --------------------------------------------------------------------------------------------------------------
# outputs -> canonical per-row values


def _canon(x):
    if isinstance(x, pd.DataFrame):
        return tuple(tuple(_canon(x.iat[i, j]) for j in range(x.shape[1])) for i in range(x.shape[0]))
    if isinstance(x, pd.Series):
        if not isinstance(x.index, pd.RangeIndex):        # a bag: the labels carry information
            return _canon(dict(zip(list(x.index), list(x.values))))
        x = x.values
    if isinstance(x, np.ndarray):
        if x.dtype == object:
            return tuple(_canon(e) for e in x)
        if x.dtype.kind in "biuf":
            return np.array(x, dtype=float)
        return tuple(str(e) for e in x.ravel())
    if isinstance(x, dict):
        items = [(_canon(k), _canon(v)) for k, v in x.items() if not (isinstance(v, (int, np.integer)) and v == 0)]
        return ("bag",) + tuple(sorted(items, key=repr))
    if isinstance(x, (list, tuple)):
        return tuple(_canon(e) for e in x)
    if isinstance(x, (bool, np.bool_)):
        return float(x)
    if isinstance(x, (int, np.integer)):
        return int(x)
    if isinstance(x, (float, np.floating)):
        return float(x)
    return x


def _same(a, b):
    if isinstance(a, np.ndarray) or isinstance(b, np.ndarray):
        if not (isinstance(a, np.ndarray) and isinstance(b, np.ndarray)):
            return False
        return a.shape == b.shape and bool(np.allclose(a, b, rtol=TOL, atol=TOL, equal_nan=True))
    if isinstance(a, tuple) or isinstance(b, tuple):
        if not (isinstance(a, tuple) and isinstance(b, tuple)) or len(a) != len(b):
            return False
        return all(_same(u, v) for u, v in zip(a, b))
    if isinstance(a, float) or isinstance(b, float):
        try:
            return bool(np.isclose(float(a), float(b), rtol=TOL, atol=TOL, equal_nan=True))
        except (TypeError, ValueError):
            return False
    return a == b


def _flat(v):
    """a row of primitives is the same row whether it comes as DataFrame cells or as an array row"""
    if isinstance(v, tuple) and v and all(isinstance(e, (int, float)) for e in v):
        return np.array(v, dtype=float)
    if isinstance(v, (int, float)):
        return np.array([v], dtype=float)
    if isinstance(v, np.ndarray) and v.ndim == 0:
        return v.reshape(1)
    return v


def _rows(out):
    return [_flat(v) for v in _rows0(out)]


def _rows0(out):
    """list with one canonical value per output row (instance)"""
    if isinstance(out, pd.DataFrame):
        return [tuple(_canon(out.iat[i, j]) for j in range(out.shape[1])) for i in range(out.shape[0])]
    if isinstance(out, pd.Series):
        return [_canon(v) for v in out.values]
    if isinstance(out, np.ndarray):
        return [_canon(out[i]) for i in range(out.shape[0])]
    if isinstance(out, list) and out and isinstance(out[0], list):       # SFA: [bags of column 0, ...]
        n = len(out[0])
        return [tuple(_canon(col[i]) for col in out) for i in range(n)]
    raise TypeError("unsupported output type %s" % type(out).__name__)


def _short(v, limit=260):
    s = repr(v).replace("\n", " ")
    return s if len(s) <= limit else s[:limit] + "..."


# --------------------------------------------------------------------------------------------------------------
# registry of runnable estimators: (name, factory(m) -> estimator, apply-methods, columns, min length, flags)


def _col_mean(a):
    return np.asarray(a).mean(axis=0)


def _col_cumsum(a):
    return np.cumsum(np.asarray(a), axis=0)


def _powerspectrum(a):
    f = np.fft.fft(np.asarray(a), axis=0)
    ps = f.real * f.real + f.imag * f.imag
    return ps[: ps.shape[0] // 2]


class Spec:
    def __init__(self, name, make, methods, cols, min_m=4, ragged=False, kinds=("smooth", "coarse"), cost=1, tweak=None):
        self.name, self.make, self.methods, self.cols = name, make, methods, cols
        self.min_m, self.ragged, self.kinds, self.cost, self.tweak = min_m, ragged, kinds, cost, tweak


def _registry(tier):
    from sklearn.preprocessing import FunctionTransformer, StandardScaler
    from sktime.classification.compose import ColumnEnsembleClassifier
    from sktime.classification.dictionary_based import (BOSSEnsemble, ContractableBOSS, IndividualBOSS, IndividualTDE,
                                                        MUSE, TemporalDictionaryEnsemble)
    from sktime.forecasting.exp_smoothing import ExponentialSmoothing
    from sktime.transformations.panel.compose import (ColumnConcatenator, SeriesToPrimitivesRowTransformer,
                                                      SeriesToSeriesRowTransformer)
    from sktime.transformations.panel.dictionary_based import PAA, SAX, SFA
    from sktime.transformations.panel.dwt import DWTTransformer
    from sktime.transformations.panel.hog1d import HOG1DTransformer
    from sktime.transformations.panel.interpolate import TSInterpolator
    from sktime.transformations.panel.matrix_profile import MatrixProfile
    from sktime.transformations.panel.padder import PaddingTransformer
    from sktime.transformations.panel.pca import PCATransformer
    from sktime.transformations.panel.reduce import Tabularizer
    from sktime.transformations.panel.segment import IntervalSegmenter, RandomIntervalSegmenter, SlidingWindowSegmenter
    from sktime.transformations.panel.shapelets import ShapeletTransform
    from sktime.transformations.panel.slope import SlopeTransformer
    from sktime.transformations.panel.summarize import (DerivativeSlopeTransformer, FittedParamExtractor, PlateauFinder,
                                                        RandomIntervalFeatureExtractor)
    from sktime.transformations.panel.truncation import TruncationTransformer

    th = tier == "thorough"
    T, C = ("transform",), ("predict", "predict_proba")
    S = []

    def add(*a, **k):
        S.append(Spec(*a, **k))

    # ---- panel-to-panel / panel-to-tabular transformers
    for k in ((1, 2, 3, 4, 5, 6, 7) if th else (1, 3, 4, 5, 6)):
        add("PAA(num_intervals=%d)" % k, lambda m, k=k: PAA(num_intervals=k), T, (1, 2), min_m=max(k, 4))
    for k in ((1, 2, 3, 5) if th else (2, 3)):
        add("SlopeTransformer(num_intervals=%d)" % k, lambda m, k=k: SlopeTransformer(num_intervals=k), T, (1, 2), min_m=2 * k + 2)
    for lv in ((0, 1, 2, 3) if th else (0, 2)):
        add("DWTTransformer(num_levels=%d)" % lv, lambda m, lv=lv: DWTTransformer(num_levels=lv), T, (1, 2), min_m=8)
    for ni, nb in (((1, 8), (2, 4), (3, 2)) if th else ((2, 4),)):
        add("HOG1DTransformer(num_intervals=%d,num_bins=%d)" % (ni, nb),
            lambda m, ni=ni, nb=nb: HOG1DTransformer(num_intervals=ni, num_bins=nb), T, (1, 2), min_m=8)
    add("DerivativeSlopeTransformer()", lambda m: DerivativeSlopeTransformer(), T, (1, 2))
    for v, ml in (((0.0, 1), (1.0, 2), (-1.0, 1)) if th else ((0.0, 1), (1.0, 2))):
        add("PlateauFinder(value=%s,min_length=%d)" % (v, ml), lambda m, v=v, ml=ml: PlateauFinder(value=v, min_length=ml),
            T, (1,), kinds=("coarse",))
    add("ColumnConcatenator()", lambda m: ColumnConcatenator(), T, (1, 2))
    add("Tabularizer()", lambda m: Tabularizer(), T, (1, 2))
    for L in ((3, 9, 20) if th else (9,)):
        add("TSInterpolator(%d)" % L, lambda m, L=L: TSInterpolator(L), T, (1, 2), ragged=True)
    for pl, fv in (((None, 0), (24, 0), (30, -1.5)) if th else ((None, 0), (24, -1.5))):
        add("PaddingTransformer(pad_length=%s,fill_value=%s)" % (pl, fv),
            lambda m, pl=pl, fv=fv: PaddingTransformer(pad_length=pl, fill_value=fv), T, (1, 2), ragged=True, cost=2)
    for lo, up in (((None, None), (2, None), (1, 4), (0, 3)) if th else ((None, None), (1, 4))):
        add("TruncationTransformer(lower=%s,upper=%s)" % (lo, up),
            lambda m, lo=lo, up=up: TruncationTransformer(lower=lo, upper=up), T, (1, 2), ragged=True, cost=2)
    for w in ((1, 3, 4) if th else (3,)):
        add("SlidingWindowSegmenter(window_length=%d)" % w, lambda m, w=w: SlidingWindowSegmenter(window_length=w), T, (1,))
    for w in ((3, 4, 6) if th else (4,)):
        add("MatrixProfile(m=%d)" % w, lambda m, w=w: MatrixProfile(m=w), T, (1,), min_m=8)
    for nc in ((1, 2, 3) if th else (2,)):
        add("PCATransformer(n_components=%d)" % nc, lambda m, nc=nc: PCATransformer(n_components=nc), T, (1,), kinds=("smooth",))
    for iv in ((1, 2, 3, 5) if th else (2, 3)):
        add("IntervalSegmenter(intervals=%d)" % iv, lambda m, iv=iv: IntervalSegmenter(intervals=iv), T, (1,), min_m=max(6, 2 * iv))
    add("IntervalSegmenter(intervals=[[0,3],[2,7]])", lambda m: IntervalSegmenter(intervals=np.array([[0, 3], [2, 7]])),
        T, (1,), min_m=7)
    ni_opts = (1, 3, "sqrt", "log", "random", 0.3) if th else (3, "sqrt", "random")
    for ni in ni_opts:
        for rs in ((0, 7) if th else (7,)):
            add("RandomIntervalSegmenter(n_intervals=%r,random_state=%d)" % (ni, rs),
                lambda m, ni=ni, rs=rs: RandomIntervalSegmenter(n_intervals=ni, random_state=rs), T, (1,), min_m=6)
            add("RandomIntervalFeatureExtractor(n_intervals=%r,features=[mean,std],random_state=%d)" % (ni, rs),
                lambda m, ni=ni, rs=rs: RandomIntervalFeatureExtractor(n_intervals=ni, features=[np.mean, np.std], random_state=rs),
                T, (1,), min_m=6)
    add("RandomIntervalSegmenter(n_intervals=4,min_length=3,max_length=5,random_state=1)",
        lambda m: RandomIntervalSegmenter(n_intervals=4, min_length=3, max_length=5, random_state=1), T, (1,), min_m=6)
    add("RandomIntervalFeatureExtractor(n_intervals='sqrt',features=None,random_state=3)",
        lambda m: RandomIntervalFeatureExtractor(n_intervals="sqrt", random_state=3), T, (1,), min_m=6)
    add("SeriesToPrimitivesRowTransformer(FunctionTransformer(column mean))",
        lambda m: SeriesToPrimitivesRowTransformer(FunctionTransformer(func=_col_mean, validate=False), check_transformer=False), T, (1, 2))
    add("SeriesToSeriesRowTransformer(FunctionTransformer(cumsum))",
        lambda m: SeriesToSeriesRowTransformer(FunctionTransformer(func=_col_cumsum, validate=False), check_transformer=False), T, (1, 2), cost=2)
    add("SeriesToSeriesRowTransformer(FunctionTransformer(powerspectrum))",
        lambda m: SeriesToSeriesRowTransformer(FunctionTransformer(func=_powerspectrum, validate=False), check_transformer=False), T, (1, 2), cost=2)
    add("SeriesToSeriesRowTransformer(StandardScaler())",
        lambda m: SeriesToSeriesRowTransformer(StandardScaler(), check_transformer=False), T, (1, 2), kinds=("smooth",))
    add("FittedParamExtractor(ExponentialSmoothing(),['initial_level'])",
        lambda m: FittedParamExtractor(ExponentialSmoothing(), ["initial_level"]), T, (1,), kinds=("smooth",), cost=4)
    add("ShapeletTransform(min=3,max=4,store=3,random_state=1)",
        lambda m: ShapeletTransform(min_shapelet_length=3, max_shapelet_length=4, max_shapelets_to_store_per_class=3,
                                    random_state=1, verbose=0), T, (1,), min_m=8, cost=6)
    # ---- dictionary based transformers
    sax = ((2, 2, 4), (3, 3, 6), (3, 2, 7)) if th else ((3, 3, 6), (3, 2, 7))
    for wl, a, ws in sax:
        for rr in ((False, True) if th else (False,)):
            add("SAX(word_length=%d,alphabet_size=%d,window_size=%d,remove_repeat_words=%s)" % (wl, a, ws, rr),
                lambda m, wl=wl, a=a, ws=ws, rr=rr: SAX(word_length=wl, alphabet_size=a, window_size=ws, remove_repeat_words=rr),
                T, (1,), min_m=8, cost=2)
    sfa = [dict(word_length=4, alphabet_size=3, window_size=8), dict(word_length=2, alphabet_size=2, window_size=6, norm=True),
           dict(word_length=4, alphabet_size=4, window_size=7, bigrams=True, remove_repeat_words=True),
           dict(word_length=2, alphabet_size=4, window_size=4, levels=2, save_words=True)]
    if th:
        sfa += [dict(word_length=3, alphabet_size=2, window_size=5, binning_method="equi-width", lower_bounding=False),
                dict(word_length=4, alphabet_size=3, window_size=6, anova=True), dict(word_length=2, alphabet_size=3, window_size=4, skip_grams=True),
                dict(word_length=4, alphabet_size=4, window_size=8, return_pandas_data_series=True),
                dict(word_length=6, alphabet_size=4, window_size=10, levels=3, bigrams=True)]
    for kw in sfa:
        add("SFA(%s)" % ",".join("%s=%r" % kv for kv in kw.items()), lambda m, kw=kw: SFA(**kw), T, (1,), min_m=max(8, kw["window_size"]))
    # ---- classifiers
    boss = ((6, 2, 2, False), (8, 4, 4, False), (5, 2, 3, True)) if not th else \
        ((6, 2, 2, False), (8, 4, 4, False), (5, 2, 3, True), (4, 2, 2, False), (7, 3, 4, True))
    for ws, wl, a, nm in boss:
        for rs in ((0, 1, 2) if th else (1,)):
            add("IndividualBOSS(window_size=%d,word_length=%d,alphabet_size=%d,norm=%s,random_state=%d)" % (ws, wl, a, nm, rs),
                lambda m, ws=ws, wl=wl, a=a, nm=nm, rs=rs: IndividualBOSS(window_size=ws, word_length=wl, alphabet_size=a, norm=nm, random_state=rs),
                C, (1,), min_m=8, kinds=("smooth", "coarse", "dup"), cost=2)
    for ws, wl, lv in (((6, 2, 1), (8, 4, 2)) if not th else ((6, 2, 1), (8, 4, 2), (5, 3, 3), (7, 2, 1))):
        for rs in ((0, 1) if th else (1,)):
            add("IndividualTDE(window_size=%d,word_length=%d,levels=%d,random_state=%d)" % (ws, wl, lv, rs),
                lambda m, ws=ws, wl=wl, lv=lv, rs=rs: IndividualTDE(window_size=ws, word_length=wl, levels=lv, random_state=rs),
                C, (1, 2), min_m=8, kinds=("smooth", "coarse", "dup"), cost=2)
    for rs in ((0, 1) if th else (0,)):
        add("BOSSEnsemble(max_ensemble_size=3,random_state=%d)" % rs, lambda m, rs=rs: BOSSEnsemble(max_ensemble_size=3, random_state=rs),
            C, (1,), min_m=12, cost=6, kinds=("smooth", "coarse", "dup"))
        add("ContractableBOSS(n_parameter_samples=5,max_ensemble_size=3,random_state=%d)" % rs,
            lambda m, rs=rs: ContractableBOSS(n_parameter_samples=5, max_ensemble_size=3, random_state=rs),
            C, (1,), min_m=12, cost=6, kinds=("smooth", "coarse", "dup"))

        def no_igb(e):
            e.igb_options = [False]       # information-gain binning does not run under the installed sklearn
            return e
        add("TemporalDictionaryEnsemble(n_parameter_samples=4,max_ensemble_size=2,randomly_selected_params=4,random_state=%d)[igb off]" % rs,
            lambda m, rs=rs: TemporalDictionaryEnsemble(n_parameter_samples=4, max_ensemble_size=2, randomly_selected_params=4, random_state=rs),
            C, (1, 2), min_m=12, cost=8, tweak=no_igb, kinds=("smooth", "coarse", "dup"))
        add("MUSE(p_threshold=1.0,random_state=%d)" % rs, lambda m, rs=rs: MUSE(p_threshold=1.0, random_state=rs), C, (1, 2), min_m=10, cost=6, kinds=("smooth",))
        add("MUSE(random_state=%d)" % rs, lambda m, rs=rs: MUSE(random_state=rs), C, (1, 2), min_m=10, cost=6, kinds=("smooth",))
        add("MUSE(use_first_order_differences=False,bigrams=False,p_threshold=1.0,random_state=%d)" % rs,
            lambda m, rs=rs: MUSE(use_first_order_differences=False, bigrams=False, p_threshold=1.0, random_state=rs), C, (1, 2), min_m=10, cost=6, kinds=("smooth",))
        add("BOSSEnsemble(max_ensemble_size=2,random_state=%d)" % rs, lambda m, rs=rs: BOSSEnsemble(max_ensemble_size=2, random_state=rs),
            C, (1,), min_m=12, cost=6, kinds=("coarse", "dup", "smooth"))
        add("ContractableBOSS(n_parameter_samples=4,max_ensemble_size=2,random_state=%d)" % rs,
            lambda m, rs=rs: ContractableBOSS(n_parameter_samples=4, max_ensemble_size=2, random_state=rs),
            C, (1,), min_m=12, cost=6, kinds=("coarse", "dup", "smooth"))
    add("ColumnEnsembleClassifier([IndividualBOSS on column 0, IndividualBOSS on column 1])",
        lambda m: ColumnEnsembleClassifier([("a", IndividualBOSS(window_size=6, word_length=2, alphabet_size=2, random_state=1), [0]),
                                            ("b", IndividualBOSS(window_size=5, word_length=2, alphabet_size=3, random_state=2), [1])]),
        C, (2,), min_m=8, kinds=("smooth", "coarse", "dup"), cost=2)
    add("ColumnEnsembleClassifier([IndividualTDE on column 1])",
        lambda m: ColumnEnsembleClassifier([("b", IndividualTDE(window_size=6, word_length=2, random_state=1), [1])]),
        C, (2,), min_m=8)
    return S


NOT_RUNNABLE = ("TimeSeriesForestClassifier/Regressor, RandomIntervalSpectralForest, SupervisedTimeSeriesForest, the composable forests "
                "(sklearn BaseForest API), ColumnTransformer (sklearn _iter API), WEASEL and information-gain binning (sklearn parameter "
                "validation), the Rocket family / ROCKETClassifier / ShapeletTransformClassifier (numba.vectorize), the distance based "
                "classifiers (sklearn.neighbors internals), Catch22 and TSFresh (packages missing): no regressor is runnable")


# --------------------------------------------------------------------------------------------------------------


class _Run:
    """one estimator specification on one data scenario"""

    def __init__(self, R, spec, Ptr, ytr, Pte, tag, pyrng, tier, flip=0):
        self.R, self.spec, self.Ptr, self.ytr, self.Pte, self.tag, self.rnd, self.tier = R, spec, Ptr, ytr, Pte, tag, pyrng, tier
        self.flip = flip
        self.dtr, self.dte = _desc(Ptr), _desc(Pte)
        self.m = max(len(c) for inst in Ptr for c in inst)
        self.equal = len({len(c) for P in (Ptr, Pte) for inst in P for c in inst}) == 1

    def fit(self, how):
        est = self.spec.make(self.m)
        if self.spec.tweak:
            est = self.spec.tweak(est)
        est.fit(_container(self.Ptr, how), np.array(self.ytr))
        return est

    def apply(self, est, method, P, how):
        return _rows(getattr(est, method)(_container(P, how)))

    def where(self, fit_how, method, how):
        return "%s %s: fit on %s %s, %s on %s" % (self.spec.name, self.tag, fit_how, "train=" + self.dtr + " y=" + str(list(self.ytr)), method, how)

    def attempt(self, key, fn, ctx, fh=None, ah=None):
        """run fn; an exception on valid input that other containers / batches accept violates the clause exercised"""
        try:
            return fn()
        except Exception as e:  # noqa: BLE001
            kf = _known_exception(self.spec, fh, ah, e)
            self.R.check(kf or key, False, "%s raised %s: %s" % (ctx, type(e).__name__, str(e)[:300]))
            return None

    def run(self):
        R, spec = self.R, self.spec
        th = self.tier == "thorough"
        n = len(self.Pte)
        hows = ["nested", "3d", "nested-np", "nested-named"] if self.equal else ["nested", "nested-np", "nested-named"]
        ests, errs = {}, {}
        for fh in hows:
            try:
                ests[fh] = self.fit(fh)
            except Exception as e:  # noqa: BLE001
                errs[fh] = e
        if not ests:
            return                        # the configuration is rejected whatever the container: nothing to compare
        for fh, e in errs.items():
            R.check(_known_exception(spec, fh, None, e) or "container-at-fit", False, "%s %s: fit on %s raised %s: %s but fit on %s succeeded; train=%s y=%s" % (
                spec.name, self.tag, fh, type(e).__name__, str(e)[:300], sorted(ests), self.dtr, list(self.ytr)))
        if "nested" not in ests:
            return
        for method in spec.methods:
            refs = {}
            rerr = {}
            for ah in hows:
                try:
                    refs[ah] = self.apply(ests["nested"], method, self.Pte, ah)
                except Exception as e:  # noqa: BLE001
                    rerr[ah] = e
            if not refs:
                continue
            for ah, e in rerr.items():
                R.check(_known_exception(spec, "nested", ah, e) or "container-at-apply", False, "%s X=%s raised %s: %s but %s on %s succeeded" % (
                    self.where("nested", method, ah), self.dte, type(e).__name__, str(e)[:300], method, sorted(refs)))
            if "nested" not in refs:
                continue
            ref = refs["nested"]
            R.check("row-count", len(ref) == n, "%s X=%s: %d output rows for %d instances" % (self.where("nested", method, "nested"), self.dte, len(ref), n))
            if len(ref) != n:
                continue
            # ---- the container at fit / at apply time does not matter
            for fh in hows:
                if fh not in ests:
                    continue
                if fh == "nested":
                    ahs = [h for h in hows if h != "nested" and h in refs]
                elif th:
                    ahs = hows
                elif fh == "3d":
                    ahs = ["nested", "3d"]
                else:
                    ahs = ["nested"]
                for ah in ahs:
                    ctx = self.where(fh, method, ah) + " X=" + self.dte
                    key = "container-at-apply" if fh == "nested" else ("container-at-fit" if ah == "nested" else "container-at-fit-and-apply")
                    if fh == "nested":
                        got = refs[ah]
                    else:
                        if ah in rerr:
                            continue      # already reported for the reference estimator
                        got = self.attempt(key, lambda fh=fh, ah=ah: self.apply(ests[fh], method, self.Pte, ah), ctx, fh, ah)
                        if got is None:
                            continue
                    R.check("row-count", len(got) == n, "%s: %d output rows for %d instances" % (ctx, len(got), n))
                    bad = [i for i in range(min(n, len(got))) if not _same(got[i], ref[i])]
                    R.check(key, not bad and len(got) == n, "%s: rows %s differ from fit on nested / apply on nested; row %s: %s vs %s" % (
                        ctx, bad, bad[:1], _short(got[bad[0]]) if bad else "", _short(ref[bad[0]]) if bad else ""))
            # ---- instance-wise mapping, for the estimator fitted on either container
            fhs = [h for h in ("nested", "3d") if h in ests]
            if (not th or spec.cost >= 2) and len(fhs) == 2:
                fhs = [fhs[self.flip % 2]]
            for fh in fhs:
                est = ests[fh]
                ah = "3d" if (fh == "nested" and self.equal) else "nested"
                base = self.attempt("permutation-equivariance", lambda: self.apply(est, method, self.Pte, ah), self.where(fh, method, ah) + " X=" + self.dte)
                if base is None or len(base) != n:
                    continue
                idx = list(range(n))
                perms = [idx[::-1], idx[1:] + idx[:1]] if th else [idx[::-1]]
                for _ in range(2 if th else 1):
                    p = idx[:]
                    self.rnd.shuffle(p)
                    perms.append(p)
                perms.append(idx)                       # the identity: a repeated call gives the same rows
                for p in perms:
                    ctx = "%s X=%s permuted by %s" % (self.where(fh, method, ah), self.dte, p)
                    got = self.attempt("permutation-equivariance", lambda p=p: self.apply(est, method, [self.Pte[i] for i in p], ah), ctx)
                    if got is None:
                        continue
                    R.check("row-count", len(got) == n, "%s: %d output rows for %d instances" % (ctx, len(got), n))
                    bad = [k for k in range(min(len(got), n)) if not _same(got[k], base[p[k]])]
                    self.verdict("permutation-equivariance", est, method, bad, got, base, p, ctx, n, ah)
                for i in idx:
                    ctx = "%s X=%s, instance %d alone" % (self.where(fh, method, ah), self.dte, i)
                    got = self.attempt("single-instance-equals-batch-row", lambda i=i: self.apply(est, method, [self.Pte[i]], ah), ctx)
                    if got is None:
                        continue
                    R.check("row-count", len(got) == 1, "%s: %d output rows for 1 instance" % (ctx, len(got)))
                    bad = [0] if (len(got) != 1 or not _same(got[0], base[i])) else []
                    self.verdict("single-instance-equals-batch-row", est, method, bad, got, base, [i], ctx, 1, ah)
                sels = [idx[:2], [idx[-1], idx[0], idx[-1]], [i for i in idx for _ in (0, 1)]]
                if th:
                    sels.append(idx[-2:][::-1])
                for _ in range(2 if th else 1):
                    sels.append([self.rnd.randrange(n) for _ in range(self.rnd.randint(1, n + 1))])
                for s in sels:
                    ctx = "%s X=%s, sub-selection %s" % (self.where(fh, method, ah), self.dte, s)
                    got = self.attempt("subselection-equals-batch-rows", lambda s=s: self.apply(est, method, [self.Pte[i] for i in s], ah), ctx)
                    if got is None:
                        continue
                    R.check("row-count", len(got) == len(s), "%s: %d output rows for %d instances" % (ctx, len(got), len(s)))
                    bad = [k for k in range(min(len(got), len(s))) if not _same(got[k], base[s[k]])]
                    self.verdict("subselection-equals-batch-rows", est, method, bad, got, base, s, ctx, len(s), ah)

    def verdict(self, key, est, method, bad, got, base, sel, ctx, want_n, ah):
        ok = not bad and len(got) == want_n
        if not ok and len(got) == want_n:
            key = _known_mismatch(self.spec, est, method, bad, got, base, sel, [self.Pte[i] for i in sel], ah) or key
        self.R.check(key, ok, "%s: output rows %s differ from the rows of the batch output for the same instances; first: got %s, batch row %s" % (
            ctx, bad, _short(got[bad[0]]) if bad else "", _short(base[sel[bad[0]]]) if bad else ""))


# genuine defects of the unchanged tree: reported under their own narrow keys, everything else keeps the clause key

_NDARRAY_CELLS = {"PaddingTransformer": (AttributeError, "'numpy.ndarray' object has no attribute 'iloc'"),
                  "TruncationTransformer": (AttributeError, "'numpy.ndarray' object has no attribute 'iloc'"),
                  "TSInterpolator": (AttributeError, "'numpy.ndarray' object has no attribute 'to_numpy'"),
                  "MUSE": (AttributeError, "'numpy.ndarray' object has no attribute 'diff'"),
                  "FittedParamExtractor": (TypeError, "Data must be a one of")}
_TIE_ENSEMBLES = ("BOSSEnsemble", "ContractableBOSS", "TemporalDictionaryEnsemble")


def _cls(spec):
    return spec.name.split("(")[0]


def _known_exception(spec, fit_how, apply_how, exc):
    cls = _cls(spec)
    how = apply_how if apply_how is not None else fit_how
    if how == "nested-np" and cls in _NDARRAY_CELLS:
        typ, frag = _NDARRAY_CELLS[cls]
        if type(exc) is typ and frag in str(exc):
            # a nested DataFrame whose cells are ndarrays (check_X accepts it, from_3d_numpy_to_nested(cells_as_numpy=True)
            # produces it) crashes while the same data as Series cells / 3D array is accepted
            return "KF:nested-ndarray-cells-crash:" + cls
    if cls == "MUSE" and apply_how is not None and type(exc) is KeyError and "are in the [columns]" in str(exc):
        named_fit, named_apply = fit_how == "nested-named", apply_how == "nested-named"
        if named_fit != named_apply:
            # columns are looked up by the NAMES seen in fit: a 3D array (var_0..) and a DataFrame with other names differ
            return "KF:MUSE-selects-columns-by-fit-time-names"
    return None


def _known_mismatch(spec, est, method, bad, got, base, sel, Psel, ah):
    """BOSSEnsemble / ContractableBOSS / TemporalDictionaryEnsemble.predict break probability ties with ONE generator shared by
    the whole batch; only fires when predict_proba of the instance (alone) is tied and both labels are among the tied classes"""
    if _cls(spec) not in _TIE_ENSEMBLES or method != "predict":
        return None
    try:
        classes = [float(c) for c in est.classes_]
        for k in bad:
            proba = np.asarray(est.predict_proba(_container([Psel[k]], ah)))[0]
            top = {classes[t] for t in np.flatnonzero(proba == proba.max())}
            if len(top) < 2 or float(got[k][0]) not in top or float(base[sel[k]][0]) not in top:
                return None
    except Exception:  # noqa: BLE001
        return None
    return "KF:ensemble-predict-tie-break-depends-on-batch-position"


# --------------------------------------------------------------------------------------------------------------


def _scenarios(tier, seed):
    """(n_train, n_test, length) -- train sizes differ from the lengths and include n_train > length"""
    if tier == "quick":
        return [(6, 4, 10), (9, 3, 8), (5, 4, 14)]
    return [(6, 4, 10), (9, 3, 8), (5, 4, 14), (7, 5, 16), (12, 2, 7), (10, 6, 12)]


def _signal(P, y):
    """class dependent drift so that supervised feature selection has something to find"""
    return [[np.round(c + 0.8 * y[i] * np.arange(len(c)), 2) for c in inst] for i, inst in enumerate(P)]


def _make(rng, kind, ntr, nte, d, m, supervised):
    if kind == "dup":
        # every training series occurs twice, once per class: exact distance ties; the test panel contains training
        # series, some of them repeatedly
        half = _walk(rng, (ntr + 1) // 2, d, m, "coarse")
        Ptr = half + [[c.copy() for c in inst] for inst in half]
        ytr = [0] * len(half) + [1] * len(half)
        Pte = [[c.copy() for c in half[i % len(half)]] for i in range(nte)]
        if nte > 2:
            Pte[-1] = _walk(rng, 1, d, m, "coarse")[0]
        return Ptr, ytr, Pte
    Ptr = _walk(rng, ntr, d, m, kind)
    Pte = _walk(rng, nte, d, m, kind)
    ytr = [i % 2 for i in range(ntr)]
    if ntr >= 7:
        ytr[-1], ytr[-3] = 2, 2                            # a small third class
    if supervised and kind == "smooth":
        Ptr = _signal(Ptr, ytr)
        Pte = _signal(Pte, [i % 3 for i in range(nte)])
    return Ptr, ytr, Pte


def _ragged(rng, P, lo):
    """cut every instance to its own length (all columns of an instance keep one length)"""
    out = []
    for inst in P:
        L = int(rng.randint(lo, len(inst[0]) + 1))
        out.append([c[:L].copy() for c in inst])
    return out


def _drive(R, tier, seed, only=None, scen=None, budget=None):
    import time
    t0 = time.time()
    specs = _registry(tier)
    pyrng = random.Random(seed)
    done = {}
    flip = seed
    for si, (ntr, nte, m) in enumerate(scen or _scenarios(tier, seed)):
        for spec in specs:
            if only and only not in spec.name:
                continue
            if m < spec.min_m:
                continue
            cap = (1 if spec.cost >= 6 else 2 if spec.cost >= 2 else 3) if tier == "quick" else (3 if spec.cost >= 6 else 5 if spec.cost >= 2 else 99)
            if done.get(spec.name, 0) >= cap:
                continue
            done[spec.name] = done.get(spec.name, 0) + 1
            for d in spec.cols:
                for kind in spec.kinds:
                    if tier == "quick" and kind == "coarse" and len(spec.kinds) > 1 and (si + d) % 2 == 0 and "predict" not in spec.methods:
                        continue
                    rng = np.random.RandomState(1000 * seed + 97 * si + 13 * d + len(kind))
                    Ptr, ytr, Pte = _make(rng, kind, ntr, nte, d, m, "predict" in spec.methods)
                    tag = "[%s data, %d train x %d cols x %d points, %d test]" % (kind, len(Ptr), d, m, len(Pte))
                    flip += 1
                    _Run(R, spec, Ptr, ytr, Pte, tag, pyrng, tier, flip).run()
                    if spec.ragged:
                        Ptr2 = _ragged(rng, Ptr, 6)
                        Ptr2[0] = [c.copy() for c in Ptr[0]]          # the longest series is in the training panel
                        Pte2 = _ragged(rng, Pte, 6)
                        _Run(R, spec, Ptr2, ytr, Pte2, tag + "[unequal lengths, nested only]", pyrng, tier, flip).run()
            if budget and time.time() - t0 > budget:
                R.bound += " [stopped early after %ds: time budget]" % int(time.time() - t0)
                return


def bounded(tier, seed):
    R = Recorder(
        "every runnable panel estimator (PAA, SAX, SFA, Slope, DWT, HOG1D, DerivativeSlope, PlateauFinder, ColumnConcatenator, Tabularizer, "
        "TSInterpolator, Padding, Truncation, SlidingWindowSegmenter, MatrixProfile, PCA, IntervalSegmenter, RandomIntervalSegmenter, "
        "RandomIntervalFeatureExtractor, row transformers, FittedParamExtractor, ShapeletTransform; IndividualBOSS, IndividualTDE, BOSSEnsemble, "
        "ContractableBOSS, TemporalDictionaryEnsemble without information-gain binning, MUSE, ColumnEnsembleClassifier; integer random_state) over a "
        "grid of option values, panels of %s (train, test, length) with 1-2 columns, smooth / integer-valued / duplicated-with-opposite-labels data "
        "and unequal-length nested panels for the three resizing transformers; fit on {nested of Series, 3D array, nested of ndarrays, nested with "
        "dim_ names and row index from 3} x apply on the same four; reversal, rotation, random permutations, identity (repeat call), every single "
        "instance, prefixes / reversed suffix / repeated instances / random sub-selections. Not runnable here and not covered: %s"
        % ("6x4x10, 9x3x8, 5x4x14" if tier == "quick" else "6x4x10, 9x3x8, 5x4x14, 7x5x16, 12x2x7, 10x6x12", NOT_RUNNABLE))
    _drive(R, tier, seed, budget=50 if tier == "quick" else 540)
    return R.result()


def replay(rec):
    R = Recorder("replay")
    target = str(rec.get("target") or "") + " " + str(rec.get("case") or "")
    model = rec.get("model") or {}
    names = sorted({_cls(s) for s in _registry("quick")}, key=len, reverse=True)
    tokens = [t for t in target.replace(":", ".").replace("/", ".").replace(" ", ".").split(".") if t]
    only = None
    for cand in names:                                     # the class named by the target, if it is one of the runnable ones
        if cand in tokens or any(cand.lower() == t.lower().lstrip("_") for t in tokens):
            only = cand + "("
            break
    vals = [v for v in (mint(model, k, 0) for k in ("n_instances", "num_insts", "n", "n_timepoints", "num_atts", "m")) if v > 0]
    n = max(2, min(6, mint(model, "n_instances", 0) or mint(model, "num_insts", 0) or mint(model, "n", 0) or 4))
    m = max(8, min(16, mint(model, "n_timepoints", 0) or mint(model, "num_atts", 0) or mint(model, "m", 0) or 10))
    scen = [(n + 2, n, m), (9, 3, 8), (5, 4, 14)]
    _drive(R, "quick", mint(model, "seed", 0), only=only, scen=scen if only else scen[:2], budget=40 if only else 25)
    # a known finding (KF:) counts as a reproduction only if the replayed target is the class it is about
    f = [x for x in R.failures if only is not None or not x["key"].startswith("KF:")]
    f.sort(key=lambda x: x["key"].startswith("KF:"))
    return {"reproduced": bool(f), "detail": f[:3],
            "input": {"estimators": only or "all runnable", "scenarios (train, test, length)": [list(x) for x in scen], "model values used": vals}}
