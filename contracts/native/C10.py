"""C10 native oracle: call sequences over fit / update / predict / update_predict / update_predict_single on the real
forecasters, compared with (a) an independent plain-numpy model of "what has been observed, where is the cutoff, which
data were the parameters estimated on" and (b) the relational statements of the property itself (a fresh instance fitted
on the union; a copy driven by single update + predict calls)."""
import copy
import itertools
import random
import warnings

import numpy as np
import pandas as pd

from .common import Recorder, ints_from_model, mint

RTOL, ATOL = 1e-6, 1e-7


# ----------------------------------------------------------------------------------------------------------------------
# data: integer time t -> value; index kinds map t to a label of the real index
# ----------------------------------------------------------------------------------------------------------------------
_NOISE = np.random.RandomState(20260926).rand(257)


def val(t, rev=0):
    """value observed at time t; rev > 0 is a later revision of the same time point (must win on overlap)"""
    base = 30.0 + 0.8 * t + 2.5 * ((t * 7) % 5 - 2) + 3.0 * _NOISE[t % 257] + (0.05 * t * t if t % 11 == 0 else 0.0)
    return float(base + (2.0 + 0.3 * (t % 4)) * rev)


class IndexMap:
    def __init__(self, kind):
        self.kind = kind
        self._per = pd.period_range("2001-01", periods=200, freq="M") if kind == "period" else None

    def label(self, t):
        return self._per[t] if self.kind == "period" else t

    def index(self, ts):
        ts = list(ts)
        if self.kind == "period":
            return pd.PeriodIndex([self._per[t] for t in ts], freq="M")
        if self.kind == "int":
            return pd.Index(ts, dtype="int64")
        if not ts:
            return pd.RangeIndex(0, 0)
        return pd.RangeIndex(ts[0], ts[-1] + 1)

    def series(self, items):
        return pd.Series([v for _, v in items], index=self.index([t for t, _ in items]), dtype=float)

    def __repr__(self):
        return self.kind


def items(t0, t1, rev=0):
    """observations for t0 <= t <= t1"""
    return [(t, val(t, rev)) for t in range(t0, t1 + 1)]


# ----------------------------------------------------------------------------------------------------------------------
# independent models.  Common state: mem (everything observed, later wins), cut, and whatever refit() estimates.
# predict(fh) -> list of floats, or None when the property does not pin the value down (never a demand then).
# ----------------------------------------------------------------------------------------------------------------------
class Ref:
    def __init__(self):
        self.mem, self.cut, self.fresh = {}, None, False

    def fit(self, batch):
        self.mem = dict(batch)
        self.cut = batch[-1][0]
        self.refit()
        self.fresh = True

    def update(self, batch, up):
        for t, v in batch:
            self.mem[t] = v
        if batch:
            self.cut = batch[-1][0]
            self.fresh = False
        if up:
            self.refit()
            self.cut = max(self.mem)
            self.fresh = True

    def sorted_mem(self):
        ts = sorted(self.mem)
        return ts, [self.mem[t] for t in ts]

    def contiguous(self):
        ts = sorted(self.mem)
        return ts == list(range(ts[0], ts[-1] + 1))

    def refit(self):
        raise NotImplementedError

    def predict(self, fh):
        raise NotImplementedError

    def pinned(self):
        """False when a forecast from the present state is not defined at all (the window reaches before the data)"""
        return True


class RefNaive(Ref):
    def __init__(self, strategy="last", w=None, sp=1):
        super().__init__()
        self.strategy, self.w, self.sp = strategy, w, sp

    def refit(self):
        if self.strategy == "last":
            self.wl = 1 if self.sp == 1 else self.sp
        else:
            self.wl = self.w if self.w is not None else len(self.mem)

    def pinned(self):
        return all(t in self.mem for t in range(self.cut - self.wl + 1, self.cut + 1))

    def predict(self, fh):
        ts = range(self.cut - self.wl + 1, self.cut + 1)
        if any(t not in self.mem for t in ts):
            return None
        win = np.array([self.mem[t] for t in ts], dtype=float)
        if self.strategy == "last":
            if self.sp == 1:
                return [win[-1]] * len(fh)
            return [win[(h - 1) % self.sp] for h in fh]
        if self.strategy == "mean":
            if self.sp == 1:
                return [float(win.mean())] * len(fh)
            # season j (0-based, counted from the first point after the cutoff) = points cutoff-sp+1+j-k*sp in the window
            out = []
            for h in fh:
                j = (h - 1) % self.sp
                pts = [win[i] for i in range(len(win)) if (len(win) - 1 - i) % self.sp == (self.sp - 1 - j)]
                out.append(float(np.mean(pts)))
            return out
        slope = (win[-1] - win[0]) / (self.wl - 1)
        return [float(win[-1] + h * slope) for h in fh]


class RefPoly(Ref):
    def __init__(self, degree=1, intercept=True):
        super().__init__()
        self.degree, self.intercept = degree, intercept

    def refit(self):
        ts, vs = self.sorted_mem()
        self.t0 = ts[0]
        x = np.array(ts, dtype=float) - self.t0
        self.pows = list(range(0 if self.intercept else 1, self.degree + 1))
        A = np.column_stack([x ** p for p in self.pows])
        self.coef = np.linalg.lstsq(A, np.array(vs, dtype=float), rcond=None)[0]

    def at(self, t):
        x = float(t - self.t0)
        return float(sum(c * x ** p for c, p in zip(self.coef, self.pows)))

    def predict(self, fh):
        if min(self.mem) != self.t0 or not self.contiguous():
            return None
        return [self.at(self.cut + h) for h in fh]


class RefES(Ref):
    """statsmodels used directly (not through sktime): the fit on the data of the last refit, forecast at the
    time points cutoff + fh counted from the start of that data"""

    def __init__(self, trend=None):
        super().__init__()
        self.trend = trend

    def refit(self):
        from statsmodels.tsa.holtwinters import ExponentialSmoothing as SM
        ts, vs = self.sorted_mem()
        self.t0, self.t1 = ts[0], ts[-1]
        with warnings.catch_warnings():
            warnings.simplefilter("ignore")
            self.res = SM(pd.Series(vs, index=pd.RangeIndex(0, len(vs)), dtype=float), trend=self.trend, damped_trend=False,
                          seasonal=None, seasonal_periods=None, initialization_method="estimated").fit()

    def predict(self, fh):
        if min(self.mem) != self.t0 or not self.contiguous() or self.cut < self.t1:
            return None
        a, b = self.cut + fh[0] - self.t0, self.cut + fh[-1] - self.t0
        p = self.res.predict(a, b)
        return [float(p.loc[self.cut + h - self.t0]) for h in fh]


class RefTheta(Ref):
    """sp=1 theta: SES level + drift.  `stale=True` is the behaviour of the unchanged tree after update(update_params=True):
    the SES fit (level and alpha) stays the one of the last fit(), only the trend is re-estimated."""

    def __init__(self, stale=False):
        super().__init__()
        self.stale = stale
        self.ses = None

    def _ses(self):
        from statsmodels.tsa.holtwinters import ExponentialSmoothing as SM
        ts, vs = self.sorted_mem()
        with warnings.catch_warnings():
            warnings.simplefilter("ignore")
            res = SM(pd.Series(vs, index=pd.RangeIndex(0, len(vs)), dtype=float), trend=None, damped_trend=False, seasonal=None,
                     seasonal_periods=1, initialization_method="estimated").fit()
        self.ses, self.ses_n = res, len(vs)
        self.alpha = float(res.params["smoothing_level"])

    def refit(self):
        if not (self.stale and self.ses is not None):
            self._ses()
        ts, vs = self.sorted_mem()
        x = np.arange(len(vs), dtype=float)
        self.trend = float(np.polyfit(x, np.array(vs, dtype=float), 1)[0]) / 2.0
        self.fit_n = len(vs)

    def fit(self, batch):
        self.ses = None
        super().fit(batch)

    def predict(self, fh):
        if not self.fresh or not self.contiguous():
            return None          # update_params=False for theta: only index and parameters are checked
        level = float(self.ses.forecast(1).iloc[0])
        n = len(self.mem)
        out = []
        for h in fh:
            if np.isclose(self.alpha, 0.0):
                d = self.trend * h
            else:
                d = self.trend * (h + (1 - (1 - self.alpha) ** n) / self.alpha)
            out.append(level + d)
        return out


class RefReduce(Ref):
    """recursive reduction over the stub regressor `StubReg`: c = mean of the one-step targets of the fit data,
    prediction = c + 0.1 * sum(window)"""

    def __init__(self, w):
        super().__init__()
        self.w = w

    def refit(self):
        ts, vs = self.sorted_mem()
        self.c = float(np.mean(vs[self.w:]))

    def pinned(self):
        return all(t in self.mem for t in range(self.cut - self.w + 1, self.cut + 1))

    def predict(self, fh):
        ts = range(self.cut - self.w + 1, self.cut + 1)
        if any(t not in self.mem for t in ts):
            return None
        win = [self.mem[t] for t in ts]
        out = []
        for _ in range(max(fh)):
            v = self.c + 0.1 * float(np.sum(win[-self.w:]))
            out.append(v)
            win.append(v)
        return [out[h - 1] for h in fh]


class RefEnsemble(Ref):
    def __init__(self, children, agg="mean", weights=None, bias=0.0):
        super().__init__()
        self.children, self.agg, self.weights, self.bias = children, agg, weights, bias

    def fit(self, batch):
        super().fit(batch)
        for c in self.children:
            c.fit(batch)

    def update(self, batch, up):
        super().update(batch, up)
        for c in self.children:
            c.update(batch, up)

    def refit(self):
        pass

    def pinned(self):
        return all(c.pinned() for c in self.children)

    def predict(self, fh):
        ps = [c.predict(fh) for c in self.children]
        if any(p is None for p in ps) or any(c.cut != self.cut for c in self.children):
            return None
        P = np.array(ps, dtype=float)
        if self.weights is not None:
            return list(self.bias + np.array(self.weights) @ P)
        return list(getattr(np, self.agg)(P, axis=0))


class TDetrend:
    def __init__(self, degree=1):
        self.m = RefPoly(degree)

    def fit(self, batch):
        self.m.fit(batch)

    def update(self, batch, up):
        self.m.update(batch, up)

    def fwd(self, batch):
        return [(t, v - self.m.at(t)) for t, v in batch]

    def inv_at(self, t, v):
        return v + self.m.at(t)


class TDeseason:
    def __init__(self, sp):
        self.sp = sp

    def fit(self, batch):
        from statsmodels.tsa.seasonal import seasonal_decompose
        self.t0 = batch[0][0]
        s = seasonal_decompose(np.array([v for _, v in batch], dtype=float), model="additive", period=self.sp, filt=None,
                               two_sided=True, extrapolate_trend=0).seasonal
        self.seas = [float(x) for x in s[: self.sp]]

    def update(self, batch, up):
        pass

    def s(self, t):
        return self.seas[(t - self.t0) % self.sp]

    def fwd(self, batch):
        return [(t, v - self.s(t)) for t, v in batch]

    def inv_at(self, t, v):
        return v + self.s(t)


class RefPipe(Ref):
    """transformers then a forecaster.  stale=False: what the property asks for (a refit re-estimates every step on the
    whole history).  stale=True: the unchanged tree, where update(update_params=True) re-estimates each step but the
    final forecaster keeps the history as it was transformed by the *earlier* estimates (and Deseasonalizer never
    re-estimates)."""

    def __init__(self, transformers, child, stale=False):
        super().__init__()
        self.tr, self.child, self.stale = transformers, child, stale

    def refit(self):
        ts, vs = self.sorted_mem()
        z = list(zip(ts, vs))
        for tr in self.tr:
            tr.fit(z)
            z = tr.fwd(z)
        self.child.fit(z)

    def update(self, batch, up):
        if up and not self.stale:
            super().update(batch, True)
            return
        super().update(batch, False)
        z = list(batch)
        for tr in self.tr:
            tr.update(z, up)
            z = tr.fwd(z)
        self.child.update(z, up)
        if up:
            self.fresh = True

    def pinned(self):
        return self.child.pinned()

    def predict(self, fh):
        if not self.contiguous() or self.child.cut != self.cut:
            return None
        p = self.child.predict(fh)
        if p is None:
            return None
        out = []
        for h, v in zip(fh, p):
            for tr in reversed(self.tr):
                v = tr.inv_at(self.cut + h, v)
            out.append(float(v))
        return out


# ----------------------------------------------------------------------------------------------------------------------
# stubs for the real composites
# ----------------------------------------------------------------------------------------------------------------------
_FITS = itertools.count(1)


def _stubs():
    from sklearn.base import BaseEstimator, RegressorMixin

    class StackReg(RegressorMixin, BaseEstimator):
        """final regressor of the stacker: fixed weights, independent of what it is fitted on"""

        def fit(self, X, y):
            self.fit_id_ = next(_FITS)
            return self

        def predict(self, X):
            X = np.asarray(X, dtype=float)
            return 0.25 + X @ np.array([0.6, 0.4, 0.2][: X.shape[1]])

    class StubReg(RegressorMixin, BaseEstimator):
        def fit(self, X, y):
            self.c_ = float(np.mean(y))
            return self

        def predict(self, X):
            X = np.asarray(X, dtype=float).reshape(len(X), -1)
            out = self.c_ + 0.1 * X.sum(axis=1)
            return out[0] if out.shape[0] == 1 else out      # numpy 2: y_pred[i] = array([v]) is rejected

    return StackReg, StubReg


class Spec:
    def __init__(self, name, make, ref, impl=None, kf=None, composite=False, min_fit=2, slow=False, empty_ok=True, required_fh=False,
                 default_w=10, cost=10, contiguous_fh=False):
        self.name, self.make, self.ref, self.impl, self.kf = name, make, ref, impl, kf
        self.composite, self.min_fit, self.slow, self.empty_ok, self.required_fh = composite, min_fit, slow, empty_ok, required_fh
        self.default_w = default_w          # window length of the default cv of update_predict (None: window_length_)
        self.cost = cost                    # measured milliseconds per call sequence (only used to size the samples)
        self.contiguous_fh = contiguous_fh  # only horizons without gaps (Deseasonalizer.inverse_transform assumes them: not C10)


KF_THETA = "KF:theta-update-params-keeps-stale-ses-fit"
KF_PIPE = "KF:pipeline-update-params-keeps-stale-transformed-history"
KF_DESEASON = "KF:pipeline-deseasonalizer-never-reestimated-on-update"
KF_INNER = "KF:composite-forecasts-from-component-cutoff-after-update-predict"
# The clause "a forecaster that REFITS ON UPDATE gives the same forecasts as a fresh fit on y1 followed by y2" does not
# apply to forecasters with their own update routine (ThetaForecaster re-estimates the trend only; the pipeline updates its
# steps instead of refitting them): when such a forecaster shows exactly its documented partial-update behaviour this is
# counted as outside the clause, not as a finding (triaged by the main author: demanding refit equivalence there would
# ask for more than the property states).  Any OTHER deviation of these configurations still fails under the normal key.
OUT_OF_CLAUSE = {KF_THETA, KF_PIPE, KF_DESEASON}


def _kf(R, key, detail):
    if key in OUT_OF_CLAUSE:
        R.check("scope:custom-update-routine-is-not-a-refit", True, "")
    else:
        R.check(key, False, detail)


def all_specs():
    from sktime.forecasting.compose import (EnsembleForecaster, MultiplexForecaster, StackingForecaster, TransformedTargetForecaster,
                                            make_reduction)
    from sktime.forecasting.exp_smoothing import ExponentialSmoothing
    from sktime.forecasting.naive import NaiveForecaster
    from sktime.forecasting.theta import ThetaForecaster
    from sktime.forecasting.trend import PolynomialTrendForecaster
    from sktime.transformations.series.detrend import Deseasonalizer, Detrender
    StackReg, StubReg = _stubs()
    N, P = NaiveForecaster, PolynomialTrendForecaster
    S = [
        Spec("Naive(last)", lambda: N("last"), lambda: RefNaive("last"), default_w=None),
        Spec("Naive(mean,window=None)", lambda: N("mean"), lambda: RefNaive("mean"), default_w=None),
        Spec("Naive(mean,window=3)", lambda: N("mean", window_length=3), lambda: RefNaive("mean", 3), min_fit=3, default_w=None),
        Spec("Naive(drift,window=None)", lambda: N("drift"), lambda: RefNaive("drift"), default_w=None),
        Spec("Naive(drift,window=4)", lambda: N("drift", window_length=4), lambda: RefNaive("drift", 4), min_fit=4, default_w=None),
        Spec("Naive(last,sp=3)", lambda: N("last", sp=3), lambda: RefNaive("last", None, 3), min_fit=3, default_w=None),
        Spec("Naive(mean,sp=2,window=None)", lambda: N("mean", sp=2), lambda: RefNaive("mean", None, 2), default_w=None),
        Spec("Naive(mean,sp=2,window=5)", lambda: N("mean", sp=2, window_length=5), lambda: RefNaive("mean", 5, 2), min_fit=5, default_w=None),
        Spec("PolynomialTrend(1)", lambda: P(degree=1), lambda: RefPoly(1), cost=17),
        Spec("PolynomialTrend(2)", lambda: P(degree=2), lambda: RefPoly(2), min_fit=3, cost=18),
        Spec("PolynomialTrend(1,no intercept)", lambda: P(degree=1, with_intercept=False), lambda: RefPoly(1, False), cost=18),
        Spec("ExponentialSmoothing()", lambda: ExponentialSmoothing(), lambda: RefES(None), slow=True, min_fit=6, cost=45),
        Spec("ExponentialSmoothing(trend=add)", lambda: ExponentialSmoothing(trend="add"), lambda: RefES("add"), slow=True, min_fit=6, cost=300),
        Spec("Theta()", lambda: ThetaForecaster(), lambda: RefTheta(False), impl=lambda: RefTheta(True), kf=KF_THETA, slow=True, min_fit=6, cost=55),
        Spec("Ensemble[Naive(mean),Poly(1)]", lambda: EnsembleForecaster([("a", N("mean")), ("b", P(degree=1))]),
             lambda: RefEnsemble([RefNaive("mean"), RefPoly(1)], "mean"), composite=True, cost=40),
        Spec("Ensemble[Naive(drift),Poly(2),Naive(mean,3)]median",
             lambda: EnsembleForecaster([("a", N("drift")), ("b", P(degree=2)), ("c", N("mean", window_length=3))], aggfunc="median"),
             lambda: RefEnsemble([RefNaive("drift"), RefPoly(2), RefNaive("mean", 3)], "median"), composite=True, min_fit=3, cost=46),
        Spec("Ensemble[Naive(last),Naive(mean)]max", lambda: EnsembleForecaster([("a", N("last")), ("b", N("mean"))], aggfunc="max"),
             lambda: RefEnsemble([RefNaive("last"), RefNaive("mean")], "max"), composite=True, cost=22),
        Spec("Multiplex->Naive(mean)", lambda: MultiplexForecaster([("a", N("mean")), ("b", P(degree=1))], selected_forecaster="a"),
             lambda: RefEnsemble([RefNaive("mean")], "mean"), composite=True),
        Spec("Multiplex->Poly(1)", lambda: MultiplexForecaster([("a", N("mean")), ("b", P(degree=1))], selected_forecaster="b"),
             lambda: RefEnsemble([RefPoly(1)], "mean"), composite=True, cost=18),
        Spec("Stacking[Naive(mean),Poly(1)]+fixed final regressor",
             lambda: StackingForecaster([("a", N("mean")), ("b", P(degree=1))], final_regressor=StackReg()),
             lambda: RefEnsemble([RefNaive("mean"), RefPoly(1)], weights=[0.6, 0.4], bias=0.25), composite=True, min_fit=8, required_fh=True, cost=32),
        Spec("Pipeline[Detrender(1),Naive(mean,3)]", lambda: TransformedTargetForecaster([("d", Detrender(P(degree=1))), ("f", N("mean", window_length=3))]),
             lambda: RefPipe([TDetrend(1)], RefNaive("mean", 3)), impl=lambda: RefPipe([TDetrend(1)], RefNaive("mean", 3), True), kf=KF_PIPE,
             composite=True, min_fit=3, empty_ok=False, cost=32),
        Spec("Pipeline[Detrender(None),Naive(mean)]", lambda: TransformedTargetForecaster([("d", Detrender()), ("f", N("mean"))]),
             lambda: RefPipe([TDetrend(1)], RefNaive("mean")), impl=lambda: RefPipe([TDetrend(1)], RefNaive("mean"), True), kf=KF_PIPE,
             composite=True, empty_ok=False, cost=32),
        Spec("Pipeline[Detrender(2),Naive(last)]", lambda: TransformedTargetForecaster([("d", Detrender(P(degree=2))), ("f", N("last"))]),
             lambda: RefPipe([TDetrend(2)], RefNaive("last")), impl=lambda: RefPipe([TDetrend(2)], RefNaive("last"), True), kf=KF_PIPE,
             composite=True, min_fit=3, empty_ok=False, cost=32),
        Spec("Pipeline[Detrender(1),Naive(drift)]", lambda: TransformedTargetForecaster([("d", Detrender(P(degree=1))), ("f", N("drift"))]),
             lambda: RefPipe([TDetrend(1)], RefNaive("drift")), impl=lambda: RefPipe([TDetrend(1)], RefNaive("drift"), True), kf=KF_PIPE,
             composite=True, empty_ok=False, cost=32),
        Spec("Pipeline[Deseasonalizer(3),Naive(mean)]", lambda: TransformedTargetForecaster([("s", Deseasonalizer(sp=3)), ("f", N("mean"))]),
             lambda: RefPipe([TDeseason(3)], RefNaive("mean")), impl=lambda: RefPipe([TDeseason(3)], RefNaive("mean"), True), kf=KF_DESEASON,
             composite=True, min_fit=6, empty_ok=False, cost=18, contiguous_fh=True),
        Spec("Pipeline[Deseasonalizer(2),Detrender(1),Naive(mean,4)]",
             lambda: TransformedTargetForecaster([("s", Deseasonalizer(sp=2)), ("d", Detrender(P(degree=1))), ("f", N("mean", window_length=4))]),
             lambda: RefPipe([TDeseason(2), TDetrend(1)], RefNaive("mean", 4)),
             impl=lambda: RefPipe([TDeseason(2), TDetrend(1)], RefNaive("mean", 4), True), kf=KF_DESEASON, composite=True, min_fit=6, empty_ok=False, cost=36,
             contiguous_fh=True),
        Spec("Reduction(recursive,window=3,stub regressor)",
             lambda: make_reduction(StubReg(), scitype="tabular-regressor", strategy="recursive", window_length=3),
             lambda: RefReduce(3), min_fit=5, default_w=None),
    ]
    return S


# ----------------------------------------------------------------------------------------------------------------------
# fitted parameters of the real objects (flat list of floats)
# ----------------------------------------------------------------------------------------------------------------------
def snap(f):
    name = type(f).__name__
    out = []
    if name == "NaiveForecaster":
        out += [float(f.window_length_), float(getattr(f, "sp_", 0) or 0)]
    elif name == "PolynomialTrendForecaster":
        out += [float(x) for x in np.ravel(f.regressor_.steps[-1][1].coef_)]
    elif name in ("ExponentialSmoothing", "ThetaForecaster"):
        for k in sorted(f._fitted_forecaster.params):
            v = f._fitted_forecaster.params[k]
            try:
                out += [float(x) for x in np.ravel(np.asarray(v, dtype=float))]
            except (TypeError, ValueError):
                pass
        out.append(float(len(f._fitted_forecaster.fittedvalues)))
        if name == "ThetaForecaster":
            out += [float(f.initial_level_), float(f.trend_)]
    elif name in ("EnsembleForecaster", "StackingForecaster"):
        for c in f.forecasters_:
            out += snap(c)
        if name == "StackingForecaster":
            out.append(float(f.final_regressor_.fit_id_))
    elif name == "MultiplexForecaster":
        out += snap(f._forecaster)
    elif name == "TransformedTargetForecaster":
        for _, s in f.steps_:
            out += snap(s)
    elif name == "Detrender":
        out += snap(f.forecaster_)
    elif name == "Deseasonalizer":
        out += [float(x) for x in np.ravel(np.asarray(f.seasonal_, dtype=float))]
    elif hasattr(f, "estimator_"):
        out += [float(f.window_length_), float(getattr(f.estimator_, "c_", 0.0))]
    return [0.0 if np.isnan(x) else x for x in out]


def same_params(a, b):
    return len(a) == len(b) and bool(np.allclose(a, b, rtol=1e-9, atol=1e-12))


def inner_memories(f):
    """(name, series) of every forecaster inside a composite that is handed the raw series"""
    name = type(f).__name__
    if name in ("EnsembleForecaster", "StackingForecaster"):
        return [(f"forecasters_[{i}]", c._y) for i, c in enumerate(f.forecasters_)]
    if name == "MultiplexForecaster":
        return [("_forecaster", f._forecaster._y)]
    return []


# ----------------------------------------------------------------------------------------------------------------------
# independent window enumeration for update_predict
# ----------------------------------------------------------------------------------------------------------------------
def cv_windows(m, fh, cv):
    """positions (a, c): the batch handed over is y[a..c] (empty when c < a), cutoff position c; cv = (kind, w, step, sww)"""
    kind, w, step, sww = cv
    fmax = max(fh)
    c = (w - 1) if sww else -1
    out = []
    while c + fmax <= m - 1:
        a = 0 if kind == "expanding" else max(0, c - w + 1)
        out.append((a, c))
        c += step
    return out


def make_cv(cv, fh):
    from sktime.forecasting.model_selection import ExpandingWindowSplitter, SlidingWindowSplitter
    kind, w, step, sww = cv
    if kind == "expanding":
        return ExpandingWindowSplitter(fh=list(fh), initial_window=w, step_length=step, start_with_window=sww)
    return SlidingWindowSplitter(fh=list(fh), window_length=w, step_length=step, start_with_window=sww)


# ----------------------------------------------------------------------------------------------------------------------
# one run = one real forecaster + its models driven through a call sequence
# ----------------------------------------------------------------------------------------------------------------------
class Run:
    def __init__(self, R, spec, im, fh, tag=""):
        self.R, self.spec, self.im, self.fh = R, spec, im, list(fh)
        self.f = spec.make()
        self.ref = spec.ref()
        self.impl = spec.impl() if spec.impl else None
        self.trace = []
        self.dead = False
        self.model_ok = True
        self.inner_stale = False        # composite after update_predict: components sit at a later cutoff
        self.tag = tag
        self.fh_arg_cycle = 0

    # ---- helpers
    def d(self, msg):
        return f"{self.tag}{self.spec.name} index={self.im} fh={self.fh} calls=[{'; '.join(self.trace)}]: {msg}"

    def fail(self, key, msg):
        self.R.check(key, False, self.d(msg))

    def call(self, key, what, fn):
        try:
            with warnings.catch_warnings():
                warnings.simplefilter("ignore")
                return True, fn()
        except Exception as e:   # noqa: BLE001
            self.fail(key, f"{what} raised {type(e).__name__}: {str(e)[:200]}")
            self.dead = True
            return False, None

    def fh_arg(self):
        """the horizon in the forms the API accepts (list / array / ForecastingHorizon / omitted)"""
        from sktime.forecasting.base import ForecastingHorizon
        self.fh_arg_cycle += 1
        k = self.fh_arg_cycle % 4
        if self.spec.required_fh or k == 0:
            return None
        if k == 1:
            return list(self.fh)
        if k == 2:
            return np.array(self.fh)
        return ForecastingHorizon(list(self.fh), is_relative=True)

    def labels(self, cut):
        return [self.im.label(cut + h) for h in self.fh]

    def cmp(self, got, cut, exp):
        """None when `got` is the forecast made from `cut` with values exp (exp None: values not pinned down)"""
        if not isinstance(got, pd.Series):
            return f"returned {type(got).__name__}"
        if list(got.index) != self.labels(cut):
            return f"forecast index {list(got.index)} but cutoff {self.im.label(cut)} + fh = {self.labels(cut)}"
        if exp is not None and not np.allclose(got.values.astype(float), np.array(exp, dtype=float), rtol=RTOL, atol=ATOL, equal_nan=True):
            return f"forecast values {np.round(got.values.astype(float), 6).tolist()} expected {np.round(exp, 6).tolist()}"
        return None

    def judged(self, key, got, cut, what):
        """compare a forecast with the model of the property; a mismatch that is exactly the documented behaviour of the
        unchanged tree goes to the spec's KF key instead"""
        exp = self.ref.predict(self.fh) if self.model_ok else None
        why = self.cmp(got, cut, exp)
        if why is not None and self.impl is not None:
            alt = self.impl.predict(self.fh)
            if alt is not None and self.cmp(got, cut, alt) is None:
                _kf(self.R, self.spec.kf, self.d(f"{what}: {why} (values are those of the stale state: {np.round(alt, 6).tolist()})"))
                return
        self.R.check(key, why is None, self.d(f"{what}: {why}"))

    def check_state(self, what):
        ts, vs = self.ref.sorted_mem()
        y = getattr(self.f, "_y", None)
        ok = (y is not None and list(y.index) == [self.im.label(t) for t in ts]
              and np.allclose(np.asarray(y.values, dtype=float), vs, rtol=1e-12, atol=1e-12))
        if not ok:
            got = None if y is None else list(zip([str(i) for i in y.index], np.round(np.asarray(y.values, dtype=float), 4).tolist()))
            self.fail("memory-is-union-later-wins", f"after {what} the remembered series is {got}; the union of the observations "
                      f"(later wins) is {list(zip(ts, np.round(vs, 4).tolist()))}")
        else:
            self.R.check("memory-is-union-later-wins", True, "")
        if ok:
            for nm, yy in inner_memories(self.f):
                ok2 = (list(yy.index) == [self.im.label(t) for t in ts] and np.allclose(np.asarray(yy.values, dtype=float), vs, rtol=1e-12, atol=1e-12))
                self.R.check("memory-is-union-later-wins", ok2, self.d(f"after {what} component {nm} remembers {len(yy)} points "
                             f"{[str(i) for i in yy.index]}; the union has {len(ts)}: {ts}"))
                ok = ok and ok2
        return ok

    def check_cutoff(self, key, what):
        want = self.im.label(self.ref.cut)
        ok = self.f.cutoff == want
        self.R.check(key, ok, self.d(f"after {what} the cutoff is {self.f.cutoff}, expected {want}"))
        return ok

    def union_series(self):
        ts, vs = self.ref.sorted_mem()
        return self.im.series(list(zip(ts, vs)))

    # ---- operations
    def fit(self, batch):
        self.trace.append(f"fit(t={batch[0][0]}..{batch[-1][0]})")
        y = self.im.series(batch)
        ok, _ = self.call("refit-on-update-equals-fresh-fit", "fit", lambda: self.f.fit(y, fh=list(self.fh)))
        if not ok:
            return
        self.ref.fit(batch)
        if self.impl:
            self.impl.fit(batch)
        self.check_state("fit")
        ok, got = self.call("refit-on-update-equals-fresh-fit", "predict after fit", lambda: self.f.predict())
        if not ok:
            return
        exp = self.ref.predict(self.fh)
        if self.cmp(got, self.ref.cut, exp) is not None:
            self.model_ok = False      # the baseline (plain fit) is not this property's subject: fall back to relational checks
        self.fitted_params = snap(self.f)

    def predict_checks(self, key, what, fresh_too=False):
        """forecast now; twice (a forecast must not change anything); optionally against a fresh instance fitted on the union"""
        if self.dead or not self.ref.pinned():
            return
        before = snap(self.f)
        arg = self.fh_arg()
        ok, got = self.call(key, f"predict after {what}", lambda: self.f.predict(arg) if arg is not None else self.f.predict())
        if not ok:
            return
        self.judged(key, got, self.ref.cut, f"predict after {what}")
        ok, again = self.call("predict-does-not-change-state", "second predict", lambda: self.f.predict(list(self.fh)) if not self.spec.required_fh else self.f.predict())
        if not ok:
            return
        same = (list(again.index) == list(got.index) and np.allclose(again.values.astype(float), got.values.astype(float), rtol=1e-12, atol=1e-12, equal_nan=True)
                and self.f.cutoff == self.im.label(self.ref.cut) and same_params(before, snap(self.f)))
        self.R.check("predict-does-not-change-state", same, self.d(f"two consecutive predict calls after {what}: {got.values.tolist()} then "
                     f"{again.values.tolist()}, cutoff {self.f.cutoff}"))
        if fresh_too and self.ref.contiguous() and (self.model_ok or self.impl is None):
            g = self.spec.make()
            u = self.union_series()
            try:
                with warnings.catch_warnings():
                    warnings.simplefilter("ignore")
                    g.fit(u, fh=list(self.fh))
                    want = g.predict()
            except Exception:   # noqa: BLE001
                return           # a fresh fit that fails is not this property's subject
            why = None
            if list(got.index) != list(want.index):
                why = f"index {list(got.index)} vs {list(want.index)}"
            elif not np.allclose(got.values.astype(float), want.values.astype(float), rtol=RTOL, atol=ATOL, equal_nan=True):
                why = f"values {np.round(got.values.astype(float), 6).tolist()} vs {np.round(want.values.astype(float), 6).tolist()}"
            if why is not None and self.impl is not None:
                alt = self.impl.predict(self.fh)
                if alt is not None and self.cmp(got, self.ref.cut, alt) is None:
                    _kf(self.R, self.spec.kf, self.d(f"{what}: differs from a fresh instance fitted on the union of the observations: {why}"))
                    return
            self.R.check(key, why is None, self.d(f"{what}: differs from a fresh instance fitted on the union of the observations: {why}"))

    def _apply_models(self, batch, up):
        self.ref.update(batch, up)
        if self.impl:
            self.impl.update(batch, up)

    def update(self, batch, up, what=None):
        if self.dead:
            return
        key = "refit-on-update-equals-fresh-fit" if up else "no-param-update-forecasts-from-new-cutoff"
        what = what or (f"update(t={batch[0][0]}..{batch[-1][0]}, update_params={up})" if batch else f"update(empty, update_params={up})")
        self.trace.append(what)
        y = self.im.series(batch)
        before = snap(self.f)
        ok, _ = self.call(key, what, lambda: self.f.update(y, update_params=up))
        if not ok:
            return
        self._apply_models(batch, up)
        self.inner_stale = False
        if not self.check_state(what):
            self.dead = True          # everything after this is a consequence
            return
        self.check_cutoff("cutoff-is-end-of-last-batch", what)
        if not up:
            self.R.check("no-param-update-keeps-fitted-params", same_params(before, snap(self.f)),
                         self.d(f"fitted parameters before {np.round(before, 5).tolist()} after {np.round(snap(self.f), 5).tolist()}"))
        self.predict_checks(key, what, fresh_too=up)

    def ups(self, batch, up):
        """update_predict_single == update then predict (copy driven by the two calls; and the model)"""
        if self.dead:
            return
        key = "update-predict-single-equals-update-then-predict"
        what = f"update_predict_single(t={batch[0][0]}..{batch[-1][0]}, update_params={up})"
        self.trace.append(what)
        y = self.im.series(batch)
        twin = None
        try:
            twin = copy.deepcopy(self.f)
        except Exception:   # noqa: BLE001
            pass
        before = snap(self.f)
        arg = self.fh_arg()
        ok, got = self.call(key, what, lambda: self.f.update_predict_single(y, fh=arg, update_params=up))
        if not ok:
            return
        self._apply_models(batch, up)
        self.inner_stale = False
        if not self.check_state(what):
            self.dead = True
            return
        self.check_cutoff("cutoff-is-end-of-last-batch", what)
        if not up:
            self.R.check("no-param-update-keeps-fitted-params", same_params(before, snap(self.f)),
                         self.d(f"fitted parameters before {np.round(before, 5).tolist()} after {np.round(snap(self.f), 5).tolist()}"))
        if self.ref.pinned():
            self.judged(key, got, self.ref.cut, what)
        if twin is not None:
            try:
                with warnings.catch_warnings():
                    warnings.simplefilter("ignore")
                    twin.update(y, update_params=up)
                    want = twin.predict(list(self.fh)) if not self.spec.required_fh else twin.predict()
            except Exception:   # noqa: BLE001
                want = None
            if want is not None:
                same = list(got.index) == list(want.index) and np.allclose(got.values.astype(float), want.values.astype(float), rtol=RTOL, atol=ATOL, equal_nan=True)
                self.R.check(key, same, self.d(f"returned {np.round(got.values.astype(float), 6).tolist()} at {list(got.index)}; update followed by predict on a copy "
                             f"gives {np.round(want.values.astype(float), 6).tolist()} at {list(want.index)}"))
        self.predict_checks("refit-on-update-equals-fresh-fit" if up else "no-param-update-forecasts-from-new-cutoff", what, fresh_too=up)

    def upp(self, batch, cv, up):
        """update_predict over `batch` (a list of observations, need not start right after the cutoff); cv None = default"""
        if self.dead:
            return
        key = "update-predict-equals-single-steps"
        fh = self.fh
        self.trace.append("update_predict(...)")
        y = self.im.series(batch)
        if self.inner_stale:
            # components of a composite still sit at the cutoff of an earlier update_predict: a first window without data
            # would be forecast from there (see KF_INNER); start with a window
            if cv is None:
                self.trace.pop()
                return
            cv = (cv[0], cv[1], cv[2], True)
        if cv is None:
            w = self.spec.default_w if self.spec.default_w is not None else int(round(snap_window(self.f)))
            cvx = ("sliding", w, 1, False)
        else:
            cvx = cv
        if cvx[1] + max(fh) > len(batch):      # the splitters reject a window that does not fit (C01)
            self.trace.pop()
            return
        wins = cv_windows(len(batch), fh, cvx)
        if not wins:
            self.trace.pop()
            return
        what = f"update_predict(t={batch[0][0]}..{batch[-1][0]}, cv={cv}, update_params={up})"
        self.trace[-1] = what
        cut0 = self.ref.cut
        # ---- the model: move to just before the data, hand over window after window, forecast, come back
        exp_cols = []
        defined = True
        for m in (self.ref, self.impl):
            if m is None:
                continue
            m.cut = batch[0][0] - 1
            cols = []
            for a, c in wins:
                m.update(batch[a: c + 1], up)
                defined = defined and m.pinned()
                cols.append((m.cut, m.predict(fh) if (self.model_ok and m.pinned()) else None))
            m.cut = cut0
            m.fresh = False
            exp_cols.append(cols)
        if not defined:
            # some window asks for a forecast whose input window reaches before the first observation: nothing is pinned down
            self.trace.pop()
            self.dead = True
            return
        twin = None
        try:
            twin = copy.deepcopy(self.f)
        except Exception:   # noqa: BLE001
            pass
        before = snap(self.f)
        real_cv = make_cv(cv, fh) if cv is not None else None
        ok, got = self.call(key, what, lambda: self.f.update_predict(y, cv=real_cv, update_params=up))
        if not ok:
            return
        cuts = [batch[0][0] + c for _, c in wins]
        self.inner_stale = self.spec.composite
        # ---- shape and labels
        self.R.check("update-predict-restores-cutoff", self.f.cutoff == self.im.label(cut0),
                     self.d(f"cutoff before the call {self.im.label(cut0)}, after it {self.f.cutoff}"))
        got_cols = self.split_columns(got, cuts)
        if got_cols is None:
            return
        # ---- values against the model
        bad = kf_bad = None
        for j, c in enumerate(cuts):
            why = self.cmp(got_cols[j], c, exp_cols[0][j][1])
            if why is not None:
                if len(exp_cols) > 1 and exp_cols[1][j][1] is not None and self.cmp(got_cols[j], c, exp_cols[1][j][1]) is None:
                    kf_bad = kf_bad or f"cutoff {self.im.label(c)}: {why}"
                else:
                    bad = bad or f"cutoff {self.im.label(c)}: {why}"
        if kf_bad and not bad:
            _kf(self.R, self.spec.kf, self.d(kf_bad + " (values are those of the stale state)"))
        else:
            self.R.check(key, bad is None, self.d(str(bad)))
        # ---- values against a copy driven by single update and predict calls
        if twin is not None:
            bad = None
            try:
                with warnings.catch_warnings():
                    warnings.simplefilter("ignore")
                    for j, (a, c) in enumerate(wins):
                        yb = y.iloc[a: c + 1]
                        if len(yb) == 0 and twin.cutoff != self.im.label(cuts[j]):
                            continue                  # nothing handed over yet and the data do not start at the cutoff: no counterpart
                        if len(yb) == 0 and not self.spec.empty_ok:
                            continue
                        twin.update(yb, update_params=up)
                        want = twin.predict(list(fh)) if not self.spec.required_fh else twin.predict()
                        g = got_cols[j]
                        if list(g.index) != list(want.index) or not np.allclose(g.values.astype(float), want.values.astype(float), rtol=RTOL, atol=ATOL, equal_nan=True):
                            bad = bad or (f"cutoff {self.im.label(cuts[j])}: update_predict gives {np.round(g.values.astype(float), 6).tolist()} at {list(g.index)}, "
                                          f"update(window) then predict on a copy gives {np.round(want.values.astype(float), 6).tolist()} at {list(want.index)}")
            except Exception:   # noqa: BLE001
                bad = None
            self.R.check(key, bad is None, self.d(str(bad)))
        if not up:
            self.R.check("no-param-update-keeps-fitted-params", same_params(before, snap(self.f)),
                         self.d(f"fitted parameters before {np.round(before, 5).tolist()} after {np.round(snap(self.f), 5).tolist()}"))
        if not self.check_state(what):
            self.dead = True
            return
        if not self.spec.composite:
            if not up:
                # the forecaster is back at its cutoff: forecasts are made from there although later data are remembered
                self.predict_checks("update-predict-restores-cutoff", what)
        elif self.ref.pinned():
            # a composite: only the time points of the next forecast are pinned down (cutoff + fh)
            key = "update-predict-restores-cutoff"
            ok, nxt = self.call(key, f"predict after {what}", lambda: self.f.predict())
            if ok:
                inner = max([batch[0][0] + c for a, c in wins if c >= a] + [cut0])
                if list(nxt.index) == self.labels(cut0):
                    self.R.check(key, True, "")
                elif inner != cut0 and list(nxt.index) == self.labels(inner):
                    self.R.check(KF_INNER, False, self.d(f"cutoff is {self.f.cutoff} again but the next predict() returns forecasts for {list(nxt.index)}, "
                                 f"i.e. made from {self.im.label(inner)}, the cutoff of the last window (the components were not moved back)"))
                else:
                    self.R.check(key, False, self.d(f"cutoff is {self.f.cutoff}; the next predict() returns forecasts for {list(nxt.index)}, expected {self.labels(cut0)}"))

    def split_columns(self, got, cuts):
        """update_predict result -> one Series (index = forecast time points) per cutoff; checks the cutoff labels"""
        key = "update-predict-labelled-by-cutoffs"
        fh = self.fh
        lab = [self.im.label(c) for c in cuts]
        if len(fh) == 1:
            want_idx = [self.im.label(c + fh[0]) for c in cuts]
            ok = isinstance(got, pd.Series) and list(got.index) == want_idx
            self.R.check(key, ok, self.d(f"one-step result has index {list(getattr(got, 'index', []))}, the cutoffs {lab} + {fh[0]} are {want_idx}"))
            if not ok:
                return None
            return [got.iloc[j: j + 1] for j in range(len(cuts))]
        if len(cuts) == 1:
            if isinstance(got, pd.DataFrame) and got.shape[1] == 1:
                got = got.iloc[:, 0]
            ok = isinstance(got, pd.Series)
            self.R.check(key, ok, self.d(f"single window: returned {type(got).__name__}"))
            return [got.dropna()] if ok else None
        ok = isinstance(got, pd.DataFrame) and list(got.columns) == lab
        self.R.check(key, ok, self.d(f"columns {list(getattr(got, 'columns', []))} but the cutoffs of the windows are {lab}"))
        if not ok:
            return None
        cols = []
        for j, c in enumerate(cuts):
            col = got.iloc[:, j]
            inside = col.loc[[i for i in col.index if i in set(self.labels(c))]]
            outside = col.loc[[i for i in col.index if i not in set(self.labels(c))]]
            self.R.check(key, bool(outside.isna().all()), self.d(f"column {lab[j]} has values at {list(outside.dropna().index)}, outside cutoff + fh = {self.labels(c)}"))
            cols.append(inside)
        return cols


def snap_window(f):
    return float(getattr(f, "window_length_", 10) or 10)


# ----------------------------------------------------------------------------------------------------------------------
# scenarios
# ----------------------------------------------------------------------------------------------------------------------
def compositions(r, maxparts):
    out = []
    for k in range(1, maxparts + 1):
        for cuts in itertools.combinations(range(1, r), k - 1):
            b = (0,) + cuts + (r,)
            out.append([b[i + 1] - b[i] for i in range(k)])
    return out


def scen_batches(R, spec, im, fh, l0, n1, parts, flags, overlap, tag="S1 "):
    """fit on n1 points, then the rest in consecutive batches of the given sizes; each batch reaches `overlap` points back into
    what was already seen, with revised values"""
    run = Run(R, spec, im, fh, tag)
    run.fit(items(l0, l0 + n1 - 1))
    end = l0 + n1 - 1
    for j, (k, up) in enumerate(zip(parts, flags)):
        o = min(overlap, n1 - 1)
        batch = items(end + 1 - o, end, rev=j + 1) + items(end + 1, end + k)
        run.update(batch, up)
        end += k
    return run


def scen_upp(R, spec, im, fh, l0, n1, m, cv, up, tail, overlap=0, tag="S2 "):
    """fit; update_predict over the next m points (starting `overlap` points inside what was seen); then a tail of calls"""
    run = Run(R, spec, im, fh, tag)
    run.fit(items(l0, l0 + n1 - 1))
    end = l0 + n1 - 1
    y2 = items(end + 1 - overlap, end, rev=1) + items(end + 1, end + m)
    run.upp(y2, cv, up)
    whole = items(end + 1, end + m)
    if tail == "update-same":
        # "evaluate on the test data, then absorb them": first without, then with re-estimation
        run.update(y2, False)
        run.update(y2, True)
    elif tail == "update-same-refit":
        run.update(y2, True)
    elif tail == "update-more":
        run.update(whole + items(end + m + 1, end + m + 2), True)
    elif tail == "again":
        run.upp(y2, cv, False)
        run.update(y2, False)
    elif tail == "again-other-cv":
        run.upp(whole, ("sliding", 2, 1, True), False)
        run.update(whole, True)
    elif tail == "single":
        run.ups(y2, up)
    return run


def scen_ups(R, spec, im, fh, l0, n1, k, o, up, then, tag="S3 "):
    run = Run(R, spec, im, fh, tag)
    run.fit(items(l0, l0 + n1 - 1))
    end = l0 + n1 - 1
    run.ups(items(end + 1 - o, end, rev=1) + items(end + 1, end + k), up)
    end += k
    if then == "update":
        run.update(items(end + 1, end + 2), not up)
    elif then == "single":
        run.ups(items(end, end, rev=2) + items(end + 1, end + 2), not up)
    return run


def scen_random(R, spec, im, fh, l0, n1, rng, nops, tag="S4 "):
    """random call sequence; only sequences whose outcome the property pins down: a batch always reaches at least the end
    of what is remembered, and re-estimation inside update_predict is only asked for when nothing later is remembered"""
    run = Run(R, spec, im, fh, tag)
    run.fit(items(l0, l0 + n1 - 1))
    rev = 0
    for _ in range(nops):
        if run.dead:
            break
        cut, mem_end = run.ref.cut, max(run.ref.mem)
        over = mem_end - cut
        op = rng.choice(["update", "update", "ups", "upp", "upp", "empty"])
        o = rng.choice([0, 0, 1, 2])
        o = min(o, cut - l0 - 3) if cut - l0 - 3 > 0 else 0
        rev += 1
        if op == "empty":
            if over == 0 and spec.empty_ok:
                run.update([], rng.choice([True, False]))
            continue
        if op in ("update", "ups"):
            k = over + rng.choice([0, 1, 2, 3]) if over else rng.choice([1, 2, 3])
            batch = items(cut + 1 - o, cut, rev=rev) + items(cut + 1, cut + k, rev=rev if over else 0)
            # points beyond the cutoff that are already remembered are re-sent with revised values as well
            up = rng.choice([True, False])
            (run.update if op == "update" else run.ups)(batch, up)
        else:
            m = max(over, max(fh) + rng.choice([1, 2, 3, 4]))
            batch = items(cut + 1 - o, cut, rev=rev) + items(cut + 1, cut + m)
            kind = rng.choice(["sliding", "sliding", "expanding", None])
            if kind is None and (not spec.empty_ok):
                kind = "sliding"
            if kind is None:
                cv = None
            else:
                w = rng.choice([1, 2, 3, 4])
                step = rng.choice([s for s in (1, 2, 3) if s <= w])
                sww = rng.choice([True, False]) if spec.empty_ok else True
                if o > 0:
                    sww = True
                cv = (kind, w, step, sww)
            up = rng.choice([True, False]) if (over == 0 and o == 0) else False
            if cv is None and o > 0:
                continue
            run.upp(batch, cv, up)
    return run


FHS = [(1,), (1, 2, 3), (1, 3), (2,), (2, 5), (3, 4)]
CVS = [("sliding", 1, 1, False), ("sliding", 2, 1, False), ("sliding", 2, 2, False), ("sliding", 3, 2, True), ("sliding", 3, 3, False),
       ("sliding", 4, 2, False), ("sliding", 4, 1, True), ("expanding", 2, 1, True), ("expanding", 1, 2, False), ("expanding", 3, 3, True), None]
TAILS = ["none", "update-same", "update-same-refit", "update-more", "again", "again-other-cv", "single"]


def fits_spec(spec, fh):
    if spec.required_fh and max(fh) >= 4:
        return False
    if spec.contiguous_fh and list(fh) != list(range(fh[0], fh[0] + len(fh))):
        return False
    return True


def runnable(spec, kind):
    """does this configuration run at all with this kind of index in the sandbox (pandas 2 + shim)?  plain calls only"""
    im = IndexMap(kind)
    fh = [1, 2]
    n1 = max(spec.min_fit + 1, 8)
    try:
        with warnings.catch_warnings():
            warnings.simplefilter("ignore")
            f = spec.make()
            f.fit(im.series(items(3, 2 + n1)), fh=fh)
            f.predict()
            f.update(im.series(items(3 + n1, 4 + n1)), update_params=True)
            f.predict()
            f.update_predict(im.series(items(5 + n1, 10 + n1)), cv=make_cv(("sliding", 2, 1, True), fh), update_params=False)
            f.update_predict_single(im.series(items(5 + n1, 10 + n1)), update_params=False)
        return True
    except Exception:   # noqa: BLE001
        return False


def enumerate_spec(spec, tier):
    """the enumerated space of call sequences for one configuration, as four lists of (function, args)"""
    quick = tier == "quick"
    kinds = ["range"] if quick else ["range"] + [k for k in ("int", "period") if runnable(spec, k)]
    offsets = [0, 3]
    fhs = [fh for fh in FHS[: (3 if quick else 6)] if fits_spec(spec, fh)]
    n1s = [max(spec.min_fit + 1, 8)] if quick else [max(spec.min_fit + 1, 7), max(spec.min_fit + 2, 10)]
    r = 4 if quick else 5
    S1, S2, S3 = [], [], []
    # ---- S1: every way of cutting the remainder into <= 3 batches, every update_params pattern, overlaps
    comps = compositions(r, 3)
    for kind in kinds:
        im = IndexMap(kind)
        for l0 in offsets:
            for fh in fhs:
                for n1 in n1s:
                    for parts in comps:
                        for flags in itertools.product((True, False), repeat=len(parts)):
                            for ov in (0, 1, 2):
                                S1.append((scen_batches, (spec, im, fh, l0, n1, parts, flags, ov)))
    # ---- S2: update_predict with every splitter shape, then what usually follows
    for kind in kinds:
        im = IndexMap(kind)
        l0 = 3 if kind != "int" else 0
        for fh in fhs:
            for n1 in n1s:
                for cv in CVS:
                    if cv is not None and not cv[3] and not spec.empty_ok:
                        cv = (cv[0], cv[1], cv[2], True)
                    if cv is None and not spec.empty_ok:
                        continue
                    w = cv[1] if cv is not None else 0
                    for extra in ((0,) if quick else (0, 2)):
                        m = max(fh) + max(3, w) + extra
                        for up in (True, False):
                            for tail in TAILS:
                                S2.append((scen_upp, (spec, im, fh, l0, n1, m, cv, up, tail)))
                        # update_predict over data that start inside what was already seen (no re-estimation: see scen_random)
                        if cv is not None and cv[3]:
                            for ov in (1, 2):
                                S2.append((scen_upp, (spec, im, fh, l0, n1, m, cv, False, "update-same", ov)))
    # ---- S2 (cont.): training series that END at time point 0 (a cutoff of 0 is falsy: `if cutoff:` style guards)
    im0 = IndexMap("range")
    for fh in fhs[:2]:
        for n1 in n1s[:1]:
            for cv in (("sliding", 3, 2, True), ("expanding", 2, 1, True)):
                for up in (True, False):
                    S2.append((scen_upp, (spec, im0, fh, 1 - n1, n1, max(fh) + 4, cv, up, "update-same")))
    # ---- S3: update_predict_single
    for kind in kinds:
        im = IndexMap(kind)
        for fh in fhs:
            for n1 in n1s:
                for k in (1, 3):
                    for o in (0, 2):
                        for up in (True, False):
                            for then in ("update", "single"):
                                S3.append((scen_ups, (spec, im, fh, 3, n1, k, o, up, then)))
    return S1, S2, S3, (kinds, fhs, n1s)


def run_spec(R, spec, tier, rng, budget_ms):
    """run a seeded sample of the enumerated sequences (all of them if the budget allows) plus random sequences"""
    S1, S2, S3, (kinds, fhs, n1s) = enumerate_spec(spec, tier)
    n = max(int(budget_ms / spec.cost), 14)
    shares = ((S1, 0.36), (S2, 0.42), (S3, 0.10))
    ran = total = 0
    for lst, share in shares:
        k = min(len(lst), max(2, int(round(n * share))))
        pick = lst if k == len(lst) else rng.sample(lst, k)
        for fn, args in pick:
            fn(R, *args)
        ran += len(pick)
        total += len(lst)
    nseq = max(2, int(round(n * 0.12)))
    for i in range(nseq):
        im = IndexMap(rng.choice(kinds))
        fh = rng.choice(fhs)
        scen_random(R, spec, im, fh, rng.choice([0, 2, 5]), n1s[0] + rng.choice([0, 1, 2]), rng, rng.choice([3, 4, 5, 6]))
    return ran, total, nseq, kinds


def bounded(tier, seed):
    with warnings.catch_warnings():
        warnings.simplefilter("ignore")
        specs = all_specs()
    rng = random.Random(1000 + seed)
    R = Recorder("")
    budget = 1300.0 if tier == "quick" else 12000.0
    ran = total = rnd = 0
    nper = nint = 0
    with warnings.catch_warnings():
        warnings.simplefilter("ignore")
        for spec in specs:
            a, b, c, kinds = run_spec(R, spec, tier, rng, budget)
            ran, total, rnd = ran + a, total + b, rnd + c
            nper, nint = nper + ("period" in kinds), nint + ("int" in kinds)
    R.bound = (
        f"{len(specs)} forecaster configurations (8 NaiveForecaster variants incl. window_length=None and seasonal, 3 PolynomialTrend, "
        "2 ExponentialSmoothing, Theta(sp=1), 3 Ensemble aggregations, Multiplex x2, Stacking with a fixed-weight final regressor, "
        "6 TransformedTarget pipelines with Detrender/Deseasonalizer, recursive reduction over a stub regressor); fit on 7-12 points, then "
        "S1: every cut of the next 4 (thorough 5) points into <=3 consecutive batches x every update_params pattern x overlap 0/1/2 points "
        "with revised values; S2: update_predict with 10 sliding/expanding splitter shapes (window<=4, step<=3, both start modes) and the "
        "default cv, update_params on/off, followed by one of 7 continuations (update with the same data, second update_predict, "
        "update_predict_single, ...), also starting 1-2 points inside the seen data; S3: update_predict_single with 1/3 new points, overlap "
        "0/2, then update or another single; horizons " + str(FHS[:3] if tier == "quick" else FHS) + "; RangeIndex at offsets 0/3 and, for update_predict, also ending at time point 0"
        + ("" if tier == "quick" else f", integer Index ({nint} configurations run with it in the sandbox), monthly PeriodIndex ({nper} configurations)") +
        f". The enumerated space has {total} call sequences; a seeded sample of {ran} of them was run (sized per configuration by its cost), "
        f"plus {rnd} seeded random call sequences of 3-6 calls (S4). Not covered: exogenous X, in-sample/absolute horizons, prediction "
        "intervals, TimeSeriesForest-based and sklearn-regressor reductions, ARIMA/ETS/BATS/Prophet wrappers, gapped windows (window < step), "
        "gapped horizons with a Deseasonalizer, empty batches for pipelines, re-estimation while later data are already remembered "
        "(outcome not pinned down by the property).")
    return R.result()


def replay(rec):
    m = rec.get("model") or {}
    target = str(rec.get("target", "")) + " " + str(rec.get("case", ""))
    R = Recorder("replay")
    with warnings.catch_warnings():
        warnings.simplefilter("ignore")
        specs = all_specs()
        words = {"Naive": "Naive", "Window": "Naive", "Polynomial": "Polynomial", "Ensemble": "Ensemble", "Transformed": "Pipeline", "Detrend": "Detrender",
                 "Deseason": "Deseasonalizer", "Stack": "Stacking", "Multiplex": "Multiplex", "Theta": "Theta", "Reduc": "Reduction",
                 "Exponential": "ExponentialSmoothing"}
        want = [v for k, v in words.items() if k in target]
        chosen = [s for s in specs if any(w in s.name for w in want)] or [s for s in specs if not s.slow]
        n1 = min(max(mint(m, "n1", mint(m, "n", 8)), 8), 14)
        k = min(max(mint(m, "k", mint(m, "len(y_new)", 3)), 1), 6)
        l0 = min(max(mint(m, "l0", 3), 0), 20)
        if "n_old" in m and "l0" in m:
            # keep the counterexample's CUTOFF (the last training label), whatever length the oracle fits on
            l0 = min(max(mint(m, "l0", 3) + mint(m, "n_old", 1) - 1, -40), 40) - n1 + 1
        nf = min(max(mint(m, "len(fh)", 2), 1), 3)
        fh = sorted(set(max(1, min(abs(h), 5)) for h in ints_from_model(m, "fh", nf))) or [1, 3]
        if fh == [1] and nf > 1:
            fh = [1, 3]
        inp = {"n1": n1, "k": k, "l0": l0, "fh": fh, "specs": [s.name for s in chosen]}
        im = IndexMap("range")
        for s in chosen:
            nn = max(n1, s.min_fit + 1)
            ff = fh if not (s.required_fh and max(fh) >= 4) else [1, 3]
            for up in (True, False):
                scen_batches(R, s, im, ff, l0, nn, [k], [up], 0, "replay ")
                scen_batches(R, s, im, ff, l0, nn, [1, k], [up, not up], 1, "replay ")
                scen_ups(R, s, im, ff, l0, nn, k, 0, up, "update", "replay ")
                for cv in (("sliding", 3, 2, True), ("sliding", 2, 1, s.empty_ok is False), ("expanding", 2, 1, True)):
                    scen_upp(R, s, im, ff, l0, nn, max(ff) + k + 1, cv, up, "update-same", tag="replay ")
    f = [x for x in R.failures if not x["key"].startswith("KF:")]
    inp["known_findings_also_seen"] = [x["key"] for x in R.failures if x["key"].startswith("KF:")]
    return {"reproduced": bool(f), "detail": f[:3], "input": inp}
