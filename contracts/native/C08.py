"""C08 native oracle: grid / randomized search on the real tuner, checked against independently built forecasters,
independent evaluate runs, raw metric functions and (for the naive / probe forecasters) a plain numpy re-computation."""
import copy
import itertools
import warnings

import numpy as np
import pandas as pd

from .common import Recorder, mint

from sktime.forecasting.base._base import DEFAULT_ALPHA
from sktime.forecasting.base._sktime import _OptionalForecastingHorizonMixin
from sktime.forecasting.base._sktime import _SktimeForecaster

LOG = []
TOL = dict(rtol=1e-9, atol=1e-11)


# --------------------------------------------------------------------------------------------------------------
# a transparent forecaster of our own: forecast = mean(last k observations) + bias + slope * h + xcoef * X[t, 0]
# every fit is recorded (which stretch of the series, which horizon, with which parameters)
# --------------------------------------------------------------------------------------------------------------
def _fh_view(fh):
    if fh is None:
        return None
    if hasattr(fh, "to_pandas"):
        return ("rel" if fh.is_relative else "abs", [v for v in fh.to_pandas()])
    return ("rel", [int(v) for v in np.atleast_1d(fh)])


class Probe(_OptionalForecastingHorizonMixin, _SktimeForecaster):
    def __init__(self, k=1, slope=0.0, bias=0.0, xcoef=0.0):
        self.k = k
        self.slope = slope
        self.bias = bias
        self.xcoef = xcoef
        super(Probe, self).__init__()

    def fit(self, y, X=None, fh=None):
        self._set_y_X(y, X)
        self._set_fh(fh)
        LOG.append({"params": self.get_params(), "first": y.index[0], "last": y.index[-1], "n": len(y),
                    "fh": _fh_view(fh), "X": X is not None})
        self._is_fitted = True
        return self

    def _predict(self, fh, X=None, return_pred_int=False, alpha=DEFAULT_ALPHA):
        v = np.asarray(self._y.values, dtype=float)
        k = max(1, min(int(self.k), len(v)))
        rel = np.asarray(fh.to_relative(self.cutoff).to_numpy(), dtype=float)
        idx = fh.to_absolute(self.cutoff).to_pandas()
        out = v[-k:].mean() + self.bias + self.slope * rel
        if self.xcoef and X is not None:
            out = out + self.xcoef * np.asarray(X.loc[idx].iloc[:, 0].values, dtype=float)
        return pd.Series(out, index=idx)


# --------------------------------------------------------------------------------------------------------------
# metrics: (label, scorer factory or None, raw numpy function, greater_is_better)
# --------------------------------------------------------------------------------------------------------------
def _a(x):
    return np.asarray(x, dtype=float)


def r_smape(t, p):
    return float(np.mean(2 * np.abs(t - p) / (np.abs(t) + np.abs(p))))


def r_mape(t, p):
    return float(np.mean(np.abs(t - p) / np.abs(t)))


def r_mae(t, p):
    return float(np.mean(np.abs(t - p)))


def r_mse(t, p):
    return float(np.mean((t - p) ** 2))


def r_rmse(t, p):
    return float(np.sqrt(np.mean((t - p) ** 2)))


def r_mdae(t, p):
    return float(np.median(np.abs(t - p)))


def r_maxerr(t, p):
    return float(np.max(np.abs(t - p)))


def r_negmae(t, p):
    return -float(np.mean(np.abs(t - p)))


def r_close(t, p):
    return 1.0 / (1.0 + float(np.mean((t - p) ** 2)))


def r_hit(t, p):
    return float(np.mean(np.abs(t - p) <= 1.5))


def f_maxerr(y_true, y_pred):
    return r_maxerr(_a(y_true), _a(y_pred))


def f_negmae(y_true, y_pred):
    return r_negmae(_a(y_true), _a(y_pred))


def f_close(y_true, y_pred):
    return r_close(_a(y_true), _a(y_pred))


def f_hit(y_true, y_pred):
    return r_hit(_a(y_true), _a(y_pred))


def _metric(i):
    from sktime.performance_metrics.forecasting import (MeanAbsoluteError, MeanSquaredError, MedianAbsoluteError,
                                                        MeanAbsolutePercentageError, make_forecasting_scorer)
    table = [
        ("default(None)=sMAPE", lambda: None, r_smape, False),
        ("MeanAbsoluteError()", lambda: MeanAbsoluteError(), r_mae, False),
        ("gain:neg_mae", lambda: make_forecasting_scorer(f_negmae, name="neg_mae", greater_is_better=True), r_negmae, True),
        ("MeanSquaredError(square_root=True)", lambda: MeanSquaredError(square_root=True), r_rmse, False),
        ("gain:closeness", lambda: make_forecasting_scorer(f_close, name="closeness", greater_is_better=True), r_close, True),
        ("loss:max_abs_err", lambda: make_forecasting_scorer(f_maxerr, name="max_abs_err", greater_is_better=False), r_maxerr, False),
        ("gain:hit_rate", lambda: make_forecasting_scorer(f_hit, greater_is_better=True), r_hit, True),
        ("MedianAbsoluteError()", lambda: MedianAbsoluteError(), r_mdae, False),
        ("MeanAbsolutePercentageError(symmetric=False)", lambda: MeanAbsolutePercentageError(symmetric=False), r_mape, False),
        ("MeanSquaredError()", lambda: MeanSquaredError(), r_mse, False),
    ]
    return table[i % len(table)]


N_METRICS = 10
GAINS = (2, 4, 6)
LOSSES = (0, 1, 3, 5, 7, 8, 9)


# --------------------------------------------------------------------------------------------------------------
# forecaster kinds: base settings (deliberately not the constructor defaults), grids, direct construction
# --------------------------------------------------------------------------------------------------------------
def _sub(d, prefix):
    return {k[len(prefix):]: v for k, v in d.items() if k.startswith(prefix)}


NAIVE_DEF = {"strategy": "last", "window_length": None, "sp": 1}
PROBE_DEF = {"k": 1, "slope": 0.0, "bias": 0.0, "xcoef": 0.0}


def build(fkind, base, cand):
    """the forecaster of kind `fkind` with the base settings overlaid by the candidate's parameters, built by calling the
    constructors directly (no clone / set_params)"""
    from sktime.forecasting.naive import NaiveForecaster
    eff = dict(base)
    eff.update(cand)
    if fkind == "naive":
        e = dict(NAIVE_DEF, **eff)
        return NaiveForecaster(strategy=e["strategy"], window_length=e["window_length"], sp=e["sp"])
    if fkind == "probe":
        e = dict(PROBE_DEF, **eff)
        return Probe(k=e["k"], slope=e["slope"], bias=e["bias"], xcoef=e["xcoef"])
    if fkind in ("pipe-naive", "pipe-probe"):
        from sktime.forecasting.compose import TransformedTargetForecaster
        from sktime.forecasting.trend import PolynomialTrendForecaster
        from sktime.transformations.series.detrend import Detrender
        if "forecaster" in cand:
            inner = copy.deepcopy(cand["forecaster"])
        else:
            inner = build(fkind[5:], _sub(eff, "forecaster__"), {})
        det = Detrender(PolynomialTrendForecaster(degree=eff["detrend__forecaster__degree"]))
        return TransformedTargetForecaster([("detrend", det), ("forecaster", inner)])
    if fkind == "mux":
        from sktime.forecasting.compose import MultiplexForecaster
        from sktime.forecasting.trend import PolynomialTrendForecaster
        return MultiplexForecaster(
            forecasters=[("naive", build("naive", _sub(eff, "naive__"), {})),
                         ("probe", build("probe", _sub(eff, "probe__"), {})),
                         ("trend", PolynomialTrendForecaster(degree=eff["trend__degree"]))],
            selected_forecaster=eff["selected_forecaster"])
    raise KeyError(fkind)


def _bases(fkind):
    if fkind == "naive":
        return {"strategy": "drift", "window_length": 4, "sp": 1}
    if fkind == "probe":
        return {"k": 2, "slope": 0.3, "bias": 0.0, "xcoef": 0.0}
    if fkind == "pipe-naive":
        return {"detrend__forecaster__degree": 1, "forecaster__strategy": "mean", "forecaster__window_length": 5, "forecaster__sp": 1}
    if fkind == "pipe-probe":
        return {"detrend__forecaster__degree": 2, "forecaster__k": 2, "forecaster__slope": 0.1, "forecaster__bias": 0.0, "forecaster__xcoef": 0.0}
    if fkind == "mux":
        return {"selected_forecaster": "naive", "naive__strategy": "drift", "naive__window_length": None, "naive__sp": 1,
                "probe__k": 3, "probe__slope": 0.2, "probe__bias": 0.0, "probe__xcoef": 0.0, "trend__degree": 1}
    raise KeyError(fkind)


def _grids(fkind, tier):
    """parameter grids: single dicts, lists of dicts whose sub-grids tune different parameter sets, nested names,
    whole-component replacement, duplicated values (ties)"""
    from sktime.forecasting.naive import NaiveForecaster
    if fkind == "naive":
        g = [{"strategy": ["last", "mean", "drift"], "window_length": [2, 5]},
             [{"strategy": ["mean"], "window_length": [6, 2]}, {"strategy": ["drift", "last"]}],
             {"sp": [1, 3, 4], "strategy": ["last"]},
             [{"window_length": [3, 6]}, {"strategy": ["mean", "last"]}, {"strategy": ["mean"], "window_length": [None]}]]
        if tier != "quick":
            g += [{"strategy": ["mean", "drift"], "window_length": [None, 2, 3, 7]},
                  [{"sp": [2], "strategy": ["last"]}, {"window_length": [2, 7]}, {"strategy": ["mean"]}]]
        return g
    if fkind == "probe":
        g = [{"k": [1, 3, 6], "slope": [0.0, 0.5]},
             [{"k": [1, 4], "bias": [-0.5, 0.5]}, {"slope": [0.0, 0.2, 0.6]}],
             {"bias": [0.0, 0.0, 1.0], "k": [2]},
             {"xcoef": [0.0, 1.0, -1.0], "k": [1, 3]}]
        if tier != "quick":
            g += [[{"bias": [2.0]}, {"k": [7, 1]}, {"slope": [-0.2, 0.4], "k": [5]}],
                  {"k": [1, 2, 3, 4, 5], "slope": [0.1]}]
        return g
    if fkind == "pipe-naive":
        g = [{"detrend__forecaster__degree": [1, 2], "forecaster__strategy": ["last", "mean"]},
             [{"detrend__forecaster__degree": [1, 2], "forecaster__window_length": [3]}, {"forecaster__strategy": ["mean", "drift"]}],
             {"forecaster": [NaiveForecaster("drift"), Probe(k=3, slope=0.1), NaiveForecaster("mean", window_length=2)],
              "detrend__forecaster__degree": [1, 2]}]
        if tier != "quick":
            g += [[{"forecaster__strategy": ["last"], "forecaster__sp": [3]}, {"forecaster__window_length": [2, 6]},
                   {"detrend__forecaster__degree": [2]}]]
        return g
    if fkind == "pipe-probe":
        g = [{"forecaster__k": [1, 3], "forecaster__slope": [0.0, 0.3]},
             [{"forecaster__k": [1, 5], "forecaster__bias": [0.4]}, {"detrend__forecaster__degree": [1, 2]}]]
        if tier != "quick":
            g += [[{"detrend__forecaster__degree": [1], "forecaster__slope": [0.5]}, {"forecaster__k": [4, 6]}]]
        return g
    if fkind == "mux":
        g = [{"selected_forecaster": ["naive", "probe", "trend"]},
             [{"selected_forecaster": ["naive"], "naive__strategy": ["mean"], "naive__window_length": [2, 5]},
              {"selected_forecaster": ["trend"], "trend__degree": [1, 2]},
              {"selected_forecaster": ["naive", "probe"]},
              {"probe__k": [5]}],
             [{"selected_forecaster": ["probe"], "probe__k": [1, 6], "probe__slope": [0.5]}, {"selected_forecaster": ["probe", "naive"]}]]
        if tier != "quick":
            g += [{"selected_forecaster": ["probe", "naive"], "naive__strategy": ["last", "mean"], "probe__bias": [0.0, 0.7]}]
        return g
    raise KeyError(fkind)


def canon(v):
    if hasattr(v, "get_params"):
        return (type(v).__name__, tuple(sorted((k, repr(canon(x))) for k, x in v.get_params(deep=False).items())))
    if isinstance(v, dict):
        return tuple(sorted((k, repr(canon(x))) for k, x in v.items()))
    if isinstance(v, (bool, str)) or v is None:
        return v
    if isinstance(v, (int, np.integer)):
        return float(v)
    if isinstance(v, (float, np.floating)):
        return float(v)
    return repr(v)


def grid_candidates(grid):
    """own enumeration of a parameter grid (dict or list of dicts): the cartesian product of every sub-grid"""
    out = []
    for g in (grid if isinstance(grid, list) else [grid]):
        keys = sorted(g)
        for combo in itertools.product(*[g[k] for k in keys]):
            out.append(dict(zip(keys, combo)))
    return out


def in_distributions(cand, dists):
    for g in (dists if isinstance(dists, list) else [dists]):
        if set(g) != set(cand):
            continue
        ok = True
        for k, spec in g.items():
            if hasattr(spec, "rvs"):
                lo, hi = spec.support()
                ok = ok and lo <= cand[k] <= hi
            else:
                ok = ok and any(canon(cand[k]) == canon(x) for x in spec)
        if ok:
            return True
    return False


# --------------------------------------------------------------------------------------------------------------
# independent re-computation of the CV forecasts of the naive / probe kinds
# --------------------------------------------------------------------------------------------------------------
def leaf_of(fkind, base, cand):
    """(leaf kind, leaf parameters) if the forecaster reduces to a plain naive / probe forecaster, else None"""
    eff = dict(base)
    eff.update(cand)
    if fkind == "naive":
        return "naive", dict(NAIVE_DEF, **eff)
    if fkind == "probe":
        return "probe", dict(PROBE_DEF, **eff)
    if fkind == "mux" and eff["selected_forecaster"] in ("naive", "probe"):
        s = eff["selected_forecaster"]
        return s, dict(NAIVE_DEF if s == "naive" else PROBE_DEF, **_sub(eff, s + "__"))
    return None


def leaf_forecast(leaf, tr, rel, xrow):
    kind, p = leaf
    rel = np.asarray(rel, dtype=float)
    if kind == "probe":
        k = max(1, min(int(p["k"]), len(tr)))
        out = tr[-k:].mean() + p["bias"] + p["slope"] * rel
        if p["xcoef"] and xrow is not None:
            out = out + p["xcoef"] * xrow
        return out
    wl, sp, st = p["window_length"], p["sp"], p["strategy"]
    if st == "last":
        if sp == 1:
            return np.repeat(tr[-1], len(rel))
        season = tr[-sp:]
        return np.array([season[(int(h) - 1) % sp] for h in rel])
    win = tr if wl is None else tr[-wl:]
    if st == "mean":
        if sp != 1:
            return None
        return np.repeat(win.mean(), len(rel))
    return win[-1] + rel * (win[-1] - win[0]) / (len(win) - 1)


def numpy_cv_scores(leaf, yv, Xv, splits, strategy, raw):
    seen = np.array([], dtype=int)
    scores = []
    for tr, te in splits:
        seen = np.asarray(tr) if strategy == "refit" else np.union1d(seen, tr)
        rel = np.asarray(te) - tr[-1]
        pred = leaf_forecast(leaf, yv[seen], rel, None if Xv is None else Xv[te, 0])
        if pred is None:
            return None
        scores.append(raw(yv[te], np.asarray(pred, dtype=float)))
    return scores


# --------------------------------------------------------------------------------------------------------------
# data, splitters
# --------------------------------------------------------------------------------------------------------------
def make_index(kind, n):
    if kind == "range0":
        return pd.RangeIndex(0, n)
    if kind == "range10":
        return pd.RangeIndex(10, 10 + n)
    if kind == "int7":
        return pd.Index(np.arange(7, 7 + n, dtype=np.int64))
    if kind == "periodM":
        return pd.period_range("2001-03", periods=n, freq="M")
    raise KeyError(kind)


def make_data(n, kind, seed):
    rng = np.random.RandomState(seed)
    t = np.arange(n)
    v = 20 + 0.35 * t + 3.0 * np.sin(t * 2 * np.pi / 4) + np.cumsum(rng.randn(n) * 0.7) + rng.randn(n) * 0.5
    v = np.round(np.maximum(v, 2.0), 3)
    idx = make_index(kind, n)
    X = pd.DataFrame({"x0": np.round(rng.randn(n), 3), "x1": np.round(rng.rand(n), 3)}, index=idx)
    return pd.Series(v, index=idx), X


SPLITTERS = [
    ("sliding", dict(fh=[1, 2, 3], window_length=8, step_length=3)),
    ("sliding", dict(fh=[2, 4], window_length=7, step_length=2)),
    ("expanding", dict(fh=[1], initial_window=9, step_length=4)),
    ("expanding", dict(fh=np.array([1, 3]), initial_window=8, step_length=3)),
    ("single", dict(fh=[1, 2, 3], window_length=10)),
    ("cutoff", dict(cutoffs=np.array([9, 13, 16]), fh=[1, 2], window_length=8)),
    ("sliding", dict(fh=1, window_length=9, step_length=1)),
    ("sliding", dict(fh=[1, 2], window_length=7, step_length=5)),
]


def make_cv(spec):
    from sktime.forecasting.model_selection import (SlidingWindowSplitter, ExpandingWindowSplitter, SingleWindowSplitter,
                                                    CutoffSplitter)
    kind, kw = spec
    kw = copy.deepcopy(kw)
    return {"sliding": SlidingWindowSplitter, "expanding": ExpandingWindowSplitter, "single": SingleWindowSplitter,
            "cutoff": CutoffSplitter}[kind](**kw)


def show_cv(spec):
    return spec[0] + "(" + ", ".join(f"{k}={'array(%s)' % v.tolist() if isinstance(v, np.ndarray) else v}" for k, v in spec[1].items()) + ")"


# --------------------------------------------------------------------------------------------------------------
# running an operation on the tuner and on the directly built forecaster
# --------------------------------------------------------------------------------------------------------------
def outcome(call):
    try:
        with warnings.catch_warnings():
            warnings.simplefilter("ignore")
            return ("value", call())
    except Exception as e:       # noqa: B902
        return ("raised", type(e).__name__, str(e)[:120])


def same_outcome(a, b):
    if a[0] != b[0]:
        return False
    if a[0] == "raised":
        return a[1] == b[1]
    va, vb = a[1], b[1]
    if isinstance(va, (pd.Series, pd.DataFrame)) or isinstance(vb, (pd.Series, pd.DataFrame)):
        if type(va) is not type(vb) or va.shape != vb.shape or not va.index.equals(vb.index):
            return False
        return bool(np.allclose(np.asarray(va.values, dtype=float), np.asarray(vb.values, dtype=float), equal_nan=True, **TOL))
    return va == vb


def show(o):
    if o[0] == "raised":
        return f"raised {o[1]}: {o[2]}"
    v = o[1]
    if isinstance(v, pd.Series):
        return f"Series(index={[str(i) for i in v.index]}, values={[round(float(x), 4) for x in np.asarray(v.values, dtype=float)]})"
    if isinstance(v, pd.DataFrame):
        return f"DataFrame{v.shape}"
    return repr(v)


def make_tuner(ctx):
    from sktime.forecasting.model_selection import ForecastingGridSearchCV, ForecastingRandomizedSearchCV
    common = dict(forecaster=build(ctx["fkind"], ctx["base"], {}), cv=ctx["cv"], scoring=ctx["scorer"](), strategy=ctx["strategy"],
                  refit=ctx["refit"])
    if ctx["search"] == "grid":
        return ForecastingGridSearchCV(param_grid=ctx["grid"], **common)
    return ForecastingRandomizedSearchCV(param_distributions=ctx["grid"], n_iter=ctx["n_iter"], random_state=ctx["random_state"], **common)


def describe(ctx):
    g = ctx["grid"]

    def sg(d):
        return "{" + ", ".join(f"{k}: {v if not hasattr(v, 'rvs') else 'randint'}" for k, v in d.items()) + "}"
    gs = "[" + ", ".join(sg(d) for d in g) + "]" if isinstance(g, list) else sg(g)
    s = (f"{ctx['search']} search over {ctx['fkind']} forecaster (base {ctx['base']}), "
         f"{'param_grid' if ctx['search'] == 'grid' else 'param_distributions(n_iter=%s, random_state=%s)' % (ctx['n_iter'], ctx['random_state'])}={gs}, "
         f"scoring={ctx['mlabel']}, cv={show_cv(ctx['cvspec'])}, strategy={ctx['strategy']}, refit={ctx['refit']}, "
         f"y: {len(ctx['y'])} points index {ctx['ikind']} data-seed {ctx['dseed']}, X={'yes' if ctx['X'] is not None else 'no'}, fit fh={ctx['fit_fh']}")
    return s


def check_fitted(R, tuner, ctx, log):
    """all clauses about cv_results_ / best_* of one fitted tuner; returns False if the configuration is unusable"""
    from sktime.forecasting.model_evaluation import evaluate
    desc = ctx["desc"]
    fkind, base, y, X, cv, raw, gib = ctx["fkind"], ctx["base"], ctx["y"], ctx["X"], ctx["cv"], ctx["raw"], ctx["gib"]
    res = tuner.cv_results_
    cols = [c for c in res.columns if c.startswith("mean_test_")]
    R.check("cv-results-has-one-score-column", len(cols) == 1 and "params" in res.columns, f"{desc}: columns {list(res.columns)}")
    if len(cols) != 1 or "params" not in res.columns:
        return False
    col = cols[0]
    cands = [dict(p) for p in res["params"]]
    reported = np.asarray(res[col].values, dtype=float)
    # -- every candidate of the grid / n_iter candidates drawn from the distributions
    if ctx["search"] == "grid":
        want = sorted(repr(canon(c)) for c in grid_candidates(ctx["grid"]))
        got = sorted(repr(canon(c)) for c in cands)
        R.check("every-candidate-evaluated", want == got, f"{desc}: cv_results_ has {len(cands)} rows {cands}; the grid has {len(want)} candidates")
    else:
        R.check("every-candidate-evaluated", len(cands) == ctx["n_iter"] and all(in_distributions(c, ctx["grid"]) for c in cands),
                f"{desc}: {len(cands)} sampled candidates {cands} (n_iter={ctx['n_iter']}), each must come from the distributions")
    # -- rows against independent runs
    yv = np.asarray(y.values, dtype=float)
    Xv = None if X is None else np.asarray(X.values, dtype=float)
    splits = ctx["splits"]
    ref_raw, ref_np = [], []
    for i, cand in enumerate(cands):
        direct = build(fkind, base, cand)
        o = outcome(lambda: evaluate(direct, cv, y, X, strategy=ctx["strategy"], scoring=ctx["scorer"](), return_data=True))
        if o[0] == "raised":
            return False       # the candidate cannot be evaluated at all: not a usable configuration
        E = o[1]
        ecol = [c for c in E.columns if c.startswith("test_")][0]
        ev = float(np.mean(np.asarray(E[ecol].values, dtype=float)))
        R.check("row-equals-independent-evaluate", np.isclose(reported[i], ev, **TOL),
                f"{desc}: row {i} {cand}: {col}={float(reported[i])!r} but evaluate() of a forecaster built directly with these parameters gives mean {ev!r}")
        rr = float(np.mean([raw(_a(t.values), _a(p.values)) for t, p in zip(E["y_test"], E["y_pred"])]))
        ref_raw.append(rr)
        R.check("row-is-metric-of-candidate-cv-forecasts", np.isclose(reported[i], rr, **TOL),
                f"{desc}: row {i} {cand}: {col}={float(reported[i])!r} but the metric function applied to the CV forecasts of that candidate has mean {rr!r}")
        R.check("same-splits-as-cv", len(E) == len(splits) and all(list(t.index) == list(y.index[te]) for t, (_, te) in zip(E["y_test"], splits)),
                f"{desc}: independent evaluate used {len(E)} test windows, cv.split(y) yields {len(splits)}")
        leaf = leaf_of(fkind, base, cand)
        sc = numpy_cv_scores(leaf, yv, Xv, splits, ctx["strategy"], raw) if leaf is not None else None
        ref_np.append(None if sc is None else float(np.mean(sc)))
        if sc is not None:
            R.check("row-equals-numpy-recomputation", np.isclose(reported[i], ref_np[-1], **TOL),
                    f"{desc}: row {i} {cand}: {col}={float(reported[i])!r} but re-computing the forecasts on the {len(splits)} splits with numpy gives mean {ref_np[-1]!r}")
    # -- selection
    bi = tuner.best_index_
    ok_bi = isinstance(bi, (int, np.integer)) and 0 <= bi < len(cands)
    R.check("best-index-in-range", ok_bi, f"{desc}: best_index_={bi!r} with {len(cands)} candidates")
    if not ok_bi:
        return True
    bi = int(bi)
    pick = max if gib else min
    word = "highest" if gib else "lowest"
    for name, ref in (("metric-of-cv-forecasts", ref_raw), ("numpy-recomputation", ref_np)):
        if any(r is None for r in ref):
            continue
        best = pick(ref)
        R.check("best-index-is-best-in-metric-direction", np.isclose(ref[bi], best, **TOL),
                f"{desc}: best_index_={bi} {cands[bi]} has mean score {ref[bi]!r} ({name}) but the {word} mean score is {best!r} "
                f"(candidate {ref.index(best)} {cands[ref.index(best)]}); all means {[round(float(r), 5) for r in ref]}")
        R.check("best-score-is-best-mean-score", np.isclose(float(tuner.best_score_), best, **TOL),
                f"{desc}: best_score_={float(tuner.best_score_)!r} but the {word} mean CV score ({name}) is {best!r}")
    R.check("best-index-is-best-of-cv-results", np.isclose(reported[bi], pick(reported), **TOL),
            f"{desc}: best_index_={bi} has {col}={float(reported[bi])!r}, the {word} value in cv_results_ is {pick(reported)!r}")
    R.check("best-score-is-row-of-best-index", float(tuner.best_score_) == reported[bi], f"{desc}: best_score_={float(tuner.best_score_)!r}, row {bi} has {reported[bi]!r}")
    R.check("best-params-is-row-of-best-index", canon(dict(tuner.best_params_)) == canon(cands[bi]), f"{desc}: best_params_={tuner.best_params_} but row {bi} is {cands[bi]}")
    # -- best forecaster carries the base settings overlaid by the best parameters
    eff = dict(base)
    eff.update(tuner.best_params_)
    if "forecaster" in tuner.best_params_:
        eff = {k: v for k, v in eff.items() if not k.startswith("forecaster__")}
    gp = tuner.best_forecaster_.get_params(deep=True)
    bad = {k: gp.get(k, "<missing>") for k, v in eff.items() if k not in gp or canon(gp[k]) != canon(v)}
    R.check("best-forecaster-has-best-params", not bad, f"{desc}: best_params_={tuner.best_params_}: best_forecaster_ has {bad}, expected {({k: eff[k] for k in bad})}")
    # -- which stretches of the series every candidate was fitted on (probe kinds record their fits)
    if log is not None:
        ns = len(splits)
        seen = np.array([], dtype=int)
        want_w = []
        for tr, _ in splits:
            seen = np.asarray(tr) if ctx["strategy"] == "refit" else np.union1d(seen, tr)
            want_w.append((y.index[seen[0]], y.index[seen[-1]], len(seen)))
        pre = "forecaster__" if fkind == "pipe-probe" else ""
        okw, okp, why = len(log) >= ns * len(cands), True, ""
        for i, cand in enumerate(cands):
            chunk = log[i * ns:(i + 1) * ns]
            got_w = [(e["first"], e["last"], e["n"]) for e in chunk]
            if got_w != want_w:
                okw, why = False, f"candidate {i} {cand} was fitted on {got_w}, the splits are {want_w}"
            effp = dict(PROBE_DEF, **(_sub(dict(base, **cand), pre) if pre else dict(base, **cand)))
            for e in chunk:
                if canon(e["params"]) != canon(effp):
                    okp, why = False, f"candidate {i} {cand}: the forecaster that was fitted had parameters {e['params']}, expected {effp}"
        R.check("all-candidates-on-the-same-temporal-splits", okw, f"{desc}: {len(log)} recorded fits; {why}")
        R.check("candidate-evaluated-with-its-own-parameters", okp, f"{desc}: {why}")
        rest = log[ns * len(cands):]
        if ctx["refit"]:
            effp = dict(PROBE_DEF, **(_sub(dict(base, **tuner.best_params_), pre) if pre else dict(base, **tuner.best_params_)))
            ok = (len(rest) == 1 and (rest[0]["first"], rest[0]["last"], rest[0]["n"]) == (y.index[0], y.index[-1], len(y))
                  and canon(rest[0]["params"]) == canon(effp) and rest[0]["X"] == ((X is not None) and fkind == "probe"))
            if ok and fkind == "probe":
                ok = rest[0]["fh"] == _fh_view(ctx["fit_fh"])
            R.check("refit-on-whole-series", ok, f"{desc}: after the search the recorded fits are {rest}; expected one fit on the whole series "
                    f"[{y.index[0]}..{y.index[-1]}] ({len(y)} points) with parameters {effp} and fh={ctx['fit_fh']}")
        else:
            R.check("no-refit-means-no-final-fit", len(rest) == 0, f"{desc}: refit=False but {len(rest)} further fits were recorded: {rest}")
    return True


def check_delegation(R, tuner, ctx, y_more, X_more, variant):
    """predict / update / cutoff (and the update_predict variants) of a refitted tuner against a forecaster that is
    constructed directly with best_params_, fitted on the same series and driven through the same call sequence"""
    from sktime.forecasting.model_selection import SlidingWindowSplitter
    desc = ctx["desc"]
    y, X, fit_fh = ctx["y"], ctx["X"], ctx["fit_fh"]
    useX = X is not None
    direct = build(ctx["fkind"], ctx["base"], dict(tuner.best_params_))
    o = outcome(lambda: direct.fit(y, X, fit_fh))
    if o[0] == "raised":
        return
    R.check("cutoff-equals-direct-best", same_outcome(outcome(lambda: tuner.cutoff), ("value", y.index[-1])),
            f"{desc}: after fit tuner.cutoff -> {show(outcome(lambda: tuner.cutoff))}, the series ends at {y.index[-1]}")
    chunks = [y_more.iloc[0:2], y_more.iloc[2:3], y_more.iloc[5:8], y_more.iloc[8:11], y_more.iloc[3:5]]
    pos = [len(y)]

    def xf(h):
        """exogenous rows for the next h steps after the current cutoff"""
        if not useX:
            return None
        return X_more.iloc[pos[0]: pos[0] + h]

    def xc(c):
        return X_more.loc[c.index] if useX else None

    fhs = [[1, 2, 3], [2, 4], 1, np.array([1, 3])]
    fa, fb = fhs[variant % 4], fhs[(variant + 1) % 4]
    ha, hb = int(np.max(fa)), int(np.max(fb))
    steps = []
    if fit_fh is not None and variant % 2 == 0:
        steps.append(("predict-equals-direct-best", "predict()", lambda f: f.predict(X=xf(int(np.max(fit_fh))))))
    steps.append(("predict-equals-direct-best", f"predict({fa})", lambda f: f.predict(fa, X=xf(ha))))
    steps.append(("update-equals-direct-best", f"update({len(chunks[0])} new points, update_params=False)",
                  lambda f: (f.update(chunks[0], xc(chunks[0]), update_params=False), pos.__setitem__(0, len(y) + 2))[0] is f))
    steps.append(("cutoff-equals-direct-best", "cutoff", lambda f: f.cutoff))
    steps.append(("predict-equals-direct-best", f"predict({fb})", lambda f: f.predict(fb, X=xf(hb))))
    steps.append(("update-equals-direct-best", "update(1 new point, update_params=True)",
                  lambda f: (f.update(chunks[1], xc(chunks[1]), update_params=True), pos.__setitem__(0, len(y) + 3))[0] is f))
    steps.append(("cutoff-equals-direct-best", "cutoff", lambda f: f.cutoff))
    steps.append(("predict-equals-direct-best", f"predict({fa})", lambda f: f.predict(fa, X=xf(ha))))
    steps.append(("default-update", "update(2 new points)  [update_params not given]",
                  lambda f: (f.update(chunks[4], xc(chunks[4])), pos.__setitem__(0, len(y) + 5))[0] is f))
    if not useX:
        steps.append(("update-predict-single-equals-direct-best", f"update_predict_single(3 new points, fh={fb}, update_params={variant % 2 == 1})",
                      lambda f: f.update_predict_single(chunks[2], fh=fb, update_params=(variant % 2 == 1))))
        steps.append(("cutoff-equals-direct-best", "cutoff", lambda f: f.cutoff))
        ucv = SlidingWindowSplitter(fh=fa, window_length=1, start_with_window=False) if variant % 2 == 0 else None
        steps.append(("update-predict-equals-direct-best", f"update_predict(3 new points, cv={'sliding(window_length=1)' if ucv is not None else None}, update_params=False)",
                      lambda f: f.update_predict(chunks[3], cv=ucv, update_params=False)))
        steps.append(("cutoff-equals-direct-best", "cutoff", lambda f: f.cutoff))
        steps.append(("predict-equals-direct-best", f"predict({fa})", lambda f: f.predict(fa)))
    done = []
    for key, label, op in steps:
        p0 = pos[0]
        if key == "default-update":
            # update() called WITHOUT the update_params argument: the observable state afterwards (cutoff, forecasts) must be that of
            # the directly built forecaster after the same call
            alt = copy.deepcopy(direct)
            ot = outcome(lambda: op(tuner))
            pos[0] = p0
            od = outcome(lambda: op(direct))
            pos[0] = p0
            oa = outcome(lambda: (alt.update(chunks[4], xc(chunks[4]), update_params=False), pos.__setitem__(0, p0 + 2))[0] is alt)
            done.append(label)

            def state(f):
                return [outcome(lambda: f.cutoff), outcome(lambda: f.predict(fa, X=xf(ha)))]
            sT, sD, sA = [ot] + state(tuner), [od] + state(direct), [oa] + state(alt)
            okD = all(same_outcome(a, b) for a, b in zip(sT, sD))
            okA = all(same_outcome(a, b) for a, b in zip(sT, sA))
            detail = (f"{desc}: best_params_={tuner.best_params_}; call sequence after fit: {' ; '.join(done)} ; cutoff ; predict({fa}): "
                      f"tuner -> {show(sT[1])}, {show(sT[2])}; forecaster built directly with best_params_ after the same calls -> {show(sD[1])}, {show(sD[2])}")
            if okD or not okA:
                R.check("update-equals-direct-best", okD, detail)
            else:
                # the unchanged tree: BaseGridSearch.update defaults to update_params=False, BaseForecaster.update to True
                R.check("KF:update-default-update_params-False-on-tuner-True-on-forecasters", False,
                        detail + "; the tuner behaves like the direct forecaster after update(..., update_params=False)")
            if not same_outcome(sT[2], sD[2]) and same_outcome(sT[2], sA[2]):
                direct = alt       # keep following the tuner's actual state so that later steps are judged on their own
            continue
        ot = outcome(lambda: op(tuner))
        pos[0] = p0
        od = outcome(lambda: op(direct))
        done.append(label)
        if key.startswith("update-equals") and ot[0] == "value":
            ot = ("value", "returned the tuner" if ot[1] else "did not return the tuner")
            od = ("value", "returned the tuner") if od[0] == "value" else od
        R.check(key, same_outcome(ot, od), f"{desc}: best_params_={tuner.best_params_}; call sequence after fit: {' ; '.join(done)}: "
                f"tuner -> {show(ot)}, forecaster built directly with best_params_ -> {show(od)}")


def check_no_refit(R, tuner, ctx, y_more):
    desc = ctx["desc"]
    new = y_more.iloc[0:2]
    ops = [("predict([1, 2])", lambda: tuner.predict([1, 2])),
           ("update(2 new points)", lambda: tuner.update(new, update_params=False)),
           ("update_predict_single(2 new points, fh=[1])", lambda: tuner.update_predict_single(new, fh=[1])),
           ("update_predict(2 new points)", lambda: tuner.update_predict(new))]
    for label, op in ops:
        o = outcome(op)
        R.check("no-refit-raises-NotFittedError", o[0] == "raised" and o[1] == "NotFittedError", f"{desc}: refit=False, {label} -> {show(o)}")
    o = outcome(lambda: tuner.cutoff)
    if o[0] == "value" and o[1] is None:
        # the unchanged tree hands out the cutoff (None) of the unfitted best_forecaster_ instead of raising
        R.check("KF:cutoff-without-refit-returns-None-instead-of-raising", False, f"{desc}: refit=False, tuner.cutoff -> {show(o)}; the property demands NotFittedError")
    else:
        R.check("no-refit-raises-NotFittedError", o[0] == "raised" and o[1] == "NotFittedError", f"{desc}: refit=False, cutoff -> {show(o)}")


def run_config(R, cfg):
    """one tuner: fit, all clauses; optionally change the search space / data and fit the same object again"""
    fkind = cfg["fkind"]
    n = cfg["n"]
    y_all, X_all = make_data(n + 11, cfg["ikind"], cfg["dseed"])
    label, scorer, raw, gib = _metric(cfg["metric"])
    ctx = dict(cfg)
    ctx.update(base=_bases(fkind), y=y_all.iloc[:n], X=(X_all.iloc[:n] if cfg["use_X"] else None), cv=make_cv(cfg["cvspec"]),
               scorer=scorer, raw=raw, gib=gib, mlabel=label)
    ctx["splits"] = [(np.asarray(tr), np.asarray(te)) for tr, te in make_cv(cfg["cvspec"]).split(ctx["y"])]
    ctx["desc"] = describe(ctx)
    tuner = make_tuner(ctx)
    rounds = [ctx]
    if cfg.get("second"):
        c2 = dict(ctx)
        c2.update(cfg["second"])
        y2, X2 = make_data(c2["n"] + 11, c2["ikind"], c2["dseed"])
        l2, s2, r2, g2 = _metric(c2["metric"])
        c2.update(y=y2.iloc[:c2["n"]], X=None, cv=make_cv(c2["cvspec"]), scorer=s2, raw=r2, gib=g2, mlabel=l2, use_X=False)
        c2["splits"] = [(np.asarray(tr), np.asarray(te)) for tr, te in make_cv(c2["cvspec"]).split(c2["y"])]
        c2["desc"] = "SECOND FIT of the same tuner object after set_params (first: " + ctx["desc"] + "); now: " + describe(c2)
        c2["y_all"], c2["X_all"] = y2, X2
        rounds.append(c2)
    ctx["y_all"], ctx["X_all"] = y_all, X_all
    for rno, c in enumerate(rounds):
        if rno == 1:
            kw = dict(cv=c["cv"], scoring=c["scorer"](), refit=c["refit"], strategy=c["strategy"])
            kw["param_grid" if c["search"] == "grid" else "param_distributions"] = c["grid"]
            if c["search"] != "grid":
                kw.update(n_iter=c["n_iter"], random_state=c["random_state"])
            tuner.set_params(**kw)
        del LOG[:]
        o = outcome(lambda: tuner.fit(c["y"], c["X"], c["fit_fh"]))
        log = list(LOG)
        if o[0] == "raised":
            # usable only if some candidate cannot be evaluated independently either
            from sktime.forecasting.model_evaluation import evaluate
            cands = grid_candidates(c["grid"]) if all(not hasattr(v, "rvs") for g in (c["grid"] if isinstance(c["grid"], list) else [c["grid"]]) for v in g.values()) else []
            broken = any(outcome(lambda: evaluate(build(fkind, c["base"], cand), c["cv"], c["y"], c["X"], strategy=c["strategy"], scoring=c["scorer"]()))[0] == "raised"
                         for cand in cands)
            if not broken:
                R.check("fit-completes", False, f"{c['desc']}: tuner.fit -> {show(o)} although every candidate can be evaluated on its own")
            return "skipped"
        R.check("fit-completes", o[1] is tuner, f"{c['desc']}: fit did not return the tuner but a {type(o[1]).__name__}")
        uses_log = fkind == "probe" or (fkind == "pipe-probe" and c["strategy"] == "refit" and not any("forecaster" in d for d in [dict(p) for p in tuner.cv_results_["params"]]))
        usable = check_fitted(R, tuner, c, log if uses_log else None)
        if not usable:
            return "skipped"
        if c["refit"]:
            check_delegation(R, tuner, c, c["y_all"].iloc[c["n"]:], c["X_all"], cfg["variant"] + rno)
        else:
            check_no_refit(R, tuner, c, c["y_all"].iloc[c["n"]:])
    return "ok"


# --------------------------------------------------------------------------------------------------------------
# enumeration
# --------------------------------------------------------------------------------------------------------------
FKINDS = ("naive", "probe", "pipe-naive", "pipe-probe", "mux")
IKINDS = ("range0", "range10", "int7", "periodM")


def as_distributions(grid, fkind, which):
    """the same search space for the randomized search; variant 1 replaces one list by a scipy distribution"""
    if which == 1 and isinstance(grid, dict):
        from scipy.stats import randint
        key = {"naive": "window_length", "probe": "k", "pipe-naive": "forecaster__window_length", "pipe-probe": "forecaster__k", "mux": "probe__k"}[fkind]
        g = {k: v for k, v in grid.items() if k not in ("sp", "forecaster")}
        g[key] = randint(2, 7)
        if fkind == "naive":
            g["strategy"] = ["mean", "drift"]
        return g
    return grid


def configs(tier, seed):
    rng = np.random.RandomState(1000 + seed)
    quick = tier == "quick"
    out = []
    c = 0
    rounds = 1 if quick else 3
    for rnd in range(rounds):
        for fkind in FKINDS:
            grids = _grids(fkind, tier)
            for gi, grid in enumerate(grids):
                for search in ("grid", "rand"):
                    # metrics: quick = one loss and one gain per (forecaster, grid, search), rotating; thorough = all of them over the rounds
                    if quick:
                        mets = list(dict.fromkeys([LOSSES[c % len(LOSSES)], GAINS[c % len(GAINS)], (c * 7 + 5 + seed) % N_METRICS]))
                    else:
                        mets = [m for m in range(N_METRICS) if (m + gi + rnd) % 3 == 0 or m in GAINS and (m + rnd) % 2 == 0]
                        if not any(m in GAINS for m in mets):
                            mets.append(GAINS[(c + rnd) % 3])
                    for m in mets:
                        c += 1
                        pipe = fkind.startswith("pipe")
                        ik = IKINDS[(c + rnd) % (3 if pipe else 4)] if not pipe else IKINDS[(c + rnd) % 3]
                        cvspec = SPLITTERS[(c * 3 + rnd + seed) % len(SPLITTERS)]
                        useX = fkind == "probe" and gi == 3
                        strategy = "update" if (c % 4 == 3 and not useX) else "refit"
                        refit = (c % 5 != 4)
                        g = grid if search == "grid" else as_distributions(grid, fkind, (c // 2) % 2)
                        size = len(grid_candidates(grid))
                        n_iter = max(2, min(size - (c % 2), 5)) if search == "rand" else None
                        if search == "rand" and any(hasattr(v, "rvs") for d in (g if isinstance(g, list) else [g]) for v in d.values()):
                            n_iter = 4
                        cfg = dict(fkind=fkind, grid=g, search=search, n_iter=n_iter, random_state=int(rng.randint(0, 10 ** 6)), metric=m,
                                   cvspec=cvspec, ikind=ik, n=22 + (c * 2 + rnd * 3) % 8, dseed=int(rng.randint(0, 10 ** 6)), strategy=strategy,
                                   refit=refit, use_X=useX, fit_fh=[None, [1, 2], None, [2]][c % 4] if not useX else [1, 2, 3],
                                   variant=c + rnd, second=None)
                        if c % 3 == 0 and not useX and m in (0, 1, 3, 7, 8, 9):
                            g2 = grids[(gi + 1) % len(grids)]
                            g2 = g2 if search == "grid" else as_distributions(g2, fkind, 0)
                            cfg["second"] = dict(grid=g2, metric=(GAINS[c % 3] if m not in GAINS else LOSSES[c % len(LOSSES)]),
                                                 n=24 + c % 5, dseed=int(rng.randint(0, 10 ** 6)), refit=True, strategy="refit",
                                                 cvspec=SPLITTERS[(c + 1) % len(SPLITTERS)], fit_fh=None,
                                                 n_iter=(max(2, min(len(grid_candidates(grids[(gi + 1) % len(grids)])), 4)) if search == "rand" else None))
                        out.append(cfg)
    return out


def bounded(tier, seed):
    note = ("ForecastingGridSearchCV and ForecastingRandomizedSearchCV (sequential, n_jobs=None) over 5 base forecasters (NaiveForecaster; a recording "
            "probe forecaster; TransformedTargetForecaster[Detrender(PolynomialTrend), naive|probe] with nested step__param names and whole-step "
            "replacement; MultiplexForecaster[naive, probe, trend]) with non-default base settings; per forecaster "
            f"{'3-4' if tier == 'quick' else '3-6'} search spaces (dict, list of dicts tuning different parameter sets, duplicated values, "
            "scipy randint for the randomized search, n_iter 2..5); 10 metrics (7 losses incl. the default scoring=None, 3 greater-is-better scorers "
            "from make_forecasting_scorer; quick: one loss, one gain and one further metric per search space, rotating); 8 splitters (sliding/expanding/single/cutoff, "
            "gapped and array horizons, step>1); series of 22..29 points on RangeIndex from 0 / from 10, Int64 index from 7, monthly PeriodIndex; "
            "strategy refit/update; refit True/False; fit fh None/[1,2]/[2]; exogenous X only with the probe forecaster; after fit a call sequence "
            "predict, update(update_params=False), cutoff, predict, update(update_params=True), cutoff, predict, update_predict_single, cutoff, "
            "update_predict, cutoff, predict compared with a directly constructed forecaster; about every 4th tuner is re-used: set_params(new space, "
            "metric of the other direction, cv) and second fit on another series. Not covered: n_jobs>1 / process backends, DatetimeIndex "
            "(evaluate loses freq under pandas 2), fit_params, prediction intervals, statistical forecasters (ETS/ARIMA), verbose output, timing columns.")
    R = Recorder(note)
    skipped = 0
    for cfg in configs(tier, seed):
        try:
            with warnings.catch_warnings():
                warnings.simplefilter("ignore")
                st = run_config(R, cfg)
            skipped += st == "skipped"
        except Exception as e:       # noqa: B902
            import traceback
            R.check("oracle-internal-error", False, f"{cfg}: {type(e).__name__}: {e} :: {traceback.format_exc()[-600:]}")
    res = R.result()
    res["skipped_configurations"] = skipped
    return res


def replay(rec):
    m = rec.get("model") or {}
    target, case = str(rec.get("target", "")), str(rec.get("case", ""))
    text = (target + " " + case + " " + str(rec.get("obligation", ""))).lower()
    R = Recorder("replay")
    gib = None
    for k in ("greater_is_better", "scoring.greater_is_better", "gib"):
        if k in m:
            gib = str(m[k]).lower() in ("true", "1")
    if gib is None and "greater" in text:
        gib = True
    refit = None
    for k in ("refit", "self.refit"):
        if k in m:
            refit = str(m[k]).lower() in ("true", "1")
    if any(w in text for w in ("cutoff", "update", "predict", "transform")) and refit is None:
        refit = True
    rand = "random" in text
    ncand = max(2, min(mint(m, "n_candidates", 0) or mint(m, "len(candidate_params)", 0) or 0, 6))
    picked = []
    for cfg in configs("quick", 0):
        if gib is not None and (cfg["metric"] in GAINS) != gib:
            continue
        if refit is not None and cfg["refit"] != refit:
            continue
        if rand != (cfg["search"] == "rand") and "search" in text:
            continue
        picked.append(cfg)
    per_kind = {}
    for cfg in picked:
        per_kind.setdefault(cfg["fkind"], [])
        if len(per_kind[cfg["fkind"]]) < 3:
            per_kind[cfg["fkind"]].append(cfg)
    chosen = [c for v in per_kind.values() for c in v]
    for cfg in chosen:
        try:
            with warnings.catch_warnings():
                warnings.simplefilter("ignore")
                run_config(R, cfg)
        except Exception as e:       # noqa: B902
            R.check("oracle-internal-error", False, f"{type(e).__name__}: {e}")
    f = [x for x in R.failures if not x["key"].startswith("KF:")]
    # the two defects of the unchanged tree count as a reproduction only when the record is about them
    if refit is False or "notfitted" in text:
        f += [x for x in R.failures if x["key"].startswith("KF:cutoff-without-refit")]
    if "update_params" in text or "default" in text:
        f += [x for x in R.failures if x["key"].startswith("KF:update-default")]
    return {"reproduced": bool(f), "detail": f[:3],
            "input": {"greater_is_better": gib, "refit": refit, "randomized": rand, "n_candidates_hint": ncand, "configurations_run": len(chosen)}}
