"""C14 native oracle: the closed-form transformers on the real code against plain numpy/python formulas.

Every expected value below is computed from the documented formula with plain python / numpy (exact rational frame
bounds for PAA, hand-written linear interpolation, hand-written fill rules, ...); never through the library path.
"""
import itertools
import math
import warnings
from fractions import Fraction

import numpy as np
import pandas as pd

from .common import Recorder, ints_from_model, mint

NAN = float("nan")
CELLS = ("series", "series+5", "array", "numpy3d")


# ----------------------------------------------------------------------------------------------------------- helpers
def _vals(rng, n):
    """generic (tie-free with probability ~1) values with 3 decimals"""
    return np.round(rng.uniform(-9.0, 9.0, size=n), 3)


def _wrap(raw, cell, rowlab=False):
    if cell == "numpy3d":
        return np.array([[raw[c][i] for c in range(len(raw))] for i in range(len(raw[0]))], dtype=float)
    d = {}
    for c, col in enumerate(raw):
        if cell == "array":
            d[f"c{c}"] = [np.array(v, dtype=float) for v in col]
        else:
            off = 5 if cell == "series+5" else 0
            d[f"c{c}"] = [pd.Series(np.array(v, dtype=float), index=pd.RangeIndex(off, off + len(v))) for v in col]
    X = pd.DataFrame(d)
    if rowlab:
        X.index = [7, 3, 5, 11, 2, 13, 1][: X.shape[0]]      # non-default, non-monotonic row labels
    return X


def _show(raw):
    return "[" + "; ".join("col%d=" % c + str([[float(x) for x in v] for v in col]) for c, col in enumerate(raw)) + "]"


def _arr(cell):
    return np.asarray(cell, dtype=float).ravel()


def _eq(a, b, tol=1e-9):
    a, b = np.asarray(a, dtype=float), np.asarray(b, dtype=float)
    return a.shape == b.shape and bool(np.allclose(a, b, rtol=tol, atol=tol, equal_nan=True))


def _l(a):
    return [round(float(x), 6) for x in np.asarray(a, dtype=float).ravel()]


def _call(fn):
    """(result, None) or (None, exception)"""
    try:
        with warnings.catch_warnings():
            warnings.simplefilter("ignore")
            return fn(), None
    except Exception as e:      # noqa: BLE001  (any exception is an observation here)
        return None, e


def _exc(e):
    return f"raised {type(e).__name__}: {str(e)[:160]}"


def _cells_frame(out, n_rows, n_cols):
    """out as an (n_rows x n_cols) grid of float arrays, or None if the shape is wrong"""
    if not isinstance(out, pd.DataFrame) or out.shape != (n_rows, n_cols):
        return None
    return [[_arr(out.iloc[i, c]) for c in range(n_cols)] for i in range(n_rows)]


def _lens_unequal(rng, n_inst, n_cols, lo, hi):
    return [[int(rng.randint(lo, hi + 1)) for _ in range(n_inst)] for _ in range(n_cols)]


# ------------------------------------------------------------------------------------------------- padding / truncation
def check_pad(R, raw, cell, pad, fill, rowlab=False, raw2=None):
    from sktime.transformations.panel.padder import PaddingTransformer
    n_cols, n_inst = len(raw), len(raw[0])
    longest = max(len(v) for col in raw for v in col)
    X = _wrap(raw, cell, rowlab)
    kw = {}
    if pad is not None:
        kw["pad_length"] = pad
    if fill is not None:
        kw["fill_value"] = fill
    fillv = 0 if fill is None else fill
    desc = f"PaddingTransformer({kw}) cells={cell} rowlabels={rowlab} X={_show(raw)}"
    if pad is not None and pad < longest:
        out, e = _call(lambda: PaddingTransformer(**kw).fit(X).transform(X))
        if e is not None and cell == "array" and isinstance(e, AttributeError):
            R.check("KF:padding-array-cells-raise", False, f"{desc}: {_exc(e)}")
            return
        R.check("pad-shorter-than-longest-rejected", e is not None,
                f"{desc}: pad_length {pad} < longest series {longest} but transform returned cells of lengths "
                f"{[[len(_arr(x)) for x in row] for row in out.values.tolist()] if out is not None else None}")
        return
    target = longest if pad is None else pad
    tr, e = _call(lambda: PaddingTransformer(**kw).fit(X))
    out = None
    if e is None:
        out, e = _call(lambda: tr.transform(X))
    if e is not None:
        if cell == "array" and isinstance(e, AttributeError):
            R.check("KF:padding-array-cells-raise", False, f"{desc}: {_exc(e)}")
        else:
            R.check("pad-values", False, f"{desc}: {_exc(e)}")
        return
    _check_pad_out(R, out, raw, target, fillv, desc)
    again, e = _call(lambda: tr.transform(X))
    if e is None:
        _check_pad_out(R, again, raw, target, fillv, desc + " (second transform call)")
    else:
        R.check("pad-values", False, f"{desc} second transform call: {_exc(e)}")
    if raw2 is not None:
        X2 = _wrap(raw2, cell, False)
        out2, e = _call(lambda: tr.transform(X2))
        d2 = f"{desc}; fitted (target {target}) then transform X2={_show(raw2)}"
        if e is not None:
            R.check("pad-fitted-length", False, f"{d2}: {_exc(e)}")
        else:
            _check_pad_out(R, out2, raw2, target, fillv, d2, key_len="pad-fitted-length")


def _check_pad_out(R, out, raw, target, fillv, desc, key_len="pad-length"):
    n_cols, n_inst = len(raw), len(raw[0])
    grid = _cells_frame(out, n_inst, n_cols)
    R.check("pad-shape", grid is not None, f"{desc}: output {type(out).__name__} shape {getattr(out, 'shape', None)}, "
                                          f"expected one row per instance and one column per column ({n_inst}, {n_cols})")
    if grid is None:
        return
    for i in range(n_inst):
        for c in range(n_cols):
            exp = np.concatenate([raw[c][i], np.full(target - len(raw[c][i]), fillv, dtype=float)])
            got = grid[i][c]
            R.check(key_len, len(got) == target, f"{desc}: cell (row {i}, col {c}) has length {len(got)}, expected {target}")
            R.check("pad-values", _eq(got, exp), f"{desc}: cell (row {i}, col {c}) = {_l(got)}, expected {_l(exp)}")


def check_trunc(R, raw, cell, lower, upper, rowlab=False, raw2=None):
    from sktime.transformations.panel.truncation import TruncationTransformer
    n_cols, n_inst = len(raw), len(raw[0])
    shortest = min(len(v) for col in raw for v in col)
    X = _wrap(raw, cell, rowlab)
    kw = {}
    if lower is not None:
        kw["lower"] = lower
    if upper is not None:
        kw["upper"] = upper
    desc = f"TruncationTransformer({kw}) cells={cell} rowlabels={rowlab} X={_show(raw)}"
    if lower is not None and lower > shortest:
        out, e = _call(lambda: TruncationTransformer(**kw).fit(X).transform(X))
        if e is not None and cell == "array" and isinstance(e, AttributeError):
            R.check("KF:truncation-array-cells-raise", False, f"{desc}: {_exc(e)}")
            return
        R.check("truncate-longer-than-shortest-rejected", e is not None,
                f"{desc}: lower {lower} > shortest series {shortest} but transform returned a result")
        return
    lo, hi = (0, shortest if lower is None else lower) if upper is None else (lower, upper)
    tr, e = _call(lambda: TruncationTransformer(**kw).fit(X))
    out = None
    if e is None:
        out, e = _call(lambda: tr.transform(X))
    if e is not None:
        if cell == "array" and isinstance(e, AttributeError):
            R.check("KF:truncation-array-cells-raise", False, f"{desc}: {_exc(e)}")
        else:
            R.check("truncate-values", False, f"{desc}: {_exc(e)}")
        return
    _check_trunc_out(R, out, raw, lo, hi, desc)
    if raw2 is not None:
        X2 = _wrap(raw2, cell, False)
        out2, e = _call(lambda: tr.transform(X2))
        d2 = f"{desc}; fitted (range [{lo},{hi})) then transform X2={_show(raw2)}"
        if e is not None:
            R.check("truncate-fitted-length", False, f"{d2}: {_exc(e)}")
        else:
            _check_trunc_out(R, out2, raw2, lo, hi, d2, key_len="truncate-fitted-length")


def _check_trunc_out(R, out, raw, lo, hi, desc, key_len="truncate-length"):
    n_cols, n_inst = len(raw), len(raw[0])
    grid = _cells_frame(out, n_inst, n_cols)
    R.check("truncate-shape", grid is not None, f"{desc}: output {type(out).__name__} shape {getattr(out, 'shape', None)}, "
                                               f"expected ({n_inst}, {n_cols})")
    if grid is None:
        return
    for i in range(n_inst):
        for c in range(n_cols):
            exp, got = raw[c][i][lo:hi], grid[i][c]
            R.check(key_len, len(got) == hi - lo, f"{desc}: cell (row {i}, col {c}) has length {len(got)}, expected {hi - lo}")
            R.check("truncate-values", _eq(got, exp), f"{desc}: cell (row {i}, col {c}) = {_l(got)}, expected {_l(exp)}")


def sec_pad_trunc(R, rng, tier):
    big = tier == "thorough"
    # exhaustive length tuples, one column, all cell kinds
    max_len, max_inst = (5, 3) if big else (4, 3) if tier == "quick" else (3, 2)
    k = 0
    for n_inst in range(1, max_inst + 1):
        for lens in itertools.product(range(1, max_len + 1), repeat=n_inst):
            k += 1
            cell = ("series", "series+5", "array")[k % 3] if k % 7 else "array"
            if cell == "array" and k % 5:
                cell = "series"       # array cells are a known failure of these three transformers: sample them thinly
            raw = [[_vals(rng, L) for L in lens]]
            longest, shortest = max(lens), min(lens)
            fill = (None, -1, 2.5, NAN, 0)[k % 5]
            for pad in (None, longest, longest + 1 + k % 3, longest - 1):
                if pad is not None and pad < 1:
                    continue
                check_pad(R, raw, cell, pad, fill, rowlab=(k % 4 == 0))
            check_trunc(R, raw, cell, None, None, rowlab=(k % 4 == 1))
            for lo in range(0, shortest + 2):
                if lo >= 1:
                    check_trunc(R, raw, cell, lo, None)
                for hi in range(lo + 1, shortest + 1):
                    if (lo + hi + k) % 2 == 0 or big:
                        check_trunc(R, raw, cell, lo, hi)
    # several columns, unequal lengths within and across columns, numpy3d for the equal-length ones, fit -> transform other
    reps = 150 if big else 30 if tier == "quick" else 3
    for r in range(reps):
        n_inst, n_cols = 1 + r % 3, 1 + (r // 3) % 3
        equal = r % 4 == 3
        if equal:
            L = int(rng.randint(1, 6))
            lens = [[L] * n_inst for _ in range(n_cols)]
        else:
            lens = _lens_unequal(rng, n_inst, n_cols, 1, 6)
        cell = "numpy3d" if equal else ("series", "series+5", "series")[r % 3]
        raw = [[_vals(rng, L) for L in col] for col in lens]
        longest = max(max(c) for c in lens)
        shortest = min(min(c) for c in lens)
        lens2 = [[int(rng.randint(shortest, longest + 1)) if not equal else lens[0][0] for _ in range(1 + (r + 1) % 3)]
                 for _ in range(n_cols)]
        raw2 = [[_vals(rng, L) for L in col] for col in lens2]
        fill = (None, -3, 0.5, NAN)[r % 4]
        check_pad(R, raw, cell, None, fill, rowlab=(r % 2 == 0 and not equal), raw2=raw2)
        check_pad(R, raw, cell, longest + 2, fill, raw2=raw2)
        check_trunc(R, raw, cell, None, None, rowlab=(r % 2 == 1 and not equal), raw2=raw2)
        if shortest >= 2:
            check_trunc(R, raw, cell, 1, shortest, raw2=raw2)
            check_trunc(R, raw, cell, shortest - 1, None, raw2=raw2)
    check_refit_pad_trunc(R, rng)


def check_refit_pad_trunc(R, rng):
    """set_params then refit / refit on another panel must use the new lengths"""
    from sktime.transformations.panel.padder import PaddingTransformer
    from sktime.transformations.panel.truncation import TruncationTransformer
    rawA = [[_vals(rng, 3), _vals(rng, 6)]]
    rawB = [[_vals(rng, 2), _vals(rng, 4), _vals(rng, 4)]]
    XA, XB = _wrap(rawA, "series"), _wrap(rawB, "series")
    tr = PaddingTransformer()
    out, e = _call(lambda: tr.fit(XA).fit(XB).transform(XB))
    desc = f"PaddingTransformer() fit on A={_show(rawA)} then refit on B={_show(rawB)}, transform B"
    if e is not None:
        R.check("pad-fitted-length", False, f"{desc}: {_exc(e)}")
    else:
        _check_pad_out(R, out, rawB, 4, 0, desc, key_len="pad-fitted-length")
    out, e = _call(lambda: tr.set_params(pad_length=7, fill_value=-2).fit(XB).transform(XB))
    desc = f"PaddingTransformer() fitted, then set_params(pad_length=7, fill_value=-2), refit and transform B={_show(rawB)}"
    if e is not None:
        R.check("pad-fitted-length", False, f"{desc}: {_exc(e)}")
    else:
        _check_pad_out(R, out, rawB, 7, -2, desc, key_len="pad-fitted-length")
    tt = TruncationTransformer()
    out, e = _call(lambda: tt.fit(XA).fit(XB).transform(XB))
    desc = f"TruncationTransformer() fit on A={_show(rawA)} then refit on B={_show(rawB)}, transform B"
    if e is not None:
        R.check("truncate-fitted-length", False, f"{desc}: {_exc(e)}")
    else:
        _check_trunc_out(R, out, rawB, 0, 2, desc, key_len="truncate-fitted-length")
    out, e = _call(lambda: tt.set_params(lower=1, upper=2).fit(XB).transform(XB))
    desc = f"TruncationTransformer() fitted, then set_params(lower=1, upper=2), refit and transform B={_show(rawB)}"
    if e is not None:
        R.check("truncate-fitted-length", False, f"{desc}: {_exc(e)}")
    else:
        _check_trunc_out(R, out, rawB, 1, 2, desc, key_len="truncate-fitted-length")


# -------------------------------------------------------------------------------------------------------- interpolation
def _interp_exp(x, length):
    """value at j/(length-1) of the piecewise linear function through (t/(len(x)-1), x[t])"""
    n = len(x)
    out = []
    for j in range(length):
        pos = Fraction(j * (n - 1), length - 1) if length > 1 else Fraction(0)
        lo = int(pos)            # floor, pos >= 0
        fr = float(pos - lo)
        out.append(float(x[lo]) if fr == 0 else float(x[lo]) * (1 - fr) + float(x[lo + 1]) * fr)
    return np.array(out)


def check_interp(R, raw, cell, length, rowlab=False):
    from sktime.transformations.panel.interpolate import TSInterpolator
    n_cols, n_inst = len(raw), len(raw[0])
    X = _wrap(raw, cell, rowlab)
    desc = f"TSInterpolator({length}) cells={cell} rowlabels={rowlab} X={_show(raw)}"
    out, e = _call(lambda: TSInterpolator(length).fit(X).transform(X))
    if e is not None:
        if cell == "array" and isinstance(e, AttributeError):
            R.check("KF:interpolator-array-cells-raise", False, f"{desc}: {_exc(e)}")
        else:
            R.check("interpolate-values", False, f"{desc}: {_exc(e)}")
        return
    grid = _cells_frame(out, n_inst, n_cols)
    R.check("interpolate-shape", grid is not None, f"{desc}: output {type(out).__name__} shape {getattr(out, 'shape', None)}, "
                                                  f"expected ({n_inst}, {n_cols})")
    if grid is None:
        return
    for i in range(n_inst):
        for c in range(n_cols):
            exp, got = _interp_exp(raw[c][i], length), grid[i][c]
            R.check("interpolate-length", len(got) == length, f"{desc}: cell (row {i}, col {c}) has length {len(got)}")
            R.check("interpolate-values", _eq(got, exp), f"{desc}: cell (row {i}, col {c}) = {_l(got)}, expected {_l(exp)}")


def sec_interp(R, rng, tier):
    big = tier == "thorough"
    max_len, max_t = (10, 14) if big else (7, 9) if tier == "quick" else (4, 5)
    k = 0
    for n in range(2, max_len + 1):
        for length in range(1, max_t + 1):
            for cell in CELLS:
                k += 1
                if cell == "array" and (n * 3 + length) % 6:      # array cells: known failure, sampled thinly
                    continue
                n_inst, n_cols = 1 + k % 3, 1 + (k // 3) % 2
                check_interp(R, [[_vals(rng, n) for _ in range(n_inst)] for _ in range(n_cols)], cell, length, rowlab=(k % 5 == 0))
    for r in range(120 if big else 25 if tier == "quick" else 2):       # unequal lengths
        lens = _lens_unequal(rng, 1 + r % 3, 1 + r % 2, 2, 7)
        check_interp(R, [[_vals(rng, L) for L in col] for col in lens], ("series", "series+5")[r % 2],
                     int(rng.randint(1, 10)), rowlab=(r % 3 == 0))


# ------------------------------------------------------------------------------------------ tabularise / concatenate
def check_tab_concat(R, raw, cell, rowlab=False):
    from sktime.transformations.panel.compose import ColumnConcatenator
    from sktime.transformations.panel.reduce import Tabularizer
    n_cols, n_inst = len(raw), len(raw[0])
    X = _wrap(raw, cell, rowlab)
    exp = np.array([np.concatenate([raw[c][i] for c in range(n_cols)]) for i in range(n_inst)])
    desc = f"cells={cell} rowlabels={rowlab} X={_show(raw)}"
    out, e = _call(lambda: Tabularizer().fit(X).transform(X))
    if e is not None:
        R.check("tabularize-values", False, f"Tabularizer {desc}: {_exc(e)}")
    else:
        got = np.asarray(out, dtype=float)
        R.check("tabularize-values", _eq(got, exp), f"Tabularizer {desc}: got {got.tolist()}, expected column-then-time order {exp.tolist()}")
    out, e = _call(lambda: ColumnConcatenator().fit(X).transform(X))
    if e is not None:
        R.check("concatenate-values", False, f"ColumnConcatenator {desc}: {_exc(e)}")
        return
    grid = _cells_frame(out, n_inst, 1)
    R.check("concatenate-shape", grid is not None, f"ColumnConcatenator {desc}: output shape {getattr(out, 'shape', None)}, expected ({n_inst}, 1)")
    if grid is None:
        return
    for i in range(n_inst):
        R.check("concatenate-values", _eq(grid[i][0], exp[i]), f"ColumnConcatenator {desc}: row {i} = {_l(grid[i][0])}, expected {_l(exp[i])}")


def sec_tab_concat(R, rng, tier):
    big = tier == "thorough"
    max_len = 8 if big else 5 if tier == "quick" else 3
    k = 0
    for n_inst in (1, 2, 3):
        for n_cols in (1, 2, 3):
            for L in range(1, max_len + 1):
                for cell in CELLS:
                    k += 1
                    check_tab_concat(R, [[_vals(rng, L) for _ in range(n_inst)] for _ in range(n_cols)], cell, rowlab=(k % 3 == 0))
    # columns of different lengths (equal within a column)
    for r in range(80 if big else 16 if tier == "quick" else 2):
        n_inst, n_cols = 1 + r % 3, 2 + r % 2
        col_lens = [int(rng.randint(1, 6)) for _ in range(n_cols)]
        if len(set(col_lens)) == 1:
            col_lens[0] += 1
        check_tab_concat(R, [[_vals(rng, L) for _ in range(n_inst)] for L in col_lens], ("series", "array", "series+5")[r % 3])


# ---------------------------------------------------------------------------------------------------------------- PAA
def _paa_exp(x, k):
    n = len(x)
    out = []
    for j in range(k):
        lo, hi = Fraction(j * n, k), Fraction((j + 1) * n, k)
        s = 0.0
        for t in range(n):
            ov = min(hi, Fraction(t + 1)) - max(lo, Fraction(t))
            if ov > 0:
                s += float(ov) * float(x[t])
        out.append(s * k / n)
    return np.array(out)


def check_paa(R, raw, cell, k, via_setter=False):
    from sktime.transformations.panel.dictionary_based._paa import PAA
    n_cols, n_inst = len(raw), len(raw[0])
    X = _wrap(raw, cell)
    desc = f"PAA(num_intervals={k}{' via set_num_intervals after a first transform with 1' if via_setter else ''}) cells={cell} X={_show(raw)}"

    def run():
        if via_setter:
            t = PAA(1).fit(X)
            t.transform(X)
            t.set_num_intervals(k)
            return t.transform(X)
        return PAA(k).fit(X).transform(X)
    out, e = _call(run)
    if e is not None:
        R.check("paa-values", False, f"{desc}: {_exc(e)}")
        return
    grid = _cells_frame(out, n_inst, n_cols)
    R.check("paa-shape", grid is not None, f"{desc}: output shape {getattr(out, 'shape', None)}, expected ({n_inst}, {n_cols})")
    if grid is None:
        return
    for i in range(n_inst):
        for c in range(n_cols):
            exp, got = _paa_exp(raw[c][i], k), grid[i][c]
            R.check("paa-length", len(got) == k, f"{desc}: cell (row {i}, col {c}) has {len(got)} frames, expected {k}: {_l(got)}")
            if len(got) == k:
                R.check("paa-values", _eq(got, exp, 1e-8), f"{desc}: cell (row {i}, col {c}) = {_l(got)}, expected frame means {_l(exp)}")


def sec_paa(R, rng, tier):
    big = tier == "thorough"
    max_n = 40 if big else 16 if tier == "quick" else 6
    k_ = 0
    for n in range(2, max_n + 1):
        for k in range(1, n + 1):
            k_ += 1
            n_inst, n_cols = 1 + k_ % 3, 1 + (k_ // 2) % 2
            check_paa(R, [[_vals(rng, n) for _ in range(n_inst)] for _ in range(n_cols)], CELLS[k_ % 4], k, via_setter=(k_ % 9 == 0))
    if big:
        for n, k in ((57, 6), (47, 31), (50, 7), (64, 9), (45, 44), (100, 17)):
            check_paa(R, [[_vals(rng, n)]], "series", k)


# -------------------------------------------------------------------------------------------------------- segmentation
def check_interval_segmenter(R, raw, cell, intervals, raw2=None):
    """intervals: int or list of (start, end) rows"""
    from sktime.transformations.panel.segment import IntervalSegmenter
    n_inst, n = len(raw[0]), len(raw[0][0])
    X = _wrap(raw, cell)
    if isinstance(intervals, int):
        idx = np.array_split(np.arange(n), intervals)       # documented: `intervals` (nearly) equal consecutive intervals
        arg, key = intervals, "interval-segment-int"
    else:
        idx = [np.arange(s, e) for s, e in intervals]
        arg, key = np.array(intervals), "interval-segment-array"
    desc = f"IntervalSegmenter(intervals={intervals}) cells={cell} X={_show(raw)}"
    tr, e = _call(lambda: IntervalSegmenter(arg).fit(X))
    if e is not None:
        R.check(key, False, f"{desc}: fit {_exc(e)}")
        return
    for which, rw in (("X", raw), ("X2", raw2)):
        if rw is None:
            continue
        Xw = X if which == "X" else _wrap(rw, cell)
        d = desc if which == "X" else f"{desc} fitted, then transform X2={_show(rw)}"
        out, e = _call(lambda: tr.transform(Xw))
        if e is not None:
            R.check(key, False, f"{d}: {_exc(e)}")
            continue
        grid = _cells_frame(out, len(rw[0]), len(idx))
        R.check("interval-segment-shape", grid is not None, f"{d}: output shape {getattr(out, 'shape', None)}, expected ({len(rw[0])}, {len(idx)})")
        if grid is None:
            continue
        for i in range(len(rw[0])):
            for j, ix in enumerate(idx):
                exp, got = rw[0][i][ix], grid[i][j]
                ok = _eq(got, exp)
                if not ok and key == "interval-segment-int" and len(ix) >= 1 and _eq(got, exp[:-1]):
                    R.check("KF:interval-segmenter-int-drops-last-point", False,
                            f"{d}: interval {j} (time points {ix.tolist()}) of row {i} = {_l(got)}, expected {_l(exp)} (last point of the interval missing)")
                else:
                    R.check(key, ok, f"{d}: interval {j} (time points {ix.tolist()}) of row {i} = {_l(got)}, expected {_l(exp)}")


def _sliding_exp(x, w):
    p = w // 2
    padded = np.concatenate([np.full(p, x[0]), x, np.full(p, x[-1])])
    return [padded[j:j + w] for j in range(len(x))]


def check_sliding(R, raw, cell, w, via_set_params=False):
    from sktime.transformations.panel.segment import SlidingWindowSegmenter
    n_inst, n = len(raw[0]), len(raw[0][0])
    X = _wrap(raw, cell)
    desc = f"SlidingWindowSegmenter(window_length={w}{' via set_params after a transform with the default' if via_set_params else ''}) cells={cell} X={_show(raw)}"

    def run():
        if via_set_params:
            t = SlidingWindowSegmenter().fit(X)
            t.transform(X)
            return t.set_params(window_length=w).fit(X).transform(X)
        return SlidingWindowSegmenter(window_length=w).fit(X).transform(X)
    out, e = _call(run)
    if e is not None:
        R.check("sliding-window-values", False, f"{desc}: {_exc(e)}")
        return
    grid = _cells_frame(out, n_inst, n)
    R.check("sliding-window-shape", grid is not None, f"{desc}: output shape {getattr(out, 'shape', None)}, expected ({n_inst}, {n})")
    if grid is None:
        return
    for i in range(n_inst):
        exp = _sliding_exp(raw[0][i], w)
        for j in range(n):
            R.check("sliding-window-values", _eq(grid[i][j], exp[j]),
                    f"{desc}: window {j} of row {i} = {_l(grid[i][j])}, expected {_l(exp[j])} (pad floor(w/2)={w // 2} edge values, hop 1)")


def sec_segment(R, rng, tier):
    big = tier == "thorough"
    max_n = 20 if big else 11 if tier == "quick" else 6
    k = 0
    for n in range(2, max_n + 1):
        for m in range(1, n // 2 + 1):
            k += 1
            n_inst = 1 + k % 3
            raw = [[_vals(rng, n) for _ in range(n_inst)]]
            raw2 = [[_vals(rng, n) for _ in range(1 + (k + 1) % 3)]] if k % 2 else None
            check_interval_segmenter(R, raw, CELLS[k % 4], m, raw2)
    # explicit interval sets: all single intervals of a short series, then sets of 2-3 (overlapping, nested, unordered)
    n = 7 if big else 5 if tier == "quick" else 4
    pairs = [(s, e) for s in range(n) for e in range(s + 1, n + 1)]
    for p in pairs:
        k += 1
        check_interval_segmenter(R, [[_vals(rng, n) for _ in range(1 + k % 2)]], CELLS[k % 4], [p])
    sets = list(itertools.combinations(pairs, 2)) + list(itertools.combinations(pairs, 3))
    pick = rng.permutation(len(sets))[: (600 if big else 80 if tier == "quick" else 6)]
    for q in pick:
        k += 1
        iv = list(sets[int(q)])
        if k % 2:
            iv = iv[::-1]
        raw = [[_vals(rng, n) for _ in range(1 + k % 3)]]
        check_interval_segmenter(R, raw, CELLS[k % 4], iv, [[_vals(rng, n) for _ in range(2)]] if k % 3 == 0 else None)
    # sliding windows: every window length 1 .. n+3 (odd, even, w % 4 == 3, longer than the series)
    max_n = 18 if big else 9 if tier == "quick" else 5
    for n in range(1, max_n + 1):
        for w in range(1, n + 4):
            k += 1
            check_sliding(R, [[_vals(rng, n) for _ in range(1 + k % 3)]], CELLS[k % 4], w, via_set_params=(k % 8 == 0))
    for w in ((15, 16, 19, 23, 27, 31) if big else (11, 15)):
        check_sliding(R, [[_vals(rng, 9), _vals(rng, 9)]], "series", w)


# --------------------------------------------------------------------------------- random intervals and their features
def value_range(x):                      # no `axis` keyword: forces the row-wise fallback
    return x.max() - x.min()


def last_minus_first(x):
    return x[-1] - x[0]


def weighted_sum(x, axis=0):             # has `axis`, order sensitive
    x = np.asarray(x)
    shape = [1] * x.ndim
    shape[axis] = -1
    return (x * np.arange(1, x.shape[axis] + 1).reshape(shape)).sum(axis=axis)


def _ols_slope(v):
    v = np.asarray(v, dtype=float)
    t = np.arange(1, len(v) + 1, dtype=float)
    return float(((t - t.mean()) * (v - v.mean())).sum() / ((t - t.mean()) ** 2).sum())


def _feature_table():
    from sktime.utils.slope_and_trend import _slope
    return {
        "mean": (np.mean, lambda v: float(sum(v) / len(v))),
        "std": (np.std, lambda v: math.sqrt(sum((a - sum(v) / len(v)) ** 2 for a in v) / len(v))),
        "median": (np.median, lambda v: float(sorted(v)[len(v) // 2]) if len(v) % 2 else (sorted(v)[len(v) // 2 - 1] + sorted(v)[len(v) // 2]) / 2),
        "amin": (np.min, lambda v: float(min(v))),
        "amax": (np.max, lambda v: float(max(v))),
        "_slope": (_slope, _ols_slope),
        "value_range": (value_range, lambda v: float(max(v) - min(v))),
        "last_minus_first": (last_minus_first, lambda v: float(v[-1] - v[0])),
        "weighted_sum": (weighted_sum, lambda v: float(sum((t + 1) * a for t, a in enumerate(v)))),
    }


def _expected_count(n, spec):
    if isinstance(spec, int):
        return spec
    if isinstance(spec, float):
        return max(1, int(spec * n))
    if spec == "sqrt":
        return max(1, int(math.sqrt(n)))
    if spec == "log":
        return max(1, int(math.log(n)))
    return None


def _check_intervals(R, iv, n, spec, min_length, max_length, desc):
    """True when the fitted intervals can be used for the value checks"""
    iv = np.asarray(iv)
    if not (iv.ndim == 2 and iv.shape[1] == 2 and len(iv) >= 1):
        R.check("random-intervals-valid", False, f"{desc}: intervals_={iv.tolist()} is not an (n_intervals >= 1, 2) array")
        return False
    bad, beyond = None, None
    for s, e in iv.tolist():
        if 0 <= s < n < e and max_length is not None and e - s <= max_length and (min_length is None or e - s >= min_length):
            beyond = f"interval ({s},{e}) ends beyond the series length {n}"
        elif not (0 <= s < e <= n):
            bad = f"interval ({s},{e}) is not inside [0,{n}] with start < end"
        elif min_length is not None and e - s < min_length:
            bad = f"interval ({s},{e}) shorter than min_length={min_length}"
        elif max_length is not None and e - s > max_length:
            bad = f"interval ({s},{e}) longer than max_length={max_length}"
    cnt = _expected_count(n, spec)
    if cnt is not None and len(iv) != cnt:
        bad = f"{len(iv)} intervals generated, expected {cnt}"
    if beyond is not None and bad is None:
        R.check("KF:random-intervals-max-length-end-beyond-series", False, f"{desc}: intervals_={iv.tolist()}: {beyond} (ends are drawn up to start+max_length without clipping)")
    else:
        R.check("random-intervals-valid", bad is None, f"{desc}: intervals_={iv.tolist()}: {bad}")
    return all(0 <= s <= e for s, e in iv.tolist())


def check_random_intervals(R, rng, n, spec, min_length, max_length, feat_names, cell, rs):
    from sktime.transformations.panel.segment import RandomIntervalSegmenter
    from sktime.transformations.panel.summarize._extract import RandomIntervalFeatureExtractor
    table = _feature_table()
    raw = [[_vals(rng, n) for _ in range(int(rng.randint(1, 4)))]]
    raw2 = [[_vals(rng, n) for _ in range(int(rng.randint(1, 4)))]]
    X, X2 = _wrap(raw, cell), _wrap(raw2, cell)
    kw = dict(n_intervals=spec, random_state=rs)
    if min_length is not None:
        kw["min_length"] = min_length
    if max_length is not None:
        kw["max_length"] = max_length
    # segmenter
    desc = f"RandomIntervalSegmenter({kw}) cells={cell} fit on X={_show(raw)}"
    tr, e = _call(lambda: RandomIntervalSegmenter(**kw).fit(X))
    if e is not None:
        R.check("random-interval-segments", False, f"{desc}: fit {_exc(e)}")
    elif _check_intervals(R, tr.intervals_, n, spec, min_length, max_length, desc):
        iv = np.asarray(tr.intervals_).tolist()
        out, e = _call(lambda: tr.transform(X2))
        d = f"{desc}, intervals_={iv}, transform X2={_show(raw2)}"
        if e is not None:
            R.check("random-interval-segments", False, f"{d}: {_exc(e)}")
        else:
            grid = _cells_frame(out, len(raw2[0]), len(iv))
            R.check("random-interval-segments", grid is not None, f"{d}: output shape {getattr(out, 'shape', None)}, expected ({len(raw2[0])}, {len(iv)})")
            if grid is not None:
                for i in range(len(raw2[0])):
                    for j, (s, e_) in enumerate(iv):
                        R.check("random-interval-segments", _eq(grid[i][j], raw2[0][i][s:e_]),
                                f"{d}: row {i} interval ({s},{e_}) = {_l(grid[i][j])}, expected {_l(raw2[0][i][s:e_])}")
    # feature extractor
    feats = None if feat_names is None else [table[f][0] for f in feat_names]
    names = ["mean"] if feat_names is None else list(feat_names)
    desc = f"RandomIntervalFeatureExtractor({kw}, features={feat_names}) cells={cell} fit on X={_show(raw)}"
    tr, e = _call(lambda: RandomIntervalFeatureExtractor(features=feats, **kw).fit(X))
    if e is not None:
        R.check("interval-features-values", False, f"{desc}: fit {_exc(e)}")
        return
    if not _check_intervals(R, tr.intervals_, n, spec, min_length, max_length, desc):
        return
    iv = np.asarray(tr.intervals_).tolist()
    for which, rw, Xw in (("X", raw, X), ("X2", raw2, X2), ("X again", raw, X)):
        out, e = _call(lambda: tr.transform(Xw))
        d = f"{desc}, intervals_={iv}, transform {which}={_show(rw)}"
        if e is not None:
            R.check("interval-features-values", False, f"{d}: {_exc(e)}")
            continue
        ok_shape = isinstance(out, pd.DataFrame) and out.shape == (len(rw[0]), len(iv) * len(names))
        R.check("interval-features-shape", ok_shape, f"{d}: output shape {getattr(out, 'shape', None)}, expected ({len(rw[0])}, {len(iv) * len(names)})")
        if not ok_shape:
            continue
        got = np.asarray(out, dtype=float)
        col = 0
        for f in names:
            for s, e_ in iv:
                for i in range(len(rw[0])):
                    seg = [float(a) for a in rw[0][i][s:e_]]
                    exp = table[f][1](seg)
                    R.check("interval-features-values", _eq(got[i, col], exp, 1e-8),
                            f"{d}: column {col} ({out.columns[col]}) row {i} = {got[i, col]!r}, expected {f} of X[{i}, {s}:{e_}]={seg} = {exp!r}")
                col += 1


def sec_random_intervals(R, rng, tier, seed):
    big = tier == "thorough"
    specs = [1, 2, 3, "sqrt", "log", "random", 0.5, 0.3]
    feat_sets = [None, ["mean", "std", "_slope"], ["value_range"], ["mean", "last_minus_first", "amax"], ["weighted_sum", "median"],
                 ["_slope", "value_range", "amin", "last_minus_first"]]
    k = 0
    for n in (range(4, 21) if big else range(4, 10) if tier == "quick" else (5, 8)):
        for spec in specs:
            for rep in range(6 if big else 2 if tier == "quick" else 1):
                k += 1
                mn, mx = [(None, None), (None, None), (2, None), (3, None), (1, 3), (2, 4)][k % 6]
                if spec == "random" or (mn is not None and mn >= n) or (isinstance(spec, int) and spec > n):
                    mn, mx = None, None
                check_random_intervals(R, rng, n, spec, mn, mx, feat_sets[k % len(feat_sets)], CELLS[k % 4], seed * 1000 + k)
    # refit on a series of another length: the intervals must be regenerated for the new length
    from sktime.transformations.panel.summarize._extract import RandomIntervalFeatureExtractor
    rawA, rawB = [[_vals(rng, 12), _vals(rng, 12)]], [[_vals(rng, 5), _vals(rng, 5)]]
    tr = RandomIntervalFeatureExtractor(n_intervals=3, features=[value_range, np.mean], random_state=seed)
    out, e = _call(lambda: tr.fit(_wrap(rawA, "series")).fit(_wrap(rawB, "series")).transform(_wrap(rawB, "series")))
    desc = f"RandomIntervalFeatureExtractor(3, [value_range, mean]) fit on length 12 then refit on B={_show(rawB)}"
    if e is not None:
        R.check("interval-features-values", False, f"{desc}: {_exc(e)}")
    elif _check_intervals(R, tr.intervals_, 5, 3, None, None, desc):
        got, iv = np.asarray(out, dtype=float), np.asarray(tr.intervals_).tolist()
        for j, (s, e_) in enumerate(iv):
            for i in range(2):
                seg = rawB[0][i][s:e_]
                R.check("interval-features-values", _eq(got[i, j], seg.max() - seg.min()) and _eq(got[i, 3 + j], seg.mean()),
                        f"{desc}: intervals_={iv} row {i} interval {j}: got range {got[i, j]}, mean {got[i, 3 + j]}; expected {seg.max() - seg.min()}, {seg.mean()}")


# ----------------------------------------------------------------------------------------------------- row transformers
def _stubs():
    from sktime.transformations.base import _SeriesToPrimitivesTransformer, _SeriesToSeriesTransformer

    class TimeWeightedSum(_SeriesToPrimitivesTransformer):
        """sum_t (t+1) * z_t per column: sensitive to time order and to column mix-ups"""

        def transform(self, Z, X=None):
            Z = np.asarray(Z, dtype=float)
            Z = Z.reshape(Z.shape[0], -1)
            return (np.arange(1, Z.shape[0] + 1)[:, None] * Z).sum(axis=0)

    class CumSum(_SeriesToSeriesTransformer):
        def transform(self, Z, X=None):
            Z = np.asarray(Z, dtype=float)
            return np.cumsum(Z.reshape(Z.shape[0], -1), axis=0)

    class Diff(_SeriesToSeriesTransformer):
        """length changing: first differences"""

        def transform(self, Z, X=None):
            Z = np.asarray(Z, dtype=float)
            return np.diff(Z.reshape(Z.shape[0], -1), axis=0)

    return TimeWeightedSum, CumSum, Diff


def check_rows(R, raw, cell, rowlab=False):
    from sktime.transformations.panel.compose import SeriesToPrimitivesRowTransformer, SeriesToSeriesRowTransformer, make_row_transformer
    from sktime.transformations.series.cos import CosineTransformer
    from sktime.transformations.series.summarize import MeanTransformer
    TimeWeightedSum, CumSum, Diff = _stubs()
    n_cols, n_inst = len(raw), len(raw[0])
    X = _wrap(raw, cell, rowlab)
    prims = [("MeanTransformer", MeanTransformer, lambda v: float(np.sum(v) / len(v))),
             ("stub sum_t (t+1)*z_t", TimeWeightedSum, lambda v: float(sum((t + 1) * a for t, a in enumerate(v))))]
    for name, cls, f in prims:
        desc = f"SeriesToPrimitivesRowTransformer({name}) cells={cell} rowlabels={rowlab} X={_show(raw)}"
        out, e = _call(lambda: SeriesToPrimitivesRowTransformer(cls()).fit(X).transform(X))
        if e is not None:
            R.check("row-primitives-values", False, f"{desc}: {_exc(e)}")
            continue
        exp = np.array([[f(raw[c][i]) for c in range(n_cols)] for i in range(n_inst)])
        got = np.asarray(out, dtype=float)
        R.check("row-primitives-values", _eq(got, exp), f"{desc}: got {got.tolist()}, expected (row i, col c) = f(series of instance i, column c) = {exp.tolist()}")
    sers = [("CosineTransformer", CosineTransformer, lambda v: np.array([math.cos(a) for a in v])),
            ("stub cumsum", CumSum, lambda v: np.array([sum(v[: t + 1]) for t in range(len(v))])),
            ("stub first differences", Diff, lambda v: np.array([v[t + 1] - v[t] for t in range(len(v) - 1)]))]
    for name, cls, f in sers:
        if name.endswith("differences") and len(raw[0][0]) < 2:
            continue
        desc = f"SeriesToSeriesRowTransformer({name}) cells={cell} rowlabels={rowlab} X={_show(raw)}"
        if name == "stub cumsum":       # through the factory
            out, e = _call(lambda: make_row_transformer(cls()).fit(X).transform(X))
        else:
            out, e = _call(lambda: SeriesToSeriesRowTransformer(cls()).fit(X).transform(X))
        if e is not None:
            R.check("row-series-values", False, f"{desc}: {_exc(e)}")
            continue
        grid = _cells_frame(out, n_inst, n_cols)
        R.check("row-series-shape", grid is not None, f"{desc}: output shape {getattr(out, 'shape', None)}, expected ({n_inst}, {n_cols})")
        if grid is None:
            continue
        for i in range(n_inst):
            for c in range(n_cols):
                exp = f([float(a) for a in raw[c][i]])
                R.check("row-series-values", _eq(grid[i][c], exp), f"{desc}: cell (row {i}, col {c}) = {_l(grid[i][c])}, expected {_l(exp)}")


def sec_rows(R, rng, tier):
    big = tier == "thorough"
    k = 0
    for n_inst in (1, 2, 3):
        for n_cols in (1, 2, 3):
            for L in (range(1, 9) if big else (1, 2, 3, 5) if tier == "quick" else (3,)):
                for cell in CELLS:
                    k += 1
                    if tier == "replay" and k % 2:
                        continue
                    check_rows(R, [[_vals(rng, L) for _ in range(n_inst)] for _ in range(n_cols)], cell, rowlab=(k % 3 == 0))


# -------------------------------------------------------------------------------------------------------------- imputer
def _ffill(v):
    out, last = [], NAN
    for a in v:
        if not math.isnan(a):
            last = a
        out.append(last)
    return out


def _bfill(v):
    return _ffill(v[::-1])[::-1]


def _impute_exp(method, v, value=None, degree=None):
    """v: list of floats with nan. Returns list of acceptable-value sets per position (each a tuple of candidates),
    or for 'random' a (lo, hi) range marker."""
    n = len(v)
    obs = [(t, a) for t, a in enumerate(v) if not math.isnan(a)]
    ff_bf = _bfill(_ffill(v))
    bf_ff = _ffill(_bfill(v))
    out = []
    if method in ("drift", "forecaster"):
        deg = 1 if method == "drift" else degree
        t = np.arange(n, dtype=float)
        coef = np.polyfit(t, np.array(ff_bf), deg) if deg > 0 else np.array([np.mean(ff_bf)])
        line = np.polyval(coef, t)
    for t, a in enumerate(v):
        if not math.isnan(a):
            out.append((a,))
            continue
        prev = [p for p in obs if p[0] < t]
        nxt = [p for p in obs if p[0] > t]
        if method in ("pad", "ffill"):
            out.append((ff_bf[t],))
        elif method in ("backfill", "bfill"):
            out.append((bf_ff[t],))
        elif method == "constant":
            out.append((float(value),))
        elif method == "mean":
            out.append((sum(a_ for _, a_ in obs) / len(obs),))
        elif method == "median":
            s = sorted(a_ for _, a_ in obs)
            out.append((s[len(s) // 2] if len(s) % 2 else (s[len(s) // 2 - 1] + s[len(s) // 2]) / 2,))
        elif method == "linear":
            if prev and nxt:
                (t0, a0), (t1, a1) = prev[-1], nxt[0]
                out.append((a0 + (a1 - a0) * (t - t0) / (t1 - t0),))
            else:
                out.append((prev[-1][1] if prev else nxt[0][1],))
        elif method == "nearest":
            if prev and nxt:
                (t0, a0), (t1, a1) = prev[-1], nxt[0]
                out.append((a0,) if t - t0 < t1 - t else (a1,) if t1 - t < t - t0 else (a0, a1))
            else:
                out.append((prev[-1][1] if prev else nxt[0][1],))
        elif method in ("drift", "forecaster"):
            out.append((float(line[t]),))
        elif method == "random":
            out.append(("range", min(a_ for _, a_ in obs), max(a_ for _, a_ in obs)))
        else:
            raise KeyError(method)
    return out


def _match(got, exp, tol=1e-7):
    if len(got) != len(exp):
        return False
    for g, cands in zip(got, exp):
        if cands and cands[0] == "range":
            if not (cands[1] - 1e-9 <= g <= cands[2] + 1e-9):
                return False
        elif not any(abs(g - c) <= tol * (1 + abs(c)) for c in cands):
            return False
    return True


def _exp_show(exp):
    return [("in[%g,%g]" % (c[1], c[2])) if c[0] == "range" else (round(c[0], 6) if len(c) == 1 else "one of %s" % (list(c),)) for c in exp]


def check_impute(R, cols, method, off=0, value=None, missing_values=None, rs=0):
    """cols: list of value lists (1 -> pd.Series, more -> DataFrame); missing entries are nan or `missing_values`"""
    from sktime.transformations.series.impute import Imputer
    n = len(cols[0])
    index = pd.RangeIndex(off, off + n)
    Z = pd.Series(cols[0], index=index, dtype=float) if len(cols) == 1 else pd.DataFrame({f"v{j}": c for j, c in enumerate(cols)}, index=index, dtype=float)
    kw = dict(method=method)
    degree = None
    if method == "constant":
        kw["value"] = value
    if method == "random":
        kw["random_state"] = rs
    if missing_values is not None:
        kw["missing_values"] = missing_values
    if method == "forecaster":
        from sktime.forecasting.trend import PolynomialTrendForecaster
        degree = 2
        kw["forecaster"] = PolynomialTrendForecaster(degree=2)
    shown = {k: (v if k != "forecaster" else "PolynomialTrendForecaster(degree=2)") for k, v in kw.items()}
    desc = f"Imputer({shown}) on {'Series' if len(cols) == 1 else 'DataFrame columns'} {cols} (index starts at {off})"
    out, e = _call(lambda: Imputer(**kw).fit(Z.copy()).transform(Z.copy()))
    key = "impute-" + {"pad": "ffill", "backfill": "bfill"}.get(method, method)
    clean = [[NAN if (missing_values is not None and a == missing_values) else a for a in c] for c in cols]
    if e is not None:
        const_int = any(len({a for a in c if not math.isnan(a)}) == 1 and all(float(a).is_integer() for a in c if not math.isnan(a))
                        and any(math.isnan(a) for a in c) for c in clean)
        if method == "random" and const_int and isinstance(e, ValueError) and ("low >= high" in str(e) or "high <= 0" in str(e)):
            R.check("KF:imputer-random-constant-integer-series-raises", False, f"{desc}: {_exc(e)}; expected the missing entries filled with the only value between min and max")
        else:
            R.check(key, False, f"{desc}: {_exc(e)}")
        return
    got_cols = [_arr(out)] if len(cols) == 1 else [_arr(out.iloc[:, j]) for j in range(len(cols))] if getattr(out, "ndim", 1) == 2 and out.shape[1] == len(cols) else None
    if got_cols is None or any(len(g) != n for g in got_cols):
        R.check(key, False, f"{desc}: output {type(out).__name__} of shape {getattr(out, 'shape', None)}")
        return
    for j, c in enumerate(clean):
        exp = _impute_exp(method, c, value=value, degree=degree)
        got = [float(a) for a in got_cols[j]]
        ok = _match(got, exp)
        d = f"{desc}: column {j} -> {_l(got)}, expected {_exp_show(exp)}"
        if not ok and method in ("drift", "forecaster") and _eq(got, _bfill(_ffill(c))):
            R.check("KF:imputer-%s-equals-ffill" % method, False, d + " (the result is the plain forward fill; the in-sample trend/forecast values are never used)")
        elif not ok and missing_values == 0 and _eq(got, cols[j]):
            R.check("KF:imputer-missing-values-zero-ignored", False, d + " (placeholder 0 left in place)")
        else:
            R.check(key, ok, d)


METHODS = ("drift", "linear", "nearest", "constant", "mean", "median", "backfill", "bfill", "pad", "ffill", "random", "forecaster")


def sec_impute(R, rng, tier, seed):
    big = tier == "thorough"
    n = 9 if big else 6 if tier == "quick" else 4
    k = 0
    for mask in itertools.product((0, 1), repeat=n):        # 1 = missing; every pattern except "all missing"
        if sum(mask) == n:
            continue
        k += 1
        base = _vals(rng, n) if k % 3 else np.round(_vals(rng, n))       # integer-valued series exercise randint
        v = [NAN if m else float(a) for m, a in zip(mask, base)]
        for method in METHODS:
            if method == "forecaster" and n - sum(mask) < 1:
                continue
            check_impute(R, [v], method, off=(0, 5)[k % 2], value=(-7, 0.5)[k % 2], rs=seed + k)
    # DataFrames: each column imputed on its own
    for r in range(150 if big else 24 if tier == "quick" else 2):
        m = int(rng.randint(4, 9))
        cols = []
        for j in range(2 + r % 2):
            c = [float(a) for a in _vals(rng, m)]
            miss = rng.permutation(m)[: int(rng.randint(0, m - 1))]
            for t in miss:
                c[int(t)] = NAN
            cols.append(c)
        for method in METHODS:
            if r % 3 == 0 or method in ("drift", "linear", "nearest", "mean", "bfill", "random"):
                check_impute(R, cols, method, off=(0, 3)[r % 2], value=1.5, rs=seed + r)
    # placeholder values instead of nan
    for r in range(40 if big else 6 if tier == "quick" else 1):
        m = int(rng.randint(4, 8))
        for ph in (-1, 0):
            c = [float(a) for a in np.round(rng.uniform(1, 9, m), 2)]
            for t in rng.permutation(m)[: int(rng.randint(1, m - 1))]:
                c[int(t)] = float(ph)
            for method in ("mean", "ffill", "linear", "constant"):
                check_impute(R, [c], method, value=4.0, missing_values=ph)
    # constant series with gaps
    for method in ("random", "mean", "nearest", "linear"):
        check_impute(R, [[2.0, NAN, 2.0, NAN]], method, rs=seed)
        check_impute(R, [[2.5, NAN, 2.5, NAN]], method, rs=seed)


# -------------------------------------------------------------------------------------- cosine, acf, adaptor, mean
def _acf_exp(x, nlags, adjusted):
    n = len(x)
    m = sum(x) / n
    d = [a - m for a in x]
    c0 = sum(a * a for a in d) / n
    out = []
    for k in range(nlags + 1):
        ck = sum(d[t] * d[t + k] for t in range(n - k)) / ((n - k) if adjusted else n)
        out.append(ck / c0)
    return np.array(out)


def sec_series(R, rng, tier):
    from sklearn.base import BaseEstimator, TransformerMixin
    from sklearn.preprocessing import FunctionTransformer, MinMaxScaler, StandardScaler
    from sktime.transformations.series.acf import AutoCorrelationTransformer
    from sktime.transformations.series.adapt import TabularToSeriesAdaptor
    from sktime.transformations.series.cos import CosineTransformer
    from sktime.transformations.series.summarize import MeanTransformer
    big = tier == "thorough"

    class ColumnTagged(BaseEstimator, TransformerMixin):
        """(x - mean_fit[c]) * scale + 100 * c : column position and fitted statistics are both visible"""

        def __init__(self, scale=2.0):
            self.scale = scale

        def fit(self, X, y=None):
            self.m_ = np.asarray(X, dtype=float).mean(axis=0)
            return self

        def transform(self, X):
            X = np.asarray(X, dtype=float)
            return (X - self.m_) * self.scale + 100.0 * np.arange(X.shape[1])

        def inverse_transform(self, X):
            X = np.asarray(X, dtype=float)
            return (X - 100.0 * np.arange(X.shape[1])) / self.scale + self.m_

    def mk(cols, off):
        idx = pd.RangeIndex(off, off + len(cols[0]))
        return pd.Series(cols[0], index=idx) if len(cols) == 1 else pd.DataFrame({f"v{j}": c for j, c in enumerate(cols)}, index=idx)

    def as_cols(out, ncol, n):
        if ncol == 1:
            a = _arr(out)
            return [a] if len(a) == n else None
        if getattr(out, "ndim", 0) != 2 or out.shape != (n, ncol):
            return None
        return [_arr(np.asarray(out, dtype=float)[:, j]) for j in range(ncol)]

    k = 0
    for n in (range(2, 15) if big else range(2, 8) if tier == "quick" else (3, 5)):
        for ncol in (1, 2, 3):
            for off in (0, 4):
                k += 1
                cols = [_vals(rng, n) for _ in range(ncol)]
                Z = mk(cols, off)
                desc = f"on {'Series' if ncol == 1 else 'DataFrame columns'} {[_l(c) for c in cols]} (index starts at {off})"
                # cosine
                out, e = _call(lambda: CosineTransformer().fit(Z).transform(Z))
                got = None if e is not None else as_cols(out, ncol, n)
                if got is None:
                    R.check("cosine-values", False, f"CosineTransformer {desc}: {_exc(e) if e is not None else 'output shape %s' % (getattr(out, 'shape', None),)}")
                else:
                    for j in range(ncol):
                        exp = [math.cos(a) for a in cols[j]]
                        R.check("cosine-values", _eq(got[j], exp), f"CosineTransformer {desc}: column {j} -> {_l(got[j])}, expected {_l(exp)}")
                # mean
                out, e = _call(lambda: MeanTransformer().fit(Z).transform(Z))
                exp = [float(sum(c) / len(c)) for c in cols]
                R.check("mean-values", e is None and _eq(_arr(out), exp), f"MeanTransformer {desc}: {_exc(e) if e is not None else _l(_arr(out))}, expected {_l(exp)}")
                # adaptor: fit on Z, transform another series Z2 of another length / index
                n2 = n + 1 + k % 2
                cols2 = [_vals(rng, n2) for _ in range(ncol)]
                Z2 = mk(cols2, off + 2)
                A, A2 = np.column_stack(cols), np.column_stack(cols2)
                wrapped = [
                    ("MinMaxScaler()", MinMaxScaler, lambda B: (B - A.min(axis=0)) / (A.max(axis=0) - A.min(axis=0)),
                     lambda B: B * (A.max(axis=0) - A.min(axis=0)) + A.min(axis=0)),
                    ("StandardScaler()", StandardScaler, lambda B: (B - A.mean(axis=0)) / np.sqrt(((A - A.mean(axis=0)) ** 2).mean(axis=0)),
                     lambda B: B * np.sqrt(((A - A.mean(axis=0)) ** 2).mean(axis=0)) + A.mean(axis=0)),
                    ("stub (x-mean_c)*2+100c", ColumnTagged, lambda B: (B - A.mean(axis=0)) * 2.0 + 100.0 * np.arange(ncol),
                     lambda B: (B - 100.0 * np.arange(ncol)) / 2.0 + A.mean(axis=0)),
                    ("FunctionTransformer(np.exp)", lambda: FunctionTransformer(np.exp), lambda B: np.exp(B), None),
                ]
                for name, make, fwd, inv in wrapped:
                    if n < 2 and "Scaler" in name:
                        continue
                    d = f"TabularToSeriesAdaptor({name}) fit {desc}, then transform {[_l(c) for c in cols2]}"
                    tr, e = _call(lambda: TabularToSeriesAdaptor(make()).fit(Z))
                    out = None
                    if e is None:
                        out, e = _call(lambda: tr.transform(Z2))
                    got = None if e is not None else as_cols(out, ncol, n2)
                    if got is None:
                        R.check("adaptor-values", False, f"{d}: {_exc(e) if e is not None else 'output shape %s' % (getattr(out, 'shape', None),)}")
                        continue
                    exp = fwd(A2)
                    R.check("adaptor-values", _eq(np.column_stack(got), exp, 1e-8), f"{d}: got columns {[_l(g) for g in got]}, expected {[_l(exp[:, j]) for j in range(ncol)]}")
                    if inv is not None:
                        out, e = _call(lambda: tr.inverse_transform(Z2))
                        got = None if e is not None else as_cols(out, ncol, n2)
                        exp = inv(A2)
                        R.check("adaptor-inverse-values", got is not None and _eq(np.column_stack(got), exp, 1e-8),
                                f"{d} / inverse_transform of the same: {_exc(e) if e is not None else [_l(g) for g in got] if got else getattr(out, 'shape', None)}, expected {[_l(exp[:, j]) for j in range(ncol)]}")
                    if name.startswith("MinMax") and k % 3 == 0:      # refit: the statistics of the last fit count
                        out, e = _call(lambda: tr.fit(Z2).transform(Z2))
                        got = None if e is not None else as_cols(out, ncol, n2)
                        exp = (A2 - A2.min(axis=0)) / (A2.max(axis=0) - A2.min(axis=0))
                        R.check("adaptor-values", got is not None and _eq(np.column_stack(got), exp, 1e-8),
                                f"{d}, then refit on the second series and transform it: {_exc(e) if e is not None else [_l(g) for g in got] if got else None}, expected {[_l(exp[:, j]) for j in range(ncol)]}")
    # autocorrelation
    for n in (range(3, 17) if big else range(3, 10) if tier == "quick" else (4, 6)):
        x = [float(a) for a in _vals(rng, n)]
        for off in (0, 6):
            z = pd.Series(x, index=pd.RangeIndex(off, off + n))
            for nl in list(range(1, n)) + [None]:
                for adjusted in (False, True):
                    for fft in (False, True):
                        kw = dict(adjusted=adjusted, fft=fft)
                        if nl is not None:
                            kw["n_lags"] = nl
                        d = f"AutoCorrelationTransformer({kw}) on {x} (index starts at {off})"
                        out, e = _call(lambda: AutoCorrelationTransformer(**kw).fit(z).transform(z))
                        if e is not None:
                            R.check("acf-values", False, f"{d}: {_exc(e)}")
                            continue
                        got = _arr(out)
                        if nl is not None:
                            R.check("acf-length", len(got) == nl + 1, f"{d}: {len(got)} coefficients, expected lags 0..{nl}")
                        ok_len = 1 <= len(got) <= n
                        exp = _acf_exp(x, len(got) - 1, adjusted) if ok_len else []
                        R.check("acf-values", ok_len and _eq(got, exp, 1e-8), f"{d}: {_l(got)}, expected {_l(exp)}")


# ------------------------------------------------------------------------------------------------- slope and plateaus
def _tls_gradient(y):
    n = len(y)
    x = [float(t + 1) for t in range(n)]
    mx, my = sum(x) / n, sum(y) / n
    w = sum((b - my) ** 2 for b in y) - sum((a - mx) ** 2 for a in x)
    r = 2 * sum((a - mx) * (b - my) for a, b in zip(x, y))
    return 0.0 if r == 0 else (w + math.sqrt(w * w + r * r)) / r


def _runs(flags, min_length):
    starts, lengths, t = [], [], 0
    while t < len(flags):
        if flags[t]:
            s = t
            while t < len(flags) and flags[t]:
                t += 1
            if t - s >= min_length:
                starts.append(s)
                lengths.append(t - s)
        else:
            t += 1
    return starts, lengths


def sec_slope_plateau(R, rng, tier):
    from sktime.transformations.panel.slope import SlopeTransformer
    from sktime.transformations.panel.summarize._extract import PlateauFinder
    big = tier == "thorough"
    k = 0
    for n in range(2, (25 if big else 13 if tier == "quick" else 7)):
        for m in range(1, n + 1):
            k += 1
            n_inst, n_cols = 1 + k % 2, 1 + k % 2
            raw = [[_vals(rng, n) for _ in range(n_inst)] for _ in range(n_cols)]
            cell = CELLS[k % 4]
            X = _wrap(raw, cell)
            desc = f"SlopeTransformer(num_intervals={m}) cells={cell} X={_show(raw)}"
            out, e = _call(lambda: SlopeTransformer(m).fit(X).transform(X))
            if e is not None:
                R.check("slope-values", False, f"{desc}: {_exc(e)}")
                continue
            grid = _cells_frame(out, n_inst, n_cols)
            R.check("slope-shape", grid is not None, f"{desc}: output shape {getattr(out, 'shape', None)}, expected ({n_inst}, {n_cols})")
            if grid is None:
                continue
            for i in range(n_inst):
                for c in range(n_cols):
                    got = grid[i][c]
                    if len(got) == m + 1 and n % m != 0:
                        R.check("KF:slope-transformer-extra-interval", False,
                                f"{desc}: cell (row {i}, col {c}) has {len(got)} gradients, expected num_intervals={m} (the float accumulation of n/num_intervals in _split_time_series stays below n)")
                    else:
                        R.check("slope-length", len(got) == m, f"{desc}: cell (row {i}, col {c}) has {len(got)} gradients, expected {m}")
                    if n % m == 0 and len(got) == m:      # equal integer segments: boundaries are unambiguous
                        w = n // m
                        exp = [_tls_gradient([float(a) for a in raw[c][i][j * w:(j + 1) * w]]) for j in range(m)]
                        R.check("slope-values", _eq(got, exp, 1e-8), f"{desc}: cell (row {i}, col {c}) = {_l(got)}, expected total-least-squares gradients {_l(exp)}")
    # plateaus
    for r in range(500 if big else 80 if tier == "quick" else 6):
        n = int(rng.randint(2, 10))
        value = (NAN, 1.0, float("inf"), NAN, 0.0)[r % 5]
        min_length = 1 + r % 3
        rows = []
        for i in range(1 + r % 3):
            v = [float(a) for a in rng.randint(1, 4, size=n)]
            for t in range(n):
                if rng.rand() < 0.45:
                    v[t] = value
            rows.append(v)
        X = pd.DataFrame({"a": [pd.Series(v) for v in rows]})
        desc = f"PlateauFinder(value={value}, min_length={min_length}) on rows {rows}"
        out, e = _call(lambda: PlateauFinder(value=value, min_length=min_length).fit(X).transform(X))
        if e is not None or not isinstance(out, pd.DataFrame) or out.shape != (len(rows), 2):
            R.check("plateau-starts-lengths", False, f"{desc}: {_exc(e) if e is not None else 'output shape %s' % (getattr(out, 'shape', None),)}")
            continue
        for i, v in enumerate(rows):
            flags = [(math.isnan(a) if math.isnan(value) else a == value) for a in v]
            s, ln = _runs(flags, min_length)
            gs, gl = [int(a) for a in np.asarray(out.iloc[i, 0]).ravel()], [int(a) for a in np.asarray(out.iloc[i, 1]).ravel()]
            R.check("plateau-starts-lengths", gs == s and gl == ln, f"{desc}: row {i} starts {gs} lengths {gl}, expected starts {s} lengths {ln}")


# ---------------------------------------------------------------------------------------------------------------- entry
SECTIONS = ("pad_trunc", "interp", "tab_concat", "paa", "segment", "random_intervals", "rows", "impute", "series", "slope_plateau")


def _run(R, tier, seed, sections=SECTIONS):
    for j, s in enumerate(SECTIONS):
        if s not in sections:
            continue
        rng = np.random.RandomState((seed * 7919 + 101 * j + 13) % (2 ** 31 - 1))
        if s == "pad_trunc":
            sec_pad_trunc(R, rng, tier)
        elif s == "interp":
            sec_interp(R, rng, tier)
        elif s == "tab_concat":
            sec_tab_concat(R, rng, tier)
        elif s == "paa":
            sec_paa(R, rng, tier)
        elif s == "segment":
            sec_segment(R, rng, tier)
        elif s == "random_intervals":
            sec_random_intervals(R, rng, tier, seed)
        elif s == "rows":
            sec_rows(R, rng, tier)
        elif s == "impute":
            sec_impute(R, rng, tier, seed)
        elif s == "series":
            sec_series(R, rng, tier)
        elif s == "slope_plateau":
            sec_slope_plateau(R, rng, tier)


def bounded(tier, seed):
    big = tier == "thorough"
    R = Recorder(
        "real transformers vs plain-python formulas on generic 3-decimal values; panels of 1-3 instances x 1-3 columns with cells as "
        "pd.Series (index from 0 or from 5), np.ndarray, or the panel as 3d numpy, with default or non-monotonic row labels. "
        f"Padding/Truncation: all length tuples in [1,{5 if big else 4}]^(1..3) x pad_length in {{None, longest, longer, longest-1 (must be rejected)}} x "
        "fill in {default,-1,2.5,nan,0}, all lower / (lower,upper) ranges up to the shortest length, plus random multi-column unequal panels, "
        "fit-then-transform-another-panel, refit, set_params; "
        f"TSInterpolator: source lengths 2..{10 if big else 7} x target lengths 1..{14 if big else 9} and unequal panels; Tabularizer/ColumnConcatenator: lengths 1..{8 if big else 5}, "
        f"columns of different lengths; PAA: every num_intervals 1..n for n=2..{40 if big else 16} (set_num_intervals too); IntervalSegmenter: every int "
        f"1..n//2 for n=2..{20 if big else 11}, all single (start,end) rows and sampled 2-3 row sets on length {7 if big else 5}; SlidingWindowSegmenter: every window 1..n+3 "
        f"for n=1..{18 if big else 9}; RandomIntervalSegmenter/FeatureExtractor: lengths 4..{20 if big else 9} x n_intervals in {{1,2,3,sqrt,log,random,0.5,0.3}} x "
        "min/max_length options x feature lists incl. callables without an `axis` keyword, transform on a second panel, refit; "
        "Row transformers around MeanTransformer, CosineTransformer and stub time-weighted-sum / cumsum / diff transformers; "
        f"Imputer: every missing-pattern of a length-{9 if big else 6} series x all 12 methods (forecaster=PolynomialTrendForecaster(2)), 2-3 column DataFrames, "
        "placeholders -1 and 0; Cosine/Mean/TabularToSeriesAdaptor(MinMax, Standard, exp, stub) on Series and 2-3 column frames incl. inverse and refit; "
        f"ACF: lengths 3..{16 if big else 9}, all n_lags, adjusted/fft; SlopeTransformer: all num_intervals for n<{25 if big else 13} (values only when it divides n); "
        "PlateauFinder random rows; thorough repeats the quick-size enumeration with two more seeds. NOT covered: ACF qstat/missing options, PACF, DerivativeSlopeTransformer (undocumented), FittedParamExtractor, "
        "sklearn-derived ColumnTransformer, unequal-length input for transformers that document equal length only.")
    _run(R, tier, seed)
    if big:                       # the quick-size enumeration again with two more value / random_state seeds
        _run(R, "quick", seed + 1)
        _run(R, "quick", seed + 2)
    return R.result()


_TARGET_SECTIONS = (
    (("padd", "padder", "trunc"), "pad_trunc"), (("interpol",), "interp"), (("tabular", "concat", "reduce"), "tab_concat"),
    (("paa",), "paa"), (("randominterval", "extract", "feature"), "random_intervals"), (("segment", "sliding", "interval"), "segment"),
    (("row", "primitives"), "rows"), (("imput",), "impute"), (("cos", "acf", "autocorr", "adapt", "mean", "summarize"), "series"),
    (("slope", "plateau"), "slope_plateau"),
)


_KF_TARGETS = {
    "KF:padding-array-cells-raise": (("padd",),),
    "KF:truncation-array-cells-raise": (("trunc",),),
    "KF:interpolator-array-cells-raise": (("interpol",),),
    "KF:interval-segmenter-int-drops-last-point": (("intervalsegmenter.",), ("segment.py::intervalsegmenter",)),
    "KF:random-intervals-max-length-end-beyond-series": (("_rand_intervals_fixed_n",), ("randomintervalsegmenter", "fit")),
    "KF:imputer-drift-equals-ffill": (("imput",),),
    "KF:imputer-forecaster-equals-ffill": (("imput",),),
    "KF:imputer-random-constant-integer-series-raises": (("imput", "random"), ("_get_random",)),
    "KF:imputer-missing-values-zero-ignored": (("imput",),),
    "KF:slope-transformer-extra-interval": (("slopetransformer",), ("_split_time_series",), ("panel/slope.py",)),
}


def replay(rec):
    m = rec.get("model") or {}
    text = (str(rec.get("target", "")) + " " + str(rec.get("case", ""))).lower()
    R = Recorder("replay")
    rng = np.random.RandomState(0)
    used = {}
    n = max(mint(m, "n", 0), mint(m, "n_timepoints", 0), mint(m, "len(x)", 0), mint(m, "num_atts", 0))
    k = max(mint(m, "k", 0), mint(m, "num_intervals", 0), mint(m, "window_length", 0), mint(m, "w", 0), mint(m, "length", 0),
            mint(m, "pad_length", 0))
    if 1 <= n <= 40 and k >= 1:           # concrete sizes from the symbolic model
        vals = None
        for name in ("x", "series", "X"):
            if isinstance(m.get(name), list):
                vals = np.array([float(v) for v in ints_from_model(m, name, n)])
        raw = [[vals if vals is not None else _vals(rng, n), _vals(rng, n)]]
        used = {"n": n, "k": k, "values": _show(raw)}
        if "paa" in text and k <= n:
            check_paa(R, raw, "series", k)
        if "sliding" in text or "window" in text:
            check_sliding(R, raw, "series", k)
        if "interval" in text and "random" not in text and k <= n // 2:
            check_interval_segmenter(R, raw, "series", k)
        if "interpol" in text and n >= 2:
            check_interp(R, raw, "series", k)
        if "pad" in text:
            check_pad(R, raw, "series", k, mint(m, "fill_value", 0))
        if "trunc" in text and k <= n:
            check_trunc(R, raw, "series", k, None)
    secs = [s for keys, s in _TARGET_SECTIONS if any(key in text for key in keys)]
    if not secs:
        secs = list(SECTIONS)
    _run(R, "replay", 0, sections=secs)
    used["sections"] = secs
    # a known finding (KF:) counts as a reproduction only when the replayed target is the code it is about
    f = [d for d in R.failures if not d["key"].startswith("KF:") or any(all(w in text for w in ws) for ws in _KF_TARGETS.get(d["key"], ()))]
    return {"reproduced": bool(f), "detail": f[:3], "input": used}
