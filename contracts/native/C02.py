"""C02 native oracle: the property statement evaluated on the real ForecastingHorizon."""
import itertools

import numpy as np
import pandas as pd

from .common import Recorder, ints_from_model, mint


def build(values, kind):
    if kind == "int":
        return int(values[0])
    if kind == "list":
        return list(values)
    if kind == "ndarray":
        return np.array(values, dtype=int)
    if kind == "Int64Index":
        return pd.Index(np.array(values, dtype=int))
    if kind == "RangeIndex":
        return values      # already a RangeIndex
    raise KeyError(kind)


def check_horizon(R, values, kind, cutoffs, tag=""):
    """all clauses of C02 for one duplicate-free collection of integer steps"""
    from sktime.forecasting.base import ForecastingHorizon
    vals = sorted(int(v) for v in (values if kind != "int" else values[:1]))
    raw = build(values, kind)
    for is_rel in (True, False):
        try:
            fh = ForecastingHorizon(raw, is_relative=is_rel)
        except Exception as e:
            R.check("construct", False, f"{tag} ForecastingHorizon({raw!r}, is_relative={is_rel}) raised {type(e).__name__}: {e}")
            continue
        got = [int(v) for v in fh.to_pandas()]
        R.check("stored-sorted", got == vals, f"{tag} values={raw!r} stored {got}, expected {vals}")
        for c in cutoffs:
            rel = vals if is_rel else [v - c for v in vals]
            ab = [v + c for v in vals] if is_rel else vals
            desc = f"{tag} values={raw!r} is_relative={is_rel} cutoff={c}"
            try:
                a = [int(v) for v in fh.to_absolute(c).to_pandas()]
                r = [int(v) for v in fh.to_relative(c).to_pandas()]
                R.check("to_absolute", a == ab, f"{desc}: to_absolute={a}, expected {ab}")
                R.check("to_relative", r == rel, f"{desc}: to_relative={r}, expected {rel}")
                back = [int(v) for v in fh.to_absolute(c).to_relative(c).to_pandas()]
                R.check("roundtrip", back == rel, f"{desc}: abs->rel={back}, expected {rel}")
                ins = [int(v) for v in fh.to_in_sample(c).to_relative(c).to_pandas()]
                oos = [int(v) for v in fh.to_out_of_sample(c).to_relative(c).to_pandas()]
                R.check("in-sample-part", ins == [v for v in rel if v <= 0], f"{desc}: in-sample={ins}")
                R.check("out-of-sample-part", oos == [v for v in rel if v > 0], f"{desc}: out-of-sample={oos}")
                R.check("is_all_in_sample", bool(fh.is_all_in_sample(c)) == all(v <= 0 for v in rel), f"{desc}: is_all_in_sample={fh.is_all_in_sample(c)}")
                R.check("is_all_out_of_sample", bool(fh.is_all_out_of_sample(c)) == all(v > 0 for v in rel), f"{desc}: is_all_out_of_sample={fh.is_all_out_of_sample(c)}")
                ix = [int(v) for v in fh.to_indexer(c)]
                R.check("to_indexer", ix == [v - 1 for v in rel], f"{desc}: to_indexer={ix}")
                ai = [int(v) for v in fh.to_absolute_int(c - 3, c).to_pandas()]
                R.check("to_absolute_int", ai == [v - (c - 3) for v in ab], f"{desc}: to_absolute_int(start={c-3})={ai}")
            except Exception as e:
                R.check("method-raises", False, f"{desc}: {type(e).__name__}: {e}")


def check_rejections(R):
    from sktime.forecasting.base import ForecastingHorizon
    bad = [([1, 1], ValueError), (np.array([2, 2, 3]), ValueError), ([1.5, 2], TypeError), ("a", TypeError), (1.0, TypeError),
           (None, TypeError), ((1, 2), TypeError)]
    for v, exc in bad:
        for rel in (True, False):
            try:
                ForecastingHorizon(v, is_relative=rel)
                R.check("rejects", False, f"ForecastingHorizon({v!r}, is_relative={rel}) was accepted")
            except (ValueError, TypeError) as e:
                R.check("rejects", True, "")
            except Exception as e:
                R.check("rejects", False, f"ForecastingHorizon({v!r}) raised {type(e).__name__}")
    try:
        ForecastingHorizon([1, 2], is_relative=1)
        R.check("rejects", False, "is_relative=1 accepted")
    except TypeError:
        R.check("rejects", True, "")


def bounded(tier, seed):
    hi = 3 if tier == "quick" else 4
    R = Recorder(f"all duplicate-free subsets of [-{hi}, {hi}] of size <= {3 if tier == 'quick' else 4}, given as int/list/array/Int64Index "
                 f"(in two orders) and RangeIndex(start, stop, step) for |step|<=2; cutoffs in [-2..3] applied in sequence to one object")
    dom = list(range(-hi, hi + 1))
    cutoffs = [0, 3, -2, 3, 1]
    for k in range(1, (3 if tier == "quick" else 4) + 1):
        for sub in itertools.combinations(dom, k):
            for kind in (("int",) if k == 1 else ()) + ("list", "ndarray", "Int64Index"):
                for order in (sub, tuple(reversed(sub))):
                    check_horizon(R, list(order), kind, cutoffs)
    for start in range(-2, 3):
        for stop in range(-3, 4):
            for step in (1, 2, -1, -2):
                ri = pd.RangeIndex(start, stop, step)
                if len(ri) == 0:
                    continue
                check_horizon(R, ri, "RangeIndex", cutoffs)
    check_rejections(R)
    return R.result()


def replay(rec):
    m = rec.get("model") or {}
    target, case = rec["target"], rec["case"]
    R = Recorder("replay")
    parts = case.split("|")
    n = max(mint(m, "len(fh)", 0), mint(m, "len(values)", 0), 1)
    cutoff = mint(m, "cutoff", 0)
    if "fh" in m:
        values = ints_from_model(m, "fh", n)
        kind = "Int64Index"
    elif "values" in m and isinstance(m["values"], list):
        values = ints_from_model(m, "values", n)
        kind = parts[0] if parts[0] in ("list", "ndarray", "Int64Index") else "list"
    elif parts[0].startswith("RangeIndex"):
        start = mint(m, "values.start", 0)
        step = -1 if "-" in parts[0] else 1
        if "Step" in parts[0]:
            step *= 2
        ri = pd.RangeIndex(start, start + step * n, step)
        check_horizon(R, ri, "RangeIndex", [cutoff, cutoff + 2, cutoff])
        f = R.failures
        return {"reproduced": bool(f), "detail": f[:3], "input": {"values": repr(ri), "cutoff": cutoff}}
    else:
        values = [mint(m, "values", 1)]
        kind = "int"
    if len(set(values)) != len(values):
        return {"reproduced": False, "detail": "model has duplicate steps (rejection path)", "input": values}
    check_horizon(R, values, kind, [cutoff, cutoff + 2, cutoff])
    f = R.failures
    return {"reproduced": bool(f), "detail": f[:3], "input": {"values": values, "kind": kind, "cutoff": cutoff}}
